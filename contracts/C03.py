"""C03 -- variables and run counters end up with the values the csvpath assigns."""
from pyvc.contract import Contract
from . import core, shared, control
from .core import CF, MACROS
USES = ["shared"]

CP = "csvpath/csvpath.py"
FN = "csvpath/matching/functions"
QUAL = "csvpath/matching/productions/qualified.py"
MATCHABLE = "csvpath/matching/productions/matchable.py"
MATCHER = "csvpath/matching/matcher.py"

CF["CsvPath"].update({"variables": "dict[str,val]"})


def store_contracts():
    cs = []
    # ---- the variable store: CsvPath.set_variable / get_variable
    bad_name = "(not truthy(name) or strip(name) == '')"
    cs.append(Contract(
        target=f"{CP}::CsvPath.set_variable", variant="plain",
        types={"name": "optstr", "value": "val", "tracking": "none", "self.variables": "dict[str,val]"},
        modifies=["self.variables"],
        ensures={"writes_exactly_this_variable": "implies(not old(self._freeze_path), name in self.variables and same(self.variables[name], value))",
                 "every_other_variable_is_untouched": "forall_str(lambda k: implies(k != name, (k in self.variables) == (k in old(self.variables)) and "
                                                      "implies(k in self.variables, same(self.variables[k], old(self.variables)[k]))))",
                 "frozen_run_changes_nothing": "implies(old(self._freeze_path), forall_str(lambda k: (k in self.variables) == (k in old(self.variables)) and "
                                               "implies(k in self.variables, same(self.variables[k], old(self.variables)[k]))))"},
        raises={"VariableException": {"when": f"not self._freeze_path and {bad_name}", "exact": True}},
        covers={"zero_is_a_value": "same(self.variables[name], 0)", "none_is_a_value": "name in self.variables and self.variables[name] is None"},
        class_fields=CF, macros=MACROS, returns="none",
        property_clauses={"writes_exactly_this_variable": "C03", "every_other_variable_is_untouched": "C03", "frozen_run_changes_nothing": "C03"},
        doc={"writes_exactly_this_variable": "C03: 'the variables ... hold exactly the values the documented semantics assign'",
             "every_other_variable_is_untouched": "C03: 'exactly the values' -- a write of one variable is a write of that variable only (frame over the whole store)"}))
    same_dict = ("forall_str(lambda k: implies(k != tracking, (k in self.variables['x']) == (k in old(self.variables['x'])) and "
                 "implies(k in self.variables['x'], same(self.variables['x'][k], old(self.variables['x'])[k]))))")
    cs.append(Contract(
        target=f"{CP}::CsvPath.set_variable", variant="tracked_existing",
        types={"name": "const:x", "value": "val", "tracking": "str", "self.variables": "rec[x:dict[str,val],y:val]"},
        modifies=["self.variables"],
        ensures={"writes_exactly_this_tracking_value": "implies(not old(self._freeze_path), tracking in self.variables['x'] and same(self.variables['x'][tracking], value))",
                 "every_other_tracking_value_is_untouched": "implies(not old(self._freeze_path), %s)" % same_dict,
                 "every_other_variable_is_untouched": "same(self.variables['y'], old(self.variables['y']))",
                 "frozen_run_changes_nothing": "implies(old(self._freeze_path), (tracking in self.variables['x']) == (tracking in old(self.variables['x'])) and %s)" % same_dict},
        raises={"VariableException": {"when": "not self._freeze_path and strip(tracking) == ''", "exact": True}},
        covers={"zero_is_a_value": "same(self.variables['x'][tracking], 0)"},
        class_fields=CF, macros=MACROS, returns="none", native={"skip": True},
        property_clauses={"writes_exactly_this_tracking_value": "C03", "every_other_tracking_value_is_untouched": "C03", "every_other_variable_is_untouched": "C03",
                          "frozen_run_changes_nothing": "C03"},
        assumptions=["tracking values are strings in this contract (the store's tracking dicts are str-keyed in the value model; other hashable keys behave alike in CPython)"]))
    cs.append(Contract(
        target=f"{CP}::CsvPath.set_variable", variant="tracked_new",
        types={"name": "const:x", "value": "val", "tracking": "str", "self.variables": "rec[y:val]"},
        requires=["not self._freeze_path", "strip(tracking) != ''"],
        modifies=["self.variables"],
        ensures={"creates_the_tracking_dict_with_exactly_this_entry": "tracking in self.variables['x'] and same(self.variables['x'][tracking], value) and "
                                                                      "forall_str(lambda k: implies(k != tracking, k not in self.variables['x']))",
                 "every_other_variable_is_untouched": "same(self.variables['y'], old(self.variables['y']))"},
        class_fields=CF, macros=MACROS, returns="none", native={"skip": True},
        property_clauses={"creates_the_tracking_dict_with_exactly_this_entry": "C03", "every_other_variable_is_untouched": "C03"}))
    store_same = ("forall_str(lambda k: implies(k != name, (k in self.variables) == (k in old(self.variables)) and "
                  "implies(k in self.variables, same(self.variables[k], old(self.variables)[k]))))")
    sets = "(name not in old(self.variables) and set_if_none is not None and not self._freeze_path)"
    cs.append(Contract(
        target=f"{CP}::CsvPath.get_variable", variant="plain",
        types={"name": "str", "tracking": "none", "set_if_none": "val", "self.variables": "dict[str,val]"},
        requires=["len(name) > 0"],
        modifies=["self.variables"],
        ensures={"reads_the_current_value": "implies(name in old(self.variables), same(result, old(self.variables)[name]) and same(self.variables[name], old(self.variables)[name]) and name in self.variables)",
                 "default_is_stored_and_returned": "implies(%s, name in self.variables and same(self.variables[name], set_if_none) and same(result, set_if_none))" % sets,
                 "absent_without_default_reads_none_and_stays_absent": "implies(name not in old(self.variables) and not %s, result is None and name not in self.variables)" % sets,
                 "every_other_variable_is_untouched": store_same},
        covers={"zero_is_read_as_zero": "same(result, 0) and name in old(self.variables)", "default_zero": "same(result, 0) and name not in old(self.variables)"},
        class_fields=CF, macros=MACROS, returns="val",
        property_clauses={"reads_the_current_value": "C03", "default_is_stored_and_returned": "C03", "absent_without_default_reads_none_and_stays_absent": "C03",
                          "every_other_variable_is_untouched": "C03"},
        assumptions=["plain variable values are scalars in this contract; the end-of-run conversion of list values to tuples is covered by the bounded check"]))
    cur = "old(self.variables['x'])[tracking]"
    has = "(tracking in old(self.variables['x']))"
    cs.append(Contract(
        target=f"{CP}::CsvPath.get_variable", variant="tracked_existing",
        types={"name": "const:x", "tracking": "str", "set_if_none": "val", "self.variables": "rec[x:dict[str,val],y:val]"},
        requires=["truthy(self.variables['x'])"],
        modifies=["self.variables"],
        ensures={"reads_the_current_tracking_value": "implies(%s and truthy(%s), same(result, %s) and same(self.variables['x'][tracking], %s))" % (has, cur, cur, cur),
                 "absent_without_default_reads_none": "implies(not %s and (set_if_none is None or self._freeze_path), result is None)" % has,
                 "absent_with_default_stores_and_returns_it": "implies(not %s and set_if_none is not None and not self._freeze_path, same(result, set_if_none) and "
                                                              "tracking in self.variables['x'] and same(self.variables['x'][tracking], set_if_none))" % has,
                 "every_other_tracking_value_is_untouched": same_dict,
                 "every_other_variable_is_untouched": "same(self.variables['y'], old(self.variables['y']))"},
        class_fields=CF, macros=MACROS, returns="val", native={"skip": True},
        property_clauses={"reads_the_current_tracking_value": "C03", "absent_without_default_reads_none": "C03", "absent_with_default_stores_and_returns_it": "C03",
                          "every_other_tracking_value_is_untouched": "C03", "every_other_variable_is_untouched": "C03"},
        assumptions=["a falsy stored tracking value (0, '') read with a non-None default is replaced by the default: the documents do not say; not demanded either way"]))
    return cs


CF["Matchable"].update({"g_name_qualifier": "optstr", "g_id": "str"})
CF["Matcher"].update({"g_stack": "list[val]", "g_wlist": "list[val]"})
CF["First"].update({"_my_value_or_none": "val"}) if "First" in CF else CF.__setitem__("First", {"_my_value_or_none": "val"})
CF["LineMonitor"].update({"_physical_line_number": "optint", "_data_line_count": "optint"})

P_FNTQ = "def patch(self, default=None):\n    return self.g_name_qualifier if self.g_name_qualifier is not None else default\n"
P_GET_ID = "def patch(self, child=None):\n    return self.g_id\n"
NATIVE = {"patches": {**shared.NATIVE_PATCHES,
                      "csvpath.matching.productions.qualified.Qualified.first_non_term_qualifier": P_FNTQ,
                      "csvpath.matching.productions.matchable.Matchable.get_id": P_GET_ID,
                      "csvpath.matching.matcher.Matcher._what": shared.P_WHAT,
                      "csvpath.matching.matcher.Matcher.get_variable": "def patch(self, name, *, tracking=None, set_if_none=None):\n    return self.g_current if self.g_current is not None else set_if_none\n"},
          "spec_funs": {**shared.SPEC_FUNS,
                        "is_empty": "def fun(v):\n    m = importlib.import_module('csvpath.matching.util.expression_utility')\n    return m.ExpressionUtility.is_empty(v)\n"},
          "defaults": {"Matchable": {"children": [], "qualified_name": "stub", "_qualifiers": [], "name": "stub", "value": None, "match": None}}}
NATIVE_STACK = {**NATIVE, "patches": {**NATIVE["patches"],
                                      "csvpath.matching.matcher.Matcher.get_variable": "def patch(self, name, *, tracking=None, set_if_none=None):\n    return self.g_stack\n",
                                      "csvpath.matching.matcher.Matcher.set_variable": ("def patch(self, name, *, value, tracking=None):\n    self.g_writes += 1\n    self.g_wname = name\n"
                                                                                        "    self.g_wlist = value\n    self.g_wtracking = tracking\n"),
                                      "csvpath.matching.util.expression_utility.ExpressionUtility.is_empty": None}}
NATIVE_STACK["patches"].pop("csvpath.matching.util.expression_utility.ExpressionUtility.is_empty")
WROTE = {"no_write": ([], "self.matcher.g_writes == old(self.matcher.g_writes)"),
         "wrote": (["n", "v", "t"], "self.matcher.g_writes == old(self.matcher.g_writes) + 1 and same(self.matcher.g_wname, n) and same(self.matcher.g_wvalue, v) "
                                    "and same(self.matcher.g_wtracking, t)")}
WMOD = ["self.matcher.g_writes", "self.matcher.g_wname", "self.matcher.g_wvalue", "self.matcher.g_wtracking"]
INL = control.INL + ["Qualified.onmatch", "Qualified.asbool", "Qualified.notnone", "Qualified.has_qualifier"]


def interfaces():
    cs = []
    cs.append(Contract(
        target=f"{QUAL}::Qualified.first_non_term_qualifier", interface=True, types={"default": "val"},
        ensures={"name_qualifier_or_default": "same(result, self.g_name_qualifier if self.g_name_qualifier is not None else default)"},
        returns="val", class_fields=CF,
        assumptions=["first_non_term_qualifier(default) is the component's first qualifier that is not a well-known one, else the default (loop over qualifiers; bounded in C03.bounded)"]))
    cs.append(Contract(
        target=f"{MATCHER}::Matcher.get_variable", interface=True, variant="with_default", types={"name": "val", "tracking": "val", "set_if_none": "val"},
        ensures={"current_or_default": "same(result, self.g_current if self.g_current is not None else set_if_none)"},
        returns="val", class_fields=CF,
        assumptions=["Matcher.get_variable(name, tracking, set_if_none) is the variable's current value, or the default when there is none (CsvPath.get_variable: proved here; "
                     "a present falsy tracked value read with a default also yields the default -- at every call site under contract the default is 0 and stored values are counts)"]))
    EU = "csvpath/matching/util/expression_utility.py"
    cs.append(Contract(
        target=f"{EU}::ExpressionUtility.is_none", interface=True, variant="of_a_number", types={"v": "optnum"},
        ensures={"only_none": "result == (v is None)"}, returns="bool", class_fields=CF,
        assumptions=["ExpressionUtility.is_none(v) for v None or a (non-NaN) number is (v is None); its string cases ('None', 'nan', blank) are bounded in C03.bounded"]))
    cs.append(Contract(
        target=f"{EU}::ExpressionUtility.to_float", interface=True, variant="of_a_number", types={"v": "num"},
        ensures={"same_number": "result == v"}, returns="num", class_fields=CF,
        assumptions=["ExpressionUtility.to_float(v) of an int or float is that number (floats are reals in the encoding); string cells go through float(str): bounded in C03.bounded"]))
    cs.append(Contract(
        target=f"{MATCHER}::Matcher.get_variable", interface=True, variant="stack", types={"name": "val", "tracking": "val", "set_if_none": "val"},
        ensures={"the_stack_itself": "result is self.g_stack"}, returns="expr:self.g_stack", class_fields=CF,
        assumptions=["Matcher.get_variable(name, set_if_none=[]) of a stack variable returns the stored list object itself (abstract view g_stack), creating it empty when absent "
                     "(CsvPath.get_variable[plain]: proved for scalars; list values: bounded)"]))
    cs.append(Contract(
        target=f"{MATCHER}::Matcher.set_variable", interface=True, variant="stack", types={"name": "val", "value": "list[val]", "tracking": "val"},
        modifies=["self.g_writes", "self.g_wname", "self.g_wlist", "self.g_wtracking"],
        ensures={"logged": "self.g_writes == old(self.g_writes) + 1 and same(self.g_wname, name) and self.g_wlist == value and same(self.g_wtracking, tracking)"},
        returns="none", class_fields=CF, assumptions=["Matcher.set_variable(name, value=<list>) performs exactly one store write (write log g_wlist)"]))
    cs.append(Contract(
        target=f"{EU}::ExpressionUtility.is_empty", interface=True, types={"v": "val"},
        ensures={"fn": "result == ufun_bool('is_empty', v)"}, returns="bool", class_fields=CF,
        assumptions=["ExpressionUtility.is_empty(v) is a function of v only (None, 'None', 'nan', blank strings, empty containers: bounded in C03.bounded)"]))
    cs.append(Contract(
        target=f"{MATCHER}::Matcher.get_variable", interface=True, variant="count_with_default", types={"name": "val", "tracking": "val", "set_if_none": "int"},
        ensures={"current_or_default": "result == (self.g_current if self.g_current is not None else set_if_none)"}, returns="int", class_fields=CF,
        assumptions=["as with_default, for a variable that holds a count (an int) read with an int default"]))
    cs.append(Contract(
        target=f"{MATCHABLE}::Matchable.get_id", interface=True, types={"child": "val"},
        ensures={"stable": "result == self.g_id"}, returns="str", class_fields=CF,
        assumptions=["Matchable.get_id() is a stable per-component identifier"]))
    return cs


def leaf_contracts():
    cs = []
    macros = {**MACROS, **WROTE}
    base = dict(class_fields=CF, macros=macros, native=NATIVE, inline=INL)
    # ---- first(): first-sighting line number per value
    gate = "(not ('onmatch' in self._qualifiers) or self.g_rest_matches)"
    seen = "strip(str_of(self.children[0].g_value))"
    me = "(self.g_name_qualifier if self.g_name_qualifier is not None else self.name)"
    cs.append(Contract(
        target=f"{FN}/lines/first.py::First.to_value", variant="one_header",
        types={"skip": "none", "self.children": "fixed[obj:Matchable]", "self.name": "str", "self._qualifiers": "list[str]", "self._my_value_or_none": "val",
               "self.matcher.csvpath._line_monitor": "obj:LineMonitor", "self.matcher.csvpath._line_monitor._physical_line_number": "int"},
        requires=["self._my_value_or_none == -9999999999"],
        modifies=WMOD + ["self._my_value_or_none", "self.children.0.g_to_value_calls", "self.g_line_matches_calls"],
        ensures={"records_the_line_of_the_first_sighting_only": "implies(%s, (wrote(%s, self.matcher.csvpath._line_monitor._physical_line_number, %s)) "
                                                                "if self.matcher.g_current is None else no_write())" % (gate, me, seen),
                 "gated_by_onmatch": "implies(not %s, no_write())" % gate,
                 "value_is_the_earlier_sighting": "implies(%s, same(result, self.matcher.g_current))" % gate},
        covers={"line_zero_is_a_sighting": "same(self.matcher.g_current, 0) and no_write()"},
        returns="val", property_clauses={"records_the_line_of_the_first_sighting_only": "C03", "gated_by_onmatch": "C03"},
        doc={"records_the_line_of_the_first_sighting_only": "C03: 'the named bookkeeping of ... first ... hold exactly the values the documented semantics assign'; "
                                                            "first.md: 'captures the line number of the first time a value is seen'"}, **base))
    # ---- tally(): per-value counts
    tname = "((self.g_name_qualifier if self.g_name_qualifier is not None else 'tally') if name == '' else "\
            "(self.g_name_qualifier if self.g_name_qualifier is not None else 'tally') + '_' + name)"
    cs.append(Contract(
        target=f"{FN}/counting/tally.py::Tally._store", types={"name": "str", "value": "str", "self.matcher.g_current": "optint"},
        modifies=WMOD,
        ensures={"one_more_sighting_of_the_value": "implies(strip(value) != '', wrote(%s, (0 if self.matcher.g_current is None else self.matcher.g_current) + 1, value))" % tname,
                 "blank_values_are_not_counted": "implies(strip(value) == '', no_write())"},
        covers={"first_sighting_counts_one": "same(self.matcher.g_wvalue, 1) and self.matcher.g_current is None"},
        returns="none", callee_variants={"Matcher.get_variable": "with_default"},
        property_clauses={"one_more_sighting_of_the_value": "C03", "blank_values_are_not_counted": "C03"},
        doc={"one_more_sighting_of_the_value": "C03 'tally'; tally.md: 'tracks the number of times each value is seen'"}, **base))
    # ---- count(): bare = match count; count(x) = per-value count of x
    cs.append(Contract(
        target=f"{FN}/counting/count.py::Count.to_value", variant="bare",
        types={"skip": "none", "self._function_or_equality": "none", "self.value": "val", "self.matcher.csvpath.match_count": "int"},
        requires=["self.value is None"], modifies=["self.value"],
        ensures={"eager_match_count": "result == self.matcher.csvpath.match_count + 1 and same(self.value, result)"},
        returns="val", inline=INL + ["Count._get_match_count", "CsvPath.current_match_count"],
        property_clauses={"eager_match_count": "C03"},
        doc={"eager_match_count": "C03: 'count() ... report the corresponding 1-based ... positions on every line' -- the count of matches including the line being decided"},
        **{k: v for k, v in base.items() if k != "inline"}))
    cgate = "(not ('onmatch' in self._qualifiers) or self._function_or_equality.g_match)"
    ccur = "(0 if self.matcher.g_current is None else self.matcher.g_current)"
    cs.append(Contract(
        target=f"{FN}/counting/count.py::Count._get_contained_value",
        types={"skip": "none", "self._function_or_equality": "obj:Matchable", "self._qualifiers": "list[str]", "self.matcher.g_current": "optint", "self._id": "val"},
        modifies=WMOD + ["self._id", "self._function_or_equality.g_to_value_calls", "self._function_or_equality.g_matches_calls"],
        ensures={"one_more_of_the_contained_value": "implies(%s, wrote(self._id, %s + 1, self._function_or_equality.g_value) and result == %s + 1)" % (cgate, ccur, ccur),
                 "onmatch_counts_only_matching_values": "implies(not %s, no_write() and result == %s)" % (cgate, ccur)},
        returns="val", callee_variants={"Matcher.get_variable": "with_default", "Matchable.matches": ""},
        property_clauses={"one_more_of_the_contained_value": "C03", "onmatch_counts_only_matching_values": "C03"}, **base))
    # ---- counter(), every()
    cs.append(Contract(
        target=f"{FN}/counting/counter.py::Counter._produce_value", variant="no_argument",
        types={"skip": "none", "self.children": "fixed[]", "self.matcher.g_current": "optint", "self.value": "val"},
        modifies=WMOD + ["self.value"],
        ensures={"adds_one": "wrote(%s, %s + 1, None) and same(self.value, %s + 1)" % ("(self.g_name_qualifier if self.g_name_qualifier is not None else self.g_id)", ccur, ccur)},
        returns="none", inline=INL + ["Matchable._value_one", "Matchable._child_one"], callee_variants={"Matcher.get_variable": "with_default"},
        property_clauses={"adds_one": "C03"}, **{k: v for k, v in base.items() if k != "inline"}))
    # ---- sum(), subtotal(): running sums
    sname = "(self.g_name_qualifier if self.g_name_qualifier is not None else self.name)"
    cs.append(Contract(
        target=f"{FN}/math/sum.py::Sum._produce_value",
        types={"skip": "none", "self.children": "fixed[obj:Matchable]", "self.name": "str", "self.matcher.g_current": "optnum", "self.value": "val",
               "self.children.0.g_value": "optnum"},
        modifies=WMOD + ["self.value", "self.children.0.g_to_value_calls"],
        ensures={"running_sum": "self.matcher.g_writes == old(self.matcher.g_writes) + 1 and same(self.matcher.g_wname, %s) and self.matcher.g_wtracking is None and "
                                "self.matcher.g_wvalue == (0 if self.matcher.g_current is None else self.matcher.g_current) + "
                                "(0 if self.children[0].g_value is None else self.children[0].g_value)" % sname,
                 "value_is_the_sum_so_far": "same(self.value, self.matcher.g_wvalue)"},
        returns="none", callee_variants={"Matcher.get_variable": "with_default", "ExpressionUtility.is_none": "of_a_number", "ExpressionUtility.to_float": "of_a_number"},
        property_clauses={"running_sum": "C03"}, **base))
    # ---- stacks: push(), pop()
    top = "old(self.matcher.g_stack)[len(old(self.matcher.g_stack)) - 1]"
    cs.append(Contract(
        target=f"{FN}/variables/pushpop.py::Pop._produce_value",
        types={"skip": "none", "self.children": "fixed[obj:Matchable]", "self.value": "val", "self.matcher.g_stack": "list[val]"},
        modifies=["self.matcher.g_writes", "self.matcher.g_wname", "self.matcher.g_wlist", "self.matcher.g_wtracking", "self.value", "self.children.0.g_to_value_calls"],
        ensures={"value_is_the_top_item": "implies(len(old(self.matcher.g_stack)) > 0, same(self.value, %s))" % top,
                 "removes_exactly_the_top_item": "implies(len(old(self.matcher.g_stack)) > 0, self.matcher.g_writes == old(self.matcher.g_writes) + 1 and "
                                                 "same(self.matcher.g_wname, self.children[0].g_value) and self.matcher.g_wlist + [%s] == old(self.matcher.g_stack))" % top,
                 "empty_stack_pops_nothing": "implies(len(old(self.matcher.g_stack)) == 0, self.matcher.g_writes == old(self.matcher.g_writes) and same(self.value, old(self.value)))"},
        covers={"two_items_leave_one": "len(old(self.matcher.g_stack)) == 2 and len(self.matcher.g_wlist) == 1"},
        returns="none", callee_variants={"Matcher.get_variable": "stack", "Matcher.set_variable": "stack"},
        property_clauses={"value_is_the_top_item": "C03", "removes_exactly_the_top_item": "C03", "empty_stack_pops_nothing": "C03"},
        doc={"removes_exactly_the_top_item": "C03: 'the named bookkeeping of ... push/pop'; pop.md: 'removes and returns the top item of the stack'"},
        **{**base, "native": NATIVE_STACK}))
    pv = "self.children[0].children[1].g_value"
    blocked = "(((\'distinct\' in self._qualifiers) or self.name == \'push_distinct\') and %s in old(self.matcher.g_stack)) or ((\'notnone\' in self._qualifiers) and ufun_bool(\'is_empty\', %s))" % (pv, pv)
    blocked = blocked.replace("\\'", "'")
    cs.append(Contract(
        target=f"{FN}/variables/pushpop.py::Push._decide_match",
        types={"skip": "none", "self.children": "fixed[obj:Equality]", "self.children.0.children": "fixed[obj:Matchable,obj:Matchable]", "self.name": "str",
               "self._qualifiers": "list[str]", "self.matcher.g_stack": "list[val]", "self.children.0.children.1.g_value": "scalar"},
        modifies=["self.match", "self.matcher.g_stack", "self.children.0.children.0.g_to_value_calls", "self.children.0.children.1.g_to_value_calls"],
        ensures={"appends_the_value_unless_distinct_or_notnone_blocks": "self.matcher.g_stack == (old(self.matcher.g_stack) if (%s) else old(self.matcher.g_stack) + [%s])" % (blocked, pv),
                 "votes_default": "self.match == self.matcher._AND"},
        covers={"pushes_zero": "same(%s, 0) and len(self.matcher.g_stack) == len(old(self.matcher.g_stack)) + 1" % pv,
                "distinct_skips_a_repeat": "'distinct' in self._qualifiers and len(old(self.matcher.g_stack)) == 1 and len(self.matcher.g_stack) == 1"},
        returns="none", inline=INL + ["Equality.left", "Equality.right"], callee_variants={"Matcher.get_variable": "stack"},
        property_clauses={"appends_the_value_unless_distinct_or_notnone_blocks": "C03"}, **{k: v for k, v in {**base, "native": NATIVE_STACK}.items() if k != "inline"}))
    # ---- subtotal(): running sum per tracking value
    pairt = {"skip": "none", "self.children": "fixed[obj:Equality]", "self.children.0.children": "fixed[obj:Matchable,obj:Matchable]", "self.name": "str", "self.value": "val",
             "self.matcher.g_current": "optnum", "self.children.0.children.1.g_value": "num"}
    tv, cv = "self.children[0].children[0].g_value", "self.children[0].children[1].g_value"
    cs.append(Contract(
        target=f"{FN}/math/subtotal.py::Subtotal._produce_value", types=pairt,
        modifies=WMOD + ["self.value", "self.children.0.children.0.g_to_value_calls", "self.children.0.children.1.g_to_value_calls"],
        ensures={"running_sum_per_category": "self.matcher.g_writes == old(self.matcher.g_writes) + 1 and same(self.matcher.g_wname, %s) and same(self.matcher.g_wtracking, %s) and "
                                             "self.matcher.g_wvalue == (0 if self.matcher.g_current is None else self.matcher.g_current) + %s" % (sname, tv, cv),
                 "value_is_the_subtotal_so_far": "same(self.value, self.matcher.g_wvalue)"},
        returns="none", inline=INL + ["Matchable._value_one", "Matchable._value_two", "Matchable._child_one", "Matchable._child_two", "Equality.left", "Equality.right"],
        callee_variants={"Matcher.get_variable": "with_default", "ExpressionUtility.to_float": "of_a_number"},
        property_clauses={"running_sum_per_category": "C03"}, **{k: v for k, v in base.items() if k != "inline"}))
    # ---- every(): per-value modulo counter
    cs.append(Contract(target="csvpath/matching/util/expression_utility.py::ExpressionUtility.to_int", interface=True, variant="of_an_int", types={"v": "int", "should_i_raise": "val"},
                       ensures={"same": "result == v"}, returns="int", class_fields=CF, assumptions=["ExpressionUtility.to_int of an int is that int (string cells: bounded)"]))
    me_ = "(self.qualifier if self.qualifier is not None else self.g_id)"
    cs.append(Contract(
        target=f"{FN}/counting/every.py::Every._produce_value",
        types={"skip": "none", "self.children": "fixed[obj:Equality]", "self.children.0.children": "fixed[obj:Matchable,obj:Matchable]", "self.value": "val", "self.qualifier": "optstr",
               "self.matcher.g_current": "optint", "self.children.0.children.1.g_value": "int"},
        requires=["self.children[0].children[1].g_value > 0", "self.matcher.g_current is None or self.matcher.g_current >= 0"],
        modifies=WMOD + ["self.value", "self.children.0.children.0.g_to_value_calls", "self.children.0.children.1.g_to_value_calls"],
        ensures={"counts_one_more_sighting_of_the_value": "wrote(%s, %s + 1, self.children[0].children[0].g_value)" % (me_, ccur),
                 "value_is_the_count_modulo_n": "self.value == (%s + 1) %% self.children[0].children[1].g_value" % ccur},
        returns="none", inline=INL + ["Equality.left", "Equality.right", "Every.me"],
        callee_variants={"Matcher.get_variable": "count_with_default", "ExpressionUtility.to_int": "of_an_int"},
        property_clauses={"counts_one_more_sighting_of_the_value": "C03", "value_is_the_count_modulo_n": "C03,C01"}, **{k: v for k, v in base.items() if k != "inline"}))
    # ---- positions: count_lines(), line_number(), count_scans()
    pos = dict(types={"skip": "none", "self.matcher.csvpath._line_monitor": "obj:LineMonitor", "self.value": "val"}, modifies=["self.value"], returns="none")
    cs.append(Contract(target=f"{FN}/counting/count_lines.py::CountLines._produce_value",
                       ensures={"is_the_data_line_count": "same(self.value, self.matcher.csvpath._line_monitor._data_line_count)"},
                       inline=INL + ["LineMonitor.data_line_count"], property_clauses={"is_the_data_line_count": "C03"}, **pos, **{k: v for k, v in base.items() if k != "inline"}))
    cs.append(Contract(target=f"{FN}/counting/count_lines.py::LineNumber._produce_value",
                       ensures={"is_the_physical_line_number": "same(self.value, self.matcher.csvpath._line_monitor._physical_line_number)"},
                       property_clauses={"is_the_physical_line_number": "C03"}, **pos, **base))
    cs.append(Contract(target=f"{FN}/counting/total_lines.py::TotalLines._produce_value",
                       ensures={"is_the_number_of_data_lines_in_the_file": "same(self.value, self.matcher.csvpath._line_monitor._data_end_line_count)"},
                       inline=INL + ["LineMonitor.data_end_line_count"], property_clauses={"is_the_number_of_data_lines_in_the_file": "C03"}, **pos,
                       **{k: v for k, v in base.items() if k != "inline"}))
    cs.append(Contract(target=f"{FN}/counting/count_headers.py::CountHeaders._produce_value",
                       types={"skip": "none", "self.value": "val", "self.name": "str", "self.matcher.csvpath._headers": "list[str]", "self.matcher._line": "list[str]"},
                       modifies=["self.value"], returns="none",
                       ensures={"count_headers_is_the_number_of_headers": "implies(self.name == 'count_headers', self.value == len(self.matcher.csvpath._headers))",
                                "count_headers_in_line_is_the_number_of_cells_of_the_current_line": "implies(self.name == 'count_headers_in_line', self.value == len(self.matcher._line))"},
                       inline=INL + ["CsvPath.headers", "Matcher.line"],
                       property_clauses={"count_headers_is_the_number_of_headers": "C03", "count_headers_in_line_is_the_number_of_cells_of_the_current_line": "C03"},
                       **{k: v for k, v in base.items() if k != "inline"}))
    cs.append(Contract(target=f"{FN}/counting/count_scans.py::CountScans._produce_value",
                       types={"skip": "none", "self.value": "val"}, modifies=["self.value"], returns="none",
                       ensures={"is_the_scan_count": "same(self.value, self.matcher.csvpath.scan_count)"},
                       inline=INL + ["CsvPath.current_scan_count"], property_clauses={"is_the_scan_count": "C03"}, **{k: v for k, v in base.items() if k != "inline"}))
    return cs


def delegation_contracts():
    """Matcher.get_variable / set_variable are the [A] interface the leaf functions see; their bodies hand the call to CsvPath's store functions unchanged"""
    cs = []
    CF["CsvPath"].update({"g_sv_calls": "int", "g_sv_name": "val", "g_sv_value": "val", "g_sv_tracking": "val", "g_gv_calls": "int", "g_gv_name": "val", "g_gv_tracking": "val",
                          "g_gv_default": "val", "g_gv_result": "val"})
    cs.append(Contract(target=f"{CP}::CsvPath.set_variable", interface=True, variant="logged", types={"name": "val", "value": "val", "tracking": "val"},
                       modifies=["self.g_sv_calls", "self.g_sv_name", "self.g_sv_value", "self.g_sv_tracking"],
                       ensures={"logged": "self.g_sv_calls == old(self.g_sv_calls) + 1 and same(self.g_sv_name, name) and same(self.g_sv_value, value) and same(self.g_sv_tracking, tracking)"},
                       returns="none", class_fields=CF, assumptions=["CsvPath.set_variable is under its own contracts in this module (plain / tracked_existing / tracked_new)"]))
    cs.append(Contract(target=f"{CP}::CsvPath.get_variable", interface=True, variant="logged", types={"name": "val", "tracking": "val", "set_if_none": "val"},
                       modifies=["self.g_gv_calls", "self.g_gv_name", "self.g_gv_tracking", "self.g_gv_default"],
                       ensures={"logged": "self.g_gv_calls == old(self.g_gv_calls) + 1 and same(self.g_gv_name, name) and same(self.g_gv_tracking, tracking) and "
                                          "same(self.g_gv_default, set_if_none) and same(result, self.g_gv_result)"},
                       returns="val", class_fields=CF, assumptions=["CsvPath.get_variable is under its own contracts in this module (plain / tracked_existing)"]))
    cs.append(Contract(
        target=f"{MATCHER}::Matcher.set_variable", variant="body", types={"name": "val", "value": "val", "tracking": "val"},
        modifies=["self.csvpath.g_sv_calls", "self.csvpath.g_sv_name", "self.csvpath.g_sv_value", "self.csvpath.g_sv_tracking"],
        ensures={"exactly_one_store_write_with_the_same_arguments": "self.csvpath.g_sv_calls == old(self.csvpath.g_sv_calls) + 1 and same(self.csvpath.g_sv_name, name) and "
                                                                    "same(self.csvpath.g_sv_value, value) and same(self.csvpath.g_sv_tracking, tracking)"},
        callee_variants={"CsvPath.set_variable": "logged"}, class_fields=CF, macros=MACROS, returns="none", native={"skip": True},
        property_clauses={"exactly_one_store_write_with_the_same_arguments": "C03"}))
    cs.append(Contract(
        target=f"{MATCHER}::Matcher.get_variable", variant="body", types={"name": "val", "tracking": "val", "set_if_none": "val"},
        modifies=["self.csvpath.g_gv_calls", "self.csvpath.g_gv_name", "self.csvpath.g_gv_tracking", "self.csvpath.g_gv_default"],
        ensures={"reads_the_store_with_the_same_arguments": "self.csvpath.g_gv_calls >= old(self.csvpath.g_gv_calls) + 1 and same(self.csvpath.g_gv_name, name) and "
                                                                   "same(self.csvpath.g_gv_tracking, tracking) and same(self.csvpath.g_gv_default, set_if_none)",
                 "returns_what_the_store_returns": "same(result, self.csvpath.g_gv_result)"},
        callee_variants={"CsvPath.get_variable": "logged"}, class_fields=CF, macros=MACROS, returns="val", native={"skip": True},
        property_clauses={"reads_the_store_with_the_same_arguments": "C03", "returns_what_the_store_returns": "C03"}))
    return cs


def contracts():
    extra = core.select(core.contracts(), ("CsvPath._consider_line", "LineMonitor.next_line", "CsvPath.raise_match_count_if"))
    return store_contracts() + interfaces() + leaf_contracts() + delegation_contracts() + extra


def bounded(tier, seed):
    return [{"name": "C03.bounded", "script": "native/bounded_C03.py", "timeout": 3000,
             "scope": "120 (thorough 2500) generated files of 1..7 four-cell records with blank records anywhere (first, last), repeated values, empty and numeric cells, "
                      "x scans {*, 1*, 2-4, 0+2+3} x 5 program families (positions, aggregates, onmatch bookkeeping, same-line dependent assignments, stacks) "
                      "against a reference fold written from the statement and the docs; end-of-run variables, per-line printouts, scan_count/match_count"}]


LEVEL = "other"
EXPLANATION = ("Proved for all inputs: CsvPath.set_variable / get_variable write and read exactly the addressed variable or tracking value and leave every other entry of the "
               "store untouched (frame over the whole store; frozen run changes nothing; 0 and None are values); raise_match_count_if raises the match count at most once per line, "
               "_consider_line counts exactly the offered lines and one match per matching line, LineMonitor.next_line keeps the 0-based/1-based counters; the leaf "
               "bookkeeping functions (first, tally, count, counter, sum, push, pop, count_lines, line_number, count_scans) perform exactly the documented read-modify-write "
               "against the abstract store (write log). Bounded (not proved): the end-to-end fold over generated programs and files.")
