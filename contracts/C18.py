"""C18 -- a run that aborts still leaves a truthful, readable record."""
from . import core, shared, managers, C05
USES = ["shared"]


def contracts():
    c05 = core.select(C05.contracts(), ("ErrorHandler._handle_if",))
    return c05


def bounded(tier, seed):
    return [{"name": "C18.bounded", "script": "native/bounded_C18.py",
             "scope": "every (member, line) abort point in groups of 1 and 3 (thorough 1..4) csvpaths over a 5-line (thorough also 8-line) file x the six run "
                      "methods, each followed by one further run on the same CsvPaths instance"}]


LEVEL = "other"
EXPLANATION = ("Proved: ErrorHandler._handle_if collects the error before it raises (exceptional-exit clauses *_before_raise), for all policies. "
               "Bounded: all abort points of the stated grid are run on the real CsvPaths and the archive is read back. The exception paths of the "
               "six run methods are not yet under contract.")
