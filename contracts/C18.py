"""C18 -- a run that aborts still leaves a truthful, readable record."""
from . import core, shared, managers, control, C05
USES = ["shared"]


from pyvc.contract import Contract
from .core import CF, MACROS

CPS = "csvpath/csvpaths.py"
RM = "csvpath/managers/results/results_manager.py"
CF["ResultsManager"].update({"g_started": "int", "g_saves": "int", "g_completed": "int", "g_added": "int"}) if "ResultsManager" in CF else CF.__setitem__(
    "ResultsManager", {"g_started": "int", "g_saves": "int", "g_completed": "int", "g_added": "int"})
CF["CsvPaths"].update({"_current_run_time": "val", "_run_time_str": "optstr", "results_manager": "obj:ResultsManager"})
MAY_RAISE = {"Exception": {"when": "True", "exact": False}}


def run_interfaces():
    cs = []

    def iface(target, types, ensures=None, modifies=None, returns="none", raises=None, why=""):
        cs.append(Contract(target=target, interface=True, types=types, ensures=ensures or {}, modifies=modifies or [], returns=returns, raises=raises or {},
                           class_fields=CF, assumptions=[why]))
    iface("csvpath/managers/paths/paths_manager.py::PathsManager.get_named_paths", {"name": "val"}, returns="list[str]",
          why="PathsManager.get_named_paths returns the group's csvpaths (C12)")
    iface("csvpath/managers/files/file_manager.py::FileManager.get_named_file", {"name": "val"}, returns="str", why="FileManager.get_named_file returns the stored file's path (C11)")
    iface(f"{CPS}::CsvPaths.clean", {"paths": "val"}, why="CsvPaths.clean forgets the in-memory results of the named paths")
    iface(f"{CPS}::CsvPaths.run_time_str", {"pathsname": "val"}, returns="str", modifies=["self._run_time_str", "self._current_run_time"],
          ensures={"remembered": "self._run_time_str is not None"}, why="CsvPaths.run_time_str fixes the run directory name for the run (C10)")
    iface(f"{CPS}::CsvPaths.current_run_time", {}, returns="val", why="CsvPaths.current_run_time is the run's start time")
    iface(f"{CPS}::CsvPaths.csvpath", {}, returns="obj:CsvPath", why="CsvPaths.csvpath() creates a fresh CsvPath")
    iface(f"{CPS}::CsvPaths._load_csvpath", {"csvpath": "obj:CsvPath", "path": "val", "file": "val", "pathsname": "val", "filename": "val", "by_line": "val"}, raises=MAY_RAISE,
          why="_load_csvpath parses the csvpath and may raise (bad csvpath, source-mode errors): C20")
    iface("csvpath/csvpath.py::CsvPath.collect", {"csvpath": "val", "nexts": "val", "lines": "val"}, raises=MAY_RAISE, returns="val",
          why="CsvPath.collect runs the csvpath and may raise when the error policy says raise (C05/C07)")
    iface("csvpath/csvpath.py::CsvPath.fast_forward", {"csvpath": "val"}, raises=MAY_RAISE, returns="val", why="CsvPath.fast_forward may raise (C05/C07)")
    iface(f"{RM}::ResultsManager.start_run", {"run_dir": "val", "pathsname": "val", "filename": "val"}, modifies=["self.g_started"],
          ensures={"counted": "self.g_started == old(self.g_started) + 1"}, why="ResultsManager.start_run registers the run start (C09)")
    iface(f"{RM}::ResultsManager.complete_run", {"run_dir": "val", "pathsname": "val", "results": "val"}, modifies=["self.g_completed"],
          ensures={"counted": "self.g_completed == old(self.g_completed) + 1"}, why="ResultsManager.complete_run writes the run manifest (C09)")
    iface(f"{RM}::ResultsManager.add_named_result", {"result": "val"}, modifies=["self.g_added"], ensures={"counted": "self.g_added == old(self.g_added) + 1"},
          why="ResultsManager.add_named_result keeps the result in memory")
    iface(f"{RM}::ResultsManager.save", {"result": "val"}, modifies=["self.g_saves"], ensures={"counted": "self.g_saves == old(self.g_saves) + 1"},
          why="ResultsManager.save serialises one member's result (C09)")
    iface("csvpath/util/error.py::ErrorHandler.handle_error", {"ex": "val"}, raises=MAY_RAISE, why="ErrorHandler.handle_error applies the error policy and raises when it says raise (C05)")
    iface("csvpath/managers/results/result.py::Result.lines", {}, returns="val", why="Result.lines is the member's line spooler")
    iface("csvpath/csvpath.py::CsvPath.unmatched", {}, returns="val", why="CsvPath.unmatched is the list of unmatched lines")
    return cs


def run_contracts():
    cs = []
    rm = "self.results_manager"
    for meth in ("collect_paths", "fast_forward_paths"):
        cs.append(Contract(
            target=f"{CPS}::CsvPaths.{meth}",
            types={"pathsname": "str", "filename": "str", "self.results_manager": "obj:ResultsManager", "self.paths_manager": "obj:PathsManager", "self.file_manager": "obj:FileManager"},
            modifies=[f"{rm}.g_started", f"{rm}.g_saves", f"{rm}.g_completed", f"{rm}.g_added", "self._run_time_str", "self._current_run_time",
                      "self._stop_all", "self._fail_all", "self._skip_all", "self._advance_all"],
            raises=MAY_RAISE,
            ensures={"every_member_is_saved_and_the_run_is_completed_once": f"{rm}.g_completed == old({rm}.g_completed) + 1 and {rm}.g_started == old({rm}.g_started) + 1",
                     "a_finished_run_forgets_its_run_directory": "self._run_time_str is None and self._current_run_time is None"},
            ensures_exc={"an_aborted_run_is_not_completed": f"{rm}.g_completed == old({rm}.g_completed)",
                         "the_aborting_member_is_saved_before_the_exception_leaves": f"implies({rm}.g_started == old({rm}.g_started) + 1, {rm}.g_saves >= old({rm}.g_saves) + 1)",
                         "an_aborted_run_forgets_its_run_directory_too": f"implies({rm}.g_started == old({rm}.g_started) + 1, self._run_time_str is None and self._current_run_time is None)"},
            invariants={0: [f"{rm}.g_saves == old({rm}.g_saves) + _i0", f"{rm}.g_completed == old({rm}.g_completed)", f"{rm}.g_started == old({rm}.g_started) + 1"]},
            loop_havoc={0: [f"{rm}.g_saves", f"{rm}.g_added"]},
            stub_new=["Result", "ErrorHandler"], list_literals={"results": "list[val]"}, class_fields=CF, macros=MACROS, returns="none", native={"skip": True},
            property_clauses={"every_member_is_saved_and_the_run_is_completed_once": "C18,C09", "a_finished_run_forgets_its_run_directory": "C10",
                              "an_aborted_run_is_not_completed": "C18", "the_aborting_member_is_saved_before_the_exception_leaves": "C18",
                              "an_aborted_run_forgets_its_run_directory_too": "C18,C10"},
            doc={"the_aborting_member_is_saved_before_the_exception_leaves": "C18: 'a run that aborts still leaves a ... record': the member being run when the exception leaves has been saved",
                 "an_aborted_run_forgets_its_run_directory_too": "C18: 'a subsequent run on the same instance archives normally'; C10: into its own run directory"}))
    CF["CsvPaths"].update({"g_yielded": "list[val]"})
    CF["Result"] = {**CF.get("Result", {}), "g_appended": "int"}
    cs.append(Contract(target="csvpath/csvpath.py::CsvPath.next", interface=True, variant="as_a_list", types={}, raises=MAY_RAISE, returns="list[val]", class_fields=CF,
                       assumptions=["CsvPath.next() yields the matching lines (C01/C07); here it is the list of those lines; an exception raised part-way through the iteration is "
                                    "modelled as raised before the first line (the handler does not depend on how many lines were yielded)"]))
    cs.append(Contract(target="csvpath/managers/results/result.py::Result.append", interface=True, types={"line": "val"}, modifies=["self.g_appended"],
                       ensures={"counted": "self.g_appended == old(self.g_appended) + 1"}, returns="none", class_fields=CF, assumptions=["Result.append keeps one line"]))
    cs.append(Contract(
        target=f"{CPS}::CsvPaths.next_paths",
        types={"pathsname": "str", "filename": "str", "collect": "bool", "self.results_manager": "obj:ResultsManager", "self.paths_manager": "obj:PathsManager",
               "self.file_manager": "obj:FileManager", "self.g_yielded": "list[val]"},
        modifies=[f"{rm}.g_started", f"{rm}.g_saves", f"{rm}.g_completed", f"{rm}.g_added", "self._run_time_str", "self._current_run_time",
                  "self._stop_all", "self._fail_all", "self._skip_all", "self._advance_all", "self.g_yielded"],
        raises=MAY_RAISE,
        ensures={"the_run_is_completed_once": f"{rm}.g_completed == old({rm}.g_completed) + 1 and {rm}.g_started == old({rm}.g_started) + 1",
                 "a_finished_run_forgets_its_run_directory": "self._run_time_str is None and self._current_run_time is None"},
        ensures_exc={"an_aborted_run_is_not_completed": f"{rm}.g_completed == old({rm}.g_completed)",
                     "the_aborting_member_is_saved_before_the_exception_leaves": f"implies({rm}.g_started == old({rm}.g_started) + 1, {rm}.g_saves >= old({rm}.g_saves) + 1)",
                     "an_aborted_run_forgets_its_run_directory_too": f"implies({rm}.g_started == old({rm}.g_started) + 1, self._run_time_str is None and self._current_run_time is None)"},
        invariants={0: [f"{rm}.g_saves == old({rm}.g_saves) + _i0", f"{rm}.g_completed == old({rm}.g_completed)", f"{rm}.g_started == old({rm}.g_started) + 1"],
                    1: [f"{rm}.g_saves == old({rm}.g_saves) + _i0", f"{rm}.g_completed == old({rm}.g_completed)", f"{rm}.g_started == old({rm}.g_started) + 1"]},
        loop_havoc={0: [f"{rm}.g_saves", f"{rm}.g_added", "self.g_yielded"], 1: ["self.g_yielded", "result._unmatched", "result.g_appended"]},
        yield_to="self.g_yielded", callee_variants={"CsvPath.next": "as_a_list"},
        stub_new=["Result", "ErrorHandler"], list_literals={"results": "list[val]"}, class_fields=CF, macros=MACROS, returns="none", native={"skip": True},
        inline=["CsvPath.is_valid.setter"],
        property_clauses={"the_run_is_completed_once": "C18,C09", "a_finished_run_forgets_its_run_directory": "C10", "an_aborted_run_is_not_completed": "C18",
                          "the_aborting_member_is_saved_before_the_exception_leaves": "C18", "an_aborted_run_forgets_its_run_directory_too": "C18,C10"}))
    return cs


def build_contract():
    ERR = "csvpath/util/error.py"
    cf = {**CF, "ErrorHandler": {**CF.get("ErrorHandler", {}), "_csvpath": "obj:CsvPath"},
          "Scanner": {**CF.get("Scanner", {}), "filename": "optstr"}}
    return [Contract(
        target=f"{ERR}::ErrorHandler.build",
        types={"ex": "obj", "ex.json": "val", "ex.datum": "val", "ex.message": "val", "ex.trace": "val", "ex.source": "val", "self._csvpath": "obj:CsvPath", "self._csvpath._line_monitor": "obj:LineMonitor", "self._csvpath._line_monitor._physical_line_number": "int",
               "self._csvpath.scanner": "obj:Scanner", "self._csvpath.match": "val"},
        requires=["self._csvpath._line_monitor._physical_line_number >= 0"],
        ensures={"the_record_carries_the_line_it_happened_on": "result.line_count == self._csvpath._line_monitor._physical_line_number",
                 "and_the_counters_of_that_moment": "result.match_count == self._csvpath.match_count and result.scan_count == self._csvpath.scan_count",
                 "and_the_exception_itself": "result.error is ex"},
        covers={"an_error_on_line_zero_is_on_line_zero": "result.line_count == 0"},
        inline=["Error.__init__", "CsvPath.line_monitor", "LineMonitor.physical_line_number"],
        class_fields=cf, macros=MACROS, returns="obj:Error", native={"skip": True},
        property_clauses={"the_record_carries_the_line_it_happened_on": "C18,C05", "and_the_counters_of_that_moment": "C18", "and_the_exception_itself": "C18"},
        doc={"the_record_carries_the_line_it_happened_on": "C18: 'errors.json ... holds the aborting error with its line'; C05: 'an error record (with line number) is collected'"})]


def contracts():
    c05 = core.select(C05.error_contracts(), ("ErrorHandler._handle_if",))
    from . import C10
    crc = [c for c in C10.contracts() if c.target.endswith("CsvPaths.clear_run_coordination")]
    return c05 + run_interfaces() + run_contracts() + crc + build_contract()


def bounded(tier, seed):
    return [{"name": "C18.bounded", "script": "native/bounded_C18.py",
             "scope": "every (member, line) abort point in groups of 1 and 3 (thorough 1..4) csvpaths over a 5-line (thorough also 8-line) file x the six run "
                      "methods, each followed by one further run on the same CsvPaths instance"}]


LEVEL = "other"
EXPLANATION = ("Proved, for all groups, all abort points and all error policies: collect_paths, fast_forward_paths and next_paths save the member being run before an exception "
               "leaves them, do not complete the run (no run manifest completion), and clear the run coordination so that the next run on the same instance gets its own run "
               "directory; a run that finishes saves every member, completes once and clears the coordination (loop invariant over the members). ErrorHandler._handle_if collects "
               "the error before it raises. Bounded (not proved): every abort point of the stated grid on the real CsvPaths, the archive read back -- this is also the only "
               "evidence for next_by_line (breadth-first), whose body is outside the contracts. One known finding (abort on the last line says completed).")
