"""C13 -- stop, skip, advance and last control the run as documented."""
from . import core, shared, control
USES = ["shared"]


def contracts():
    return core.contracts() + control.contracts()


LEVEL = "proof"
EXPLANATION = ("Matcher.matches is proved against control clauses written from the property (no component after a halt, skip means "
               "no match and does not outlive the line, stop mid-line means no match, stop as final component keeps the fold) with "
               "match components as [A] interface objects that may fire stop/skip/fail; CsvPath.next, _consider_line, Stop/Skip/Advance/Last "
               "are proved against their own clauses.")
