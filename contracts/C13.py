"""C13 -- stop, skip, advance and last control the run as documented."""
from . import core, shared, control
USES = ["shared"]


def contracts():
    return core.contracts() + control.contracts()



def bounded(tier, seed):
    return [{"name": "C13.bounded", "script": "native/bounded_C13.py", "timeout": 3000,
             "scope": "1..2 (thorough 3) always-matching marker components with one control component (stop(cond) / skip(cond) at every firing line, advance(1|2), "
                      "last.nocontrib() -> push in last position) at every position, files of 1..6 one-cell records with no / an interior / a trailing blank record, scans *, 1*, 1-3"}]

LEVEL = "proof"
EXPLANATION = ("Matcher.matches is proved against control clauses written from the property (no component after a halt, skip means "
               "no match and does not outlive the line, stop mid-line means no match, stop as final component keeps the fold) with "
               "match components as [A] interface objects that may fire stop/skip/fail; CsvPath.next, _consider_line, Stop/Skip/Advance/Last "
               "are proved against their own clauses.")
