"""C17 -- what runs is what was written: the transformer and the name/qualifier splitter are faithful to the source text."""
from pyvc.contract import Contract
from . import core, shared
from .core import CF, MACROS
USES = ["shared"]

EU = "csvpath/matching/util/expression_utility.py"
LT = "csvpath/matching/lark_transformer.py"
QUAL = "csvpath/matching/productions/qualified.py"
MATCHABLE = "csvpath/matching/productions/matchable.py"
PROD = "csvpath/matching/productions"

NATIVE = {}
CF["Matchable"].update({"qualified_name": "optstr", "qualifier": "optstr", "parent": "val", "children": "list[val]", "_id": "val"})
CF["Equality"].update({"op": "optstr", "DO_WHEN": "val", "sentinel": "bool"})
CF["Expression"].update({"errors": "list[val]"})
CF["Qualified"].update({"name": "optstr", "qualified_name": "optstr", "qualifier": "optstr", "_qualifiers": "list[str]"})


def contracts():
    cs = []
    # ---- names and qualifiers: "name.q1.q2" reassembles
    cs.append(Contract(
        target=f"{EU}::ExpressionUtility._next_qual",
        types={"quals": "list[str]", "name": "str"}, modifies=["quals"],
        ensures={"appends_the_dot_separated_parts_in_order": "quals == old(quals) + split_dot(old(name))"},
        covers={"more_than_one_part": "'.' in old(name) and len(old(quals)) == 1", "one_part": "'.' not in old(name)"},
        native={"examples": [{"quals": [], "name": "abc.d.e"}, {"quals": ["x"], "name": "a.bb.ccc.d"}, {"quals": [], "name": "onmatch"}, {"quals": [], "name": "a..b."}]},
        class_fields=CF, macros=MACROS, returns="none",
        property_clauses={"appends_the_dot_separated_parts_in_order": "C17"},
        doc={"appends_the_dot_separated_parts_in_order": "C17: 'that tree has the same ... names, qualifiers ... as the source' -- every dot-separated part, in order, none lost"}))
    cs.append(Contract(
        target=f"{EU}::ExpressionUtility.get_name_and_qualifiers", variant="unquoted",
        types={"name": "str"}, requires=["'\"' not in name"],
        ensures={"name_is_the_part_before_the_first_dot": "result[0] == (name if '.' not in name else name[0:name.find('.')])",
                 "qualifiers_are_the_remaining_parts_in_order": "result[1] == (split_dot(name[name.find('.') + 1:]) if '.' in name else [])"},
        raises={"ValueError": {"when": "strip(name if '.' not in name else name[0:name.find('.')]) == ''", "exact": True}},
        covers={"qualified": "'.' in name and result[0] == 'count'", "bare": "result[0] == name"},
        list_literals={"quals": "list[str]"}, native={"examples": [{"name": "count.onmatch.abc.d"}, {"name": "tally.abc.de.f"}, {"name": "x"}]}, class_fields=CF, macros=MACROS, returns="tuple[str,list[str]]",
        property_clauses={"name_is_the_part_before_the_first_dot": "C17", "qualifiers_are_the_remaining_parts_in_order": "C17"}))
    first = "(name if '.' not in name else name[0:name.find('.')])"
    rest = "(split_dot(name[name.find('.') + 1:]) if '.' in name else [])"
    cs.append(Contract(
        target=f"{QUAL}::Qualified.__init__", variant="unquoted_name",
        types={"name": "str"}, requires=["'\"' not in name"],
        modifies=["self.name", "self.qualified_name", "self.qualifier", "self._qualifiers"],
        ensures={"name_is_the_part_before_the_first_dot": f"self.name == {first}",
                 "qualifiers_are_the_remaining_parts_in_order": f"self._qualifiers == {rest}",
                 "keeps_the_written_name": "self.qualified_name == name"},
        raises={"ValueError": {"when": f"strip({first}) == ''", "exact": True}},
        inline=["Qualified.qualifiers.setter"], class_fields=CF, macros=MACROS, returns="none", native=NATIVE,
        property_clauses={"name_is_the_part_before_the_first_dot": "C17", "qualifiers_are_the_remaining_parts_in_order": "C17"}))
    noq = "'\"' not in name"
    init_mod = ["self.name", "self.qualified_name", "self.qualifier", "self._qualifiers", "self.parent", "self.children", "self.matcher", "self.value", "self.match", "self._id"]
    named = {"name_is_the_part_before_the_first_dot": f"self.name == {first}",
             "qualifiers_are_the_remaining_parts_in_order": f"self._qualifiers == {rest}"}
    cs.append(Contract(
        target=f"{MATCHABLE}::Matchable.__init__", variant="named",
        types={"matcher": "obj:Matcher", "value": "val", "name": "str"}, requires=[noq], modifies=init_mod,
        ensures={**named, "holds_the_value_given": "same(self.value, value)", "starts_without_children": "len(self.children) == 0",
                 "belongs_to_the_matcher": "self.matcher is matcher", "no_parent_yet": "self.parent is None"},
        raises={"ValueError": {"when": f"strip({first}) == ''", "exact": True}},
        callee_variants={"Qualified.__init__": "unquoted_name"}, class_fields=CF, macros=MACROS, returns="none", native=NATIVE,
        property_clauses={k: "C17" for k in list(named) + ["holds_the_value_given"]}))
    cs.append(Contract(
        target=f"{QUAL}::Qualified.__init__", variant="unnamed",
        types={"name": "none"}, modifies=["self.name", "self.qualified_name", "self.qualifier", "self._qualifiers"],
        ensures={"no_name": "self.name is None", "no_qualifiers": "len(self._qualifiers) == 0"},
        class_fields=CF, macros=MACROS, returns="none", native=NATIVE))
    cs.append(Contract(
        target=f"{MATCHABLE}::Matchable.__init__", variant="unnamed",
        types={"matcher": "obj:Matcher", "value": "val", "name": "none"}, modifies=init_mod,
        ensures={"holds_the_value_given": "same(self.value, value)", "starts_without_children": "len(self.children) == 0", "no_name": "self.name is None",
                 "belongs_to_the_matcher": "self.matcher is matcher", "no_parent_yet": "self.parent is None"},
        callee_variants={"Qualified.__init__": "unnamed"},
        class_fields=CF, macros=MACROS, returns="none", native=NATIVE, property_clauses={"holds_the_value_given": "C17"}))
    for cls, fn in (("Variable", "variable.py"), ("Header", "header.py")):
        cs.append(Contract(
            target=f"{PROD}/{fn}::{cls}.__init__", variant="named",
            types={"matcher": "obj:Matcher", "value": "val", "name": "str"}, requires=[noq] + (["name == strip(name)"] if cls == "Header" else []), modifies=init_mod,
            ensures={**named, "belongs_to_the_matcher": "self.matcher is matcher", "starts_without_children": "len(self.children) == 0"},
            raises={"ValueError": {"when": f"strip({first}) == ''", "exact": True}},
            inline=["Qualified.qualifiers.setter"], callee_variants={"Matchable.__init__": "named"}, class_fields=CF, macros=MACROS, returns="none", native=NATIVE,
            property_clauses={k: "C17" for k in named}))
    for variant, vtyp, req in (("string_literal", "str", ["'\"' not in value"]), ("number_literal", "num", [])):
        cs.append(Contract(
            target=f"{PROD}/term.py::Term.__init__", variant=variant,
            types={"matcher": "obj:Matcher", "value": vtyp, "name": "none"}, requires=req, modifies=init_mod,
            ensures={"holds_the_literal_as_written": "same(self.value, value)", "belongs_to_the_matcher": "self.matcher is matcher", "no_name": "self.name is None"},
            callee_variants={"Matchable.__init__": "unnamed"}, class_fields=CF, macros=MACROS, returns="none", native=NATIVE,
            property_clauses={"holds_the_literal_as_written": "C17"}))
    # ---- the transformer's token callbacks: literal values and names as written
    tok = {"token": "obj", "token.value": "str", "self.matcher": "obj:Matcher"}
    cs.append(Contract(
        target=f"{LT}::LarkTransformer.STRING", types=tok,
        requires=["len(token.value) >= 2", "token.value[0] == '\"'", "token.value[len(token.value) - 1] == '\"'", "'\"' not in token.value[1:len(token.value) - 1]"],
        ensures={"the_text_between_the_quotes": "result.value == token.value[1:len(token.value) - 1]", "is_a_term": "isinstance(result, Term)",
                 "belongs_to_the_matcher": "result.matcher is self.matcher"},
        covers={"empty_string_literal": "result.value == ''", "keeps_inner_spaces": "result.value == ' a  b '"},
        callee_variants={"Term.__init__": "string_literal"}, class_fields=CF, macros=MACROS, returns="obj:Term", native=NATIVE,
        property_clauses={"the_text_between_the_quotes": "C17"}))
    cs.append(Contract(
        target=f"{LT}::LarkTransformer.SIGNED_NUMBER", types=tok,
        ensures={"an_integer_literal_is_that_int": "implies('.' not in token.value and int_of(token.value) is not None, result.value == int_of(token.value) and tag(result.value, 'int'))",
                 "a_decimal_literal_is_a_float": "implies('.' in token.value, tag(result.value, 'real') and result.value == float_of(token.value))",
                 "is_a_term": "isinstance(result, Term)"},
        raises={"ValueError": {"when": "True", "exact": False}},
        covers={"negative": "result.value == -12", "plain": "result.value == 7"},
        callee_variants={"Term.__init__": "number_literal"}, class_fields=CF, macros=MACROS, returns="obj:Term", native={"examples": [{"token.value": "5.0"}, {"token.value": "-12"}, {"token.value": "3.25"}, {"token.value": "12345678901234567890"}, {"token.value": "+7"}]},
        property_clauses={"an_integer_literal_is_that_int": "C17", "a_decimal_literal_is_a_float": "C17"}))
    n = "token.value[1:]"
    tfirst = f"({n} if '.' not in {n} else {n}[0:{n}.find('.')])"
    trest = f"(split_dot({n}[{n}.find('.') + 1:]) if '.' in {n} else [])"
    for fn, cls, sigil in (("HEADER", "Header", "#"), ("VARIABLE", "Variable", "@")):
        cs.append(Contract(
            target=f"{LT}::LarkTransformer.{fn}", types=tok,
            requires=["len(token.value) >= 2", f"token.value[0] == '{sigil}'", "'\"' not in token.value[1:]", f"{n} == strip({n})"],
            ensures={"name_is_the_part_before_the_first_dot": f"result.name == {tfirst}",
                     "qualifiers_are_the_remaining_parts_in_order": f"result._qualifiers == {trest}",
                     "kind": f"isinstance(result, {cls})", "belongs_to_the_matcher": "result.matcher is self.matcher"},
            raises={"ValueError": {"when": f"strip({tfirst}) == ''", "exact": True}},
            callee_variants={f"{cls}.__init__": "named"}, class_fields=CF, macros=MACROS, returns=f"obj:{cls}", native={"examples": [{"token.value": sigil + "name.asbool.x"}, {"token.value": sigil + "abc.d.e"}, {"token.value": sigil + "0"}]},
            property_clauses={"name_is_the_part_before_the_first_dot": "C17", "qualifiers_are_the_remaining_parts_in_order": "C17", "kind": "C17"}))
    # ---- structure: operators and operand order
    cs.append(Contract(
        target=f"{PROD}/equality.py::Equality.__init__",
        types={"matcher": "obj:Matcher"}, modifies=init_mod + ["self.op", "self.DO_WHEN", "self.sentinel"],
        ensures={"starts_without_children": "len(self.children) == 0", "belongs_to_the_matcher": "self.matcher is matcher", "default_op": "self.op == '='"},
        callee_variants={"Matchable.__init__": "unnamed"}, class_fields=CF, macros=MACROS, returns="none", native=NATIVE))
    cs.append(Contract(
        target=f"{PROD}/expression.py::Expression.__init__", variant="unnamed",
        types={"matcher": "obj:Matcher", "value": "none", "name": "none"}, modifies=init_mod + ["self.errors"],
        ensures={"starts_without_children": "len(self.children) == 0", "belongs_to_the_matcher": "self.matcher is matcher"},
        callee_variants={"Matchable.__init__": "unnamed"}, class_fields=CF, macros=MACROS, returns="none", native=NATIVE))
    operands = {"left": "obj:Matchable", "right": "obj:Matchable", "self.matcher": "obj:Matcher"}
    setters = ["Equality.left.setter", "Equality.right.setter", "Equality.left", "Equality.right"]
    binary = {"left_operand_first": "result.children[0] is left", "right_operand_second": "result.children[1] is right", "two_operands": "len(result.children) == 2",
              "operands_know_their_parent": "left.parent is result and right.parent is result", "kind": "isinstance(result, Equality)"}
    cs.append(Contract(
        target=f"{LT}::LarkTransformer.equality", types={**operands, "op": "val"}, modifies=["left.parent", "right.parent"],
        ensures={**binary, "operator_is_equality": "result.op == '=='"},
        inline=setters, class_fields=CF, macros=MACROS, returns="obj:Equality", native=NATIVE,
        property_clauses={k: "C17" for k in ("left_operand_first", "right_operand_second", "two_operands", "operator_is_equality")}))
    cs.append(Contract(
        target=f"{LT}::LarkTransformer.assignment", types={"variable": "obj:Variable", "value": "obj:Matchable", "equals": "str", "self.matcher": "obj:Matcher"},
        modifies=["variable.parent", "value.parent"],
        ensures={"variable_on_the_left": "result.children[0] is variable", "value_on_the_right": "result.children[1] is value", "two_operands": "len(result.children) == 2",
                 "operator_as_written": "result.op == equals", "kind": "isinstance(result, Equality)"},
        inline=setters, class_fields=CF, macros=MACROS, returns="obj:Equality", native=NATIVE,
        property_clauses={k: "C17" for k in ("variable_on_the_left", "value_on_the_right", "two_operands", "operator_as_written")}))
    cs.append(Contract(
        target=f"{LT}::LarkTransformer.expression", variant="plain",
        types={"acted_on": "obj:Matchable", "when": "none", "action": "none", "self.matcher": "obj:Matcher"}, modifies=["acted_on.parent"],
        ensures={"wraps_exactly_the_component": "len(result.children) == 1 and result.children[0] is acted_on", "kind": "isinstance(result, Expression)",
                 "component_knows_its_parent": "acted_on.parent is result"},
        inline=["Matchable.add_child", "Matchable.set_parent"], callee_variants={"Expression.__init__": "unnamed"},
        class_fields=CF, macros=MACROS, returns="obj:Expression", native=NATIVE, property_clauses={"wraps_exactly_the_component": "C17"}))
    cs.append(Contract(
        target=f"{LT}::LarkTransformer.expression", variant="when_do",
        types={"acted_on": "obj:Matchable", "when": "str", "action": "obj:Matchable", "self.matcher": "obj:Matcher"}, modifies=["acted_on.parent", "action.parent"],
        ensures={"one_when_do_component": "len(result.children) == 1 and isinstance(result.children[0], Equality) and result.children[0].op == '->'",
                 "condition_on_the_left": "result.children[0].children[0] is acted_on", "action_on_the_right": "result.children[0].children[1] is action",
                 "kind": "isinstance(result, Expression)"},
        inline=["Matchable.add_child", "Matchable.set_parent"] + setters, callee_variants={"Expression.__init__": "unnamed"},
        class_fields=CF, macros=MACROS, returns="obj:Expression", native=NATIVE,
        property_clauses={k: "C17" for k in ("one_when_do_component", "condition_on_the_left", "action_on_the_right")}))
    return cs


def bounded(tier, seed):
    return [{"name": "C17.bounded", "script": "native/bounded_C17.py", "timeout": 3000,
             "scope": "500 (thorough 6000) generated match parts of 1..4 (5) components, nesting depth <= 3, over headers (names, indexes, quoted), variables with "
                      "qualifiers/tracking names, string/int/decimal/regex terms, references, 60 function names with valid arity and name qualifiers, ==, =, ->; "
                      "canonical layout + 3 random layouts (blanks, tabs, newlines, comments between components, outer comment) + 6 fixed corner programs"}]


LEVEL = "other"
EXPLANATION = ("Proved, for all inputs: the name/qualifier splitter returns every dot-separated part in order (recursive spec function split_dot, induction through the "
               "function's own contract); Qualified/Matchable/Variable/Header/Term constructors keep name, qualifiers and literal value as given; the transformer's token "
               "callbacks (STRING, SIGNED_NUMBER, HEADER, VARIABLE) and structural callbacks (equality, assignment, expression) build the component with the written "
               "operator, operand order and literal value. Bounded (not proved): the Earley grammar itself -- no _ambig node, tree == generated AST, layout-insensitivity "
               "of tree and of run results -- over the generated programs of the stated scope. Unambiguity for ALL programs is a property of the grammar as interpreted by "
               "Lark and is not decided (DESIGN 7).")
