"""C07 -- collect(), next() and fast_forward() are the same run."""
from pyvc.contract import Contract
from . import core, shared
from .core import CF, MACROS
USES = ["shared"]
CP = "csvpath/csvpath.py"

CF["CsvPath"].update({"g_next_yields": "objlist[Record]", "g_pulled": "int", "lines": "val"})
CF["ListLineSpooler"] = {}

P_NEXT = ("def patch(self, csvpath=None):\n    for r in self.g_next_yields:\n        self.g_pulled += 1\n        yield r\n")
NATIVE = {"patches": {"csvpath.csvpath.CsvPath.next": P_NEXT}, "record_list": "self.g_next_yields", "result_records": True}


def interfaces():
    return [Contract(
        target=f"{CP}::CsvPath.next", interface=True, variant="as_seen_by_drivers", types={"csvpath": "val"}, ensures={},
        returns="expr:self.g_next_yields", class_fields=CF, native={"callee_default": True},
        assumptions=["CsvPath.next() is a generator yielding the accepted lines in order (its own contract); generator protocol: the code behind a yield "
                     "(all side effects of later lines) runs only when the generator is advanced"])]


def contracts():
    cs = []
    n = "len(self.g_next_yields)"
    cs.append(Contract(
        target=f"{CP}::CsvPath.collect", variant="own_list",
        types={"csvpath": "none", "nexts": "int", "lines": "none", "self.scanner": "obj:Scanner"},
        requires=["nexts == -1 or nexts >= 1", "forall_int(0, len(self.g_next_yields), lambda k: self.g_next_yields[k].g_len > 0)"],
        list_literals={"lines": "list[int]"},
        modifies=["self._collecting", "self.lines", "self.g_pulled"],
        loop_counts={0: "self.g_pulled"},
        raises={"ProcessingException": {"when": "nexts < -1", "exact": True}},
        ensures={
            "returns_next_lines_in_order": "result == iota(len(result))",
            "all_lines_or_first_n": "len(result) == (%s if (old(nexts) == -1 or old(nexts) > %s) else old(nexts))" % (n, n),
            "advances_generator_no_further_than_needed": "self.g_pulled == old(self.g_pulled) + len(result)",
            "marks_collecting": "self._collecting == True",
        },
        invariants={0: ["lines == iota(_i0)", "len(lines) == _i0", "self.g_pulled == old(self.g_pulled) + _i0",
                        "(old(nexts) == -1 and nexts == -1) or (old(nexts) >= 1 and nexts >= 1 and nexts == old(nexts) - _i0)", "self._collecting == True"]},
        loop_havoc={0: ["self.g_pulled", "lines"]},
        covers={"first_two_of_three": "len(result) == 2 and %s == 3" % n},
        inline=["CsvPath.collecting.setter", "ListLineSpooler.__init__", "LineSpooler.__init__", "ListLineSpooler.append"],
        class_fields=CF, macros={**MACROS, "min2": (["a", "b"], "a if a <= b else b")}, returns="list[int]", native=NATIVE,
        property_clauses={"returns_next_lines_in_order": "C07", "all_lines_or_first_n": "C07", "advances_generator_no_further_than_needed": "C07"},
        doc={"returns_next_lines_in_order": "C07: 'collect() returns the same lines that next() yields'",
             "all_lines_or_first_n": "C07: 'collect(nexts=n) for n>=1 returns the first n lines of collect()'",
             "advances_generator_no_further_than_needed": "C07: '... and performs no side effect belonging to a later line'"},
        assumptions=["variant: collect() called without a lines spooler (the CsvPaths path passes a CsvLineSpooler: C09)"]))
    cs.append(Contract(
        target=f"{CP}::CsvPath.fast_forward",
        types={"csvpath": "none", "self.scanner": "obj:Scanner"},
        modifies=["self.g_pulled"],
        loop_counts={0: "self.g_pulled"},
        ensures={"drains_next": "self.g_pulled == old(self.g_pulled) + %s" % n},
        invariants={0: ["self.g_pulled == old(self.g_pulled) + _i0"]},
        loop_havoc={0: ["self.g_pulled"]},
        class_fields=CF, macros=MACROS, returns="none", native=NATIVE,
        property_clauses={"drains_next": "C07"},
        doc={"drains_next": "C07: fast_forward() is the same run: it iterates next() to exhaustion and does nothing else (frame)"}))
    L = "self._limit_collection_to"
    Q = "ufun_int('any_position', 0)"
    cs.append(Contract(
        target=f"{CP}::CsvPath.limit_collection", variant="projection",
        types={"line": "list[str]", L: "list[int]", "self._collecting": "bool"},
        requires=[f"forall_int(0, len({L}), lambda j: {L}[j] >= 0)"],
        raises={"InputException": {"when": f"exists_int(0, len({L}), lambda j: {L}[j] >= len(line))", "exact": True}},
        # Q is an uninterpreted constant: a clause proved about position Q is proved about every position (quantifier-free obligations)
        ensures={"the_line_itself_without_a_collect_list": f"implies(len({L}) == 0, result == line)",
                 "the_listed_headers_in_order_whoever_drives_the_run": f"implies(len({L}) > 0, len(result) == len({L}) and "
                                                                        f"implies(0 <= {Q} and {Q} < len({L}), result[{Q}] == line[{L}[{Q}]]))"},
        invariants={0: [f"len(ls) == _i0", f"implies(0 <= {Q} and {Q} < _i0, ls[{Q}] == line[{L}[{Q}]])", f"forall_int(0, _i0, lambda j: {L}[j] < len(line))"]},
        list_literals={"ls": "list[str]"}, loop_havoc={0: ["ls"]}, lemmas=["append_nth"],
        covers={"narrows_while_not_collecting": f"not self._collecting and len({L}) > 0"},
        inline=["CsvPath.limit_collection_to", "CsvPath.collecting", "CsvPath.identity", "CsvPath.line_monitor", "LineMonitor.physical_line_number"],
        class_fields=CF, macros=MACROS, returns="list[str]",
        native={"spec_funs": {"any_position": "def fun(x):\n    return 0\n"},
                "examples": [{"line": ["1", "apple", "red"], L: [1], "self._collecting": False}, {"line": ["1", "apple", "red"], L: [2, 0], "self._collecting": True},
                             {"line": ["1", "apple"], L: [], "self._collecting": False}]},
        property_clauses={"the_line_itself_without_a_collect_list": "C07,C06", "the_listed_headers_in_order_whoever_drives_the_run": "C07"},
        doc={"the_listed_headers_in_order_whoever_drives_the_run": "C07: 'collect() returns the same lines that next() yields' -- what a line is narrowed to depends on the line and the collect() list only, not on the method driving the run"}))
    cr = core.select(core.contracts(), ("CsvPath.next",))
    return cs + interfaces() + cr


LEVEL = "other"
EXPLANATION = ("collect() and fast_forward() are proved to be drivers of next(): collect returns next()'s lines in order, all of them or the first n, "
               "and advances the generator exactly as many times as lines it returns (ghost pull counter); fast_forward drains it; both write nothing "
               "else (frame). next() itself is under its own contract (finalizes, stops).")


def bounded(tier, seed):
    return [{"name": "C07.bounded", "script": "native/bounded_C07.py",
             "scope": "14 match parts (stop/skip/advance/last/print/fail/collect()/assignments) x scans {*, 1-3[, 0+2+4]} x 4 files (plain, ragged, blank interior, "
                      "trailing blank) x skip_blank_lines {True, False} x {default, unmatched-mode keep}; collect(nexts=n) for n in 1..matches+1"}]
