"""C06 -- lines are delivered as they are in the file; headers are the first data line."""
from pyvc.contract import Contract
from . import core, shared
from .core import CF, MACROS
USES = ["shared"]

HDR = "csvpath/matching/productions/header.py"
CP = "csvpath/csvpath.py"
MATCHER = "csvpath/matching/matcher.py"

CF["Matcher"].update({"g_hidx": "optint"})
CF["CsvPath"].update({"_headers": "list[str]"})

NATIVE = {"patches": {"csvpath.matching.matcher.Matcher.header_index": "def patch(self, name):\n    return self.g_hidx\n",
                      "csvpath.matching.matcher.Matcher._what": shared.P_WHAT},
          "defaults": {"Matchable": {"children": [], "qualified_name": "stub", "parent": None}, "CsvPath": {"metadata": {}}}}


def contracts():
    cs = []
    cs.append(Contract(
        target=f"{MATCHER}::Matcher.header_index", interface=True, types={"name": "val"},
        ensures={"idx": "same(result, self.g_hidx)", "nonneg": "result is None or result >= 0"}, returns="optint", class_fields=CF,
        assumptions=["Matcher.header_index(name) is the position of name among the current headers or None (CsvPath.header_index: own contract)"]))
    cs.append(Contract(
        target=f"{HDR}::Header.to_value", variant="by_name",
        types={"skip": "none", "self.name": "str", "self.value": "int", "self._qualifiers": "list[str]", "self.matcher._line": "list[str]"},
        requires=["self.value == -9999999999", "not ('asbool' in self._qualifiers)", "self.matcher.g_hidx is None or self.matcher.g_hidx >= 0",
                  "not self.name.isdecimal()"],
        modifies=["self.value"],
        ensures={
            "reads_the_cell_under_that_header": "implies(self.matcher.g_hidx is not None and self.matcher.g_hidx < len(self.matcher._line), "
                                                "result == strip(self.matcher._line[self.matcher.g_hidx]))",
            "missing_from_a_short_row_reads_as_absent": "implies(self.matcher.g_hidx is not None and self.matcher.g_hidx >= len(self.matcher._line), result is None)",
            "unknown_header_reads_as_absent": "implies(self.matcher.g_hidx is None, result is None)",
        },
        inline=["Matcher.line", "Qualified.asbool", "Qualified.qualifiers"],
        class_fields=CF, macros=MACROS, returns="val", native=NATIVE,
        property_clauses={"reads_the_cell_under_that_header": "C06,C01", "missing_from_a_short_row_reads_as_absent": "C06,C01", "unknown_header_reads_as_absent": "C06"},
        doc={"missing_from_a_short_row_reads_as_absent": "C06: 'a header missing from a short row reads as absent rather than failing'"}))
    cs.append(Contract(
        target=f"{HDR}::Header.to_value", variant="by_index",
        types={"skip": "none", "self.name": "str", "self.value": "int", "self._qualifiers": "list[str]", "self.matcher._line": "list[str]"},
        requires=["self.value == -9999999999", "not ('asbool' in self._qualifiers)", "self.name.isdecimal()"],
        modifies=["self.value"],
        ensures={
            "index_addresses_the_same_cell": "implies(int_of(self.name) < len(self.matcher._line), result == strip(self.matcher._line[int_of(self.name)]))",
            "index_beyond_the_row_reads_as_absent": "implies(int_of(self.name) >= len(self.matcher._line), result is None)",
        },
        inline=["Matcher.line", "Qualified.asbool", "Qualified.qualifiers"],
        class_fields=CF, macros=MACROS, returns="val", native={"skip": True},
        property_clauses={"index_addresses_the_same_cell": "C06", "index_beyond_the_row_reads_as_absent": "C06"},
        doc={"index_addresses_the_same_cell": "C06: '#name and #index address the same cell'"}))
    cs.append(Contract(
        target=f"{CP}::CsvPath.header_index",
        types={"name": "str", "self._headers": "alist[str]"},
        ensures={"first_position_or_none": "(result is None and forall_int(0, len(self._headers), lambda j: not (self._headers[j] == name))) or "
                                           "(result is not None and 0 <= result and result < len(self._headers) and self._headers[result] == name and "
                                           " forall_int(0, result, lambda j: not (self._headers[j] == name)))"},
        invariants={0: ["forall_int(0, _i0, lambda j: not (self._headers[j] == name))"]},
        inline=["CsvPath.headers"], class_fields=CF, macros=MACROS, returns="optint", native={"int_window": [0, 6]},
        property_clauses={"first_position_or_none": "C06"}))
    cs.append(Contract(
        target=f"{CP}::CsvPath.limit_collection", variant="no_projection",
        types={"line": "list[str]", "self._limit_collection_to": "list[int]"},
        requires=["len(self._limit_collection_to) == 0"],
        ensures={"identity_when_no_collect": "same(result, line)"},
        inline=["CsvPath.limit_collection_to"], class_fields=CF, macros=MACROS, returns="list[str]", native={"skip": True},
        property_clauses={"identity_when_no_collect": "C06,C01"},
        doc={"identity_when_no_collect": "C06: 'Unless the csvpath itself rewrites or projects the line (replace, append, collect), every returned line has exactly the cells of the record'"}))
    return cs


def bounded(tier, seed):
    return [{"name": "C06.bounded", "script": "native/bounded_C06.py", "timeout": 3000,
             "scope": "files written by csv.writer from cell texts over an alphabet of 14 characters (letters, space, quotes, the four delimiters, newline, unicode, BOM) "
                      "0-6 records of 0-4 cells, blank records anywhere, 4 delimiters x 2 quote chars: 300 (thorough 5000) seeded files + fixed corner files"}]


LEVEL = "other"
EXPLANATION = ("Proved: Header.to_value reads the cell under the header, by name or by index, and reads as absent on a short row; CsvPath.header_index is the first "
               "position; limit_collection is the identity without collect(). Bounded: files written by csv.writer are read back through the real CsvPath and "
               "compared with csv.reader's parse (the csv module is the oracle for itself).")
