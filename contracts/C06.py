"""C06 -- lines are delivered as they are in the file; headers are the first data line."""
from pyvc.contract import Contract
from . import core, shared
from .core import CF, MACROS
USES = ["shared"]

HDR = "csvpath/matching/productions/header.py"
CP = "csvpath/csvpath.py"
MATCHER = "csvpath/matching/matcher.py"

CF["Matcher"].update({"g_hidx": "optint"})
CF["CsvPath"].update({"_headers": "list[str]"})

NATIVE = {"patches": {"csvpath.matching.matcher.Matcher.header_index": "def patch(self, name):\n    return self.g_hidx\n",
                      "csvpath.matching.matcher.Matcher._what": shared.P_WHAT},
          "defaults": {"Matchable": {"children": [], "qualified_name": "stub", "parent": None}, "CsvPath": {"metadata": {}}}}


def contracts():
    cs = []
    cs.append(Contract(
        target=f"{MATCHER}::Matcher.header_index", interface=True, types={"name": "val"},
        ensures={"idx": "same(result, self.g_hidx)", "nonneg": "result is None or result >= 0"}, returns="optint", class_fields=CF,
        assumptions=["Matcher.header_index(name) is the position of name among the current headers or None (CsvPath.header_index: own contract)"]))
    cs.append(Contract(
        target=f"{HDR}::Header.to_value", variant="by_name",
        types={"skip": "none", "self.name": "str", "self.value": "int", "self._qualifiers": "list[str]", "self.matcher._line": "list[str]"},
        requires=["self.value == -9999999999", "not ('asbool' in self._qualifiers)", "self.matcher.g_hidx is None or self.matcher.g_hidx >= 0",
                  "not self.name.isdecimal()"],
        modifies=["self.value"],
        ensures={
            "reads_the_cell_under_that_header": "implies(self.matcher.g_hidx is not None and self.matcher.g_hidx < len(self.matcher._line), "
                                                "result == strip(self.matcher._line[self.matcher.g_hidx]))",
            "missing_from_a_short_row_reads_as_absent": "implies(self.matcher.g_hidx is not None and self.matcher.g_hidx >= len(self.matcher._line), result is None)",
            "unknown_header_reads_as_absent": "implies(self.matcher.g_hidx is None, result is None)",
        },
        inline=["Matcher.line", "Qualified.asbool", "Qualified.qualifiers"],
        class_fields=CF, macros=MACROS, returns="val", native=NATIVE,
        property_clauses={"reads_the_cell_under_that_header": "C06,C01", "missing_from_a_short_row_reads_as_absent": "C06,C01", "unknown_header_reads_as_absent": "C06"},
        doc={"missing_from_a_short_row_reads_as_absent": "C06: 'a header missing from a short row reads as absent rather than failing'"}))
    cs.append(Contract(
        target=f"{HDR}::Header.to_value", variant="by_index",
        types={"skip": "none", "self.name": "str", "self.value": "int", "self._qualifiers": "list[str]", "self.matcher._line": "list[str]"},
        requires=["self.value == -9999999999", "not ('asbool' in self._qualifiers)", "self.name.isdecimal()"],
        modifies=["self.value"],
        ensures={
            "index_addresses_the_same_cell": "implies(int_of(self.name) < len(self.matcher._line), result == strip(self.matcher._line[int_of(self.name)]))",
            "index_beyond_the_row_reads_as_absent": "implies(int_of(self.name) >= len(self.matcher._line), result is None)",
        },
        inline=["Matcher.line", "Qualified.asbool", "Qualified.qualifiers"],
        class_fields=CF, macros=MACROS, returns="val", native={"skip": True},
        property_clauses={"index_addresses_the_same_cell": "C06", "index_beyond_the_row_reads_as_absent": "C06"},
        doc={"index_addresses_the_same_cell": "C06: '#name and #index address the same cell'"}))
    cs.append(Contract(
        target=f"{CP}::CsvPath.header_index",
        types={"name": "str", "self._headers": "alist[str]"},
        ensures={"first_position_or_none": "(result is None and forall_int(0, len(self._headers), lambda j: not (self._headers[j] == name))) or "
                                           "(result is not None and 0 <= result and result < len(self._headers) and self._headers[result] == name and "
                                           " forall_int(0, result, lambda j: not (self._headers[j] == name)))"},
        invariants={0: ["forall_int(0, _i0, lambda j: not (self._headers[j] == name))"]},
        inline=["CsvPath.headers"], class_fields=CF, macros=MACROS, returns="optint", native={"int_window": [0, 6]},
        property_clauses={"first_position_or_none": "C06"}))
    cs.append(Contract(
        target=f"{CP}::CsvPath.limit_collection", variant="no_projection",
        types={"line": "list[str]", "self._limit_collection_to": "list[int]"},
        requires=["len(self._limit_collection_to) == 0"],
        ensures={"identity_when_no_collect": "same(result, line)"},
        inline=["CsvPath.limit_collection_to"], class_fields=CF, macros=MACROS, returns="list[str]", native={"skip": True},
        property_clauses={"identity_when_no_collect": "C06,C01"},
        doc={"identity_when_no_collect": "C06: 'Unless the csvpath itself rewrites or projects the line (replace, append, collect), every returned line has exactly the cells of the record'"}))
    nl = core.line_monitor_next_line()
    nl._foreign = True
    return cs + delivery_contracts() + [nl]


def delivery_contracts():
    """the lines next() works on are exactly the records the reader gives, in order, each tracked by the line monitor before it is handed on"""
    cs = []
    FRD = "csvpath/util/file_readers.py"
    CF["DataFileReader"] = {**CF.get("DataFileReader", {}), "g_lines": "list[val]"}
    CF["CsvPath"].update({"g_track_calls": "int", "g_tracked": "list[val]", "g_finalize_calls": "int", "g_yielded_lines": "list[val]", "g_reader_lines": "list[val]"})
    CF["Scanner"] = {**CF.get("Scanner", {}), "filename": "optstr"}
    cs.append(Contract(target=f"{FRD}::DataFileReader.next", interface=True, types={}, returns="expr:self.g_lines", ensures={"the_records": "result is self.g_lines"}, class_fields=CF,
                       assumptions=["DataFileReader.next() yields the records csv.reader parses from the file, in file order (csv module: bounded in C06.bounded)"]))
    cs.append(Contract(target=f"{MATCHER}::Matcher.clear_caches", interface=True, types={}, returns="none", class_fields=CF,
                       assumptions=["Matcher.clear_caches drops reference caches; it touches no variable, counter or verdict"]))
    cs.append(Contract(target=f"{CP}::CsvPath.track_line", interface=True, variant="logged", types={"line": "val"}, modifies=["self.g_track_calls", "self.g_tracked"],
                       ensures={"logged": "self.g_track_calls == old(self.g_track_calls) + 1 and self.g_tracked == old(self.g_tracked) + [line]"}, returns="none", class_fields=CF,
                       assumptions=["CsvPath.track_line is under its own contract below (advances the line monitor once)"]))
    cs.append(Contract(target=f"{CP}::CsvPath.finalize", interface=True, variant="logged", types={}, modifies=["self.g_finalize_calls", "self._freeze_path"],
                       ensures={"n": "self.g_finalize_calls == old(self.g_finalize_calls) + 1 and self._freeze_path == True"}, returns="none", class_fields=CF,
                       assumptions=["CsvPath.finalize is under its own contract below"]))
    cs.append(Contract(
        target=f"{CP}::CsvPath._next_line", variant="body",
        types={"self.scanner": "obj:Scanner", "self.scanner.filename": "str", "self.g_yielded_lines": "list[val]", "self.g_tracked": "list[val]", "self.delimiter": "val", "self.quotechar": "val"},
        modifies=["self.g_yielded_lines", "self.g_track_calls", "self.g_tracked", "self.g_finalize_calls", "self._freeze_path"],
        requires=["len(self.g_tracked) == 0 and len(self.g_yielded_lines) == 0"],
        ensures={"tracks_every_line_it_yields_in_the_same_order": "self.g_tracked == self.g_yielded_lines",
                 "yields_exactly_the_readers_records_in_order": "self.g_yielded_lines == reader.g_lines",
                 "finalizes_once_after_the_last_record": "self.g_finalize_calls == old(self.g_finalize_calls) + 1 and self._freeze_path == True"},
        invariants={0: ["self.g_finalize_calls == old(self.g_finalize_calls)", "self.g_tracked == self.g_yielded_lines", "len(self.g_tracked) == _i0",
                        "self.g_yielded_lines == reader.g_lines[0:_i0]"]},
        loop_havoc={0: ["self.g_yielded_lines", "self.g_tracked", "self.g_track_calls"]},
        yield_to="self.g_yielded_lines", stub_new=["DataFileReader"], callee_variants={"CsvPath.track_line": "logged", "CsvPath.finalize": "logged"},
        class_fields=CF, macros=MACROS, returns="none", native={"skip": True},
        property_clauses={"tracks_every_line_it_yields_in_the_same_order": "C06,C02,C03", "yields_exactly_the_readers_records_in_order": "C06", "finalizes_once_after_the_last_record": "C07,C13"},
        doc={"tracks_every_line_it_yields_in_the_same_order": "C06: 'lines are delivered as they are in the file' -- every record the reader gives is counted by the line monitor and handed on, "
                                                              "none skipped, none reordered (so line numbers are positions of records)"},
        assumptions=["the records themselves come from DataFileReader.next() ([A] csv.reader); the clause relates what is tracked to what is yielded; the two ghost logs start empty (w.l.o.g.)"]))
    lm = "self._line_monitor"
    cs.append(Contract(
        target=f"{CP}::CsvPath.track_line", variant="body",
        types={"line": "list[str]", "self.matcher": "obj:Matcher", "self.matcher._line": "list[str]", "self._line_monitor": "obj:LineMonitor", "self._run_started_at": "val"},
        requires=[f"({lm}._physical_line_count is None) == ({lm}._physical_line_number is None)",
                  f"({lm}._physical_line_count is None) == ({lm}._data_line_count is None)",
                  f"({lm}._physical_line_count is None) == ({lm}._data_line_number is None)",
                  f"implies({lm}._physical_line_count is not None, {lm}._physical_line_count == {lm}._physical_line_number + 1 and {lm}._physical_line_number >= 0 "
                  f"and {lm}._data_line_count is not None and {lm}._data_line_number is not None and {lm}._data_line_count >= -1)"],
        modifies=[f"{lm}._physical_line_count", f"{lm}._physical_line_number", f"{lm}._data_line_count", f"{lm}._data_line_number", f"{lm}._last_line_stats", "self._run_started_at"],
        ensures={"the_line_number_is_the_position_of_the_record": f"{lm}._physical_line_number == (0 if old({lm}._physical_line_number) is None else old({lm}._physical_line_number) + 1)",
                 "data_lines_count_nonblank_records_only": f"implies(len(line) > 0, {lm}._data_line_count == (1 if (old({lm}._data_line_count) is None or old({lm}._data_line_count) == -1) "
                                                           f"else old({lm}._data_line_count) + 1))"},
        inline=["CsvPath.line_monitor", "LineMonitor.physical_line_number", "Matcher.line"],
        class_fields={**CF, "LineMonitor": {**CF.get("LineMonitor", {}), "_last_line_stats": "val"}}, macros=MACROS, returns="none", native={"skip": True},
        property_clauses={"the_line_number_is_the_position_of_the_record": "C06,C02,C03", "data_lines_count_nonblank_records_only": "C03"},
        doc={"the_line_number_is_the_position_of_the_record": "C06/C02: 'line numbers are 0-based positions of CSV records': one step of the monitor per record handed on"}))
    cs.append(Contract(
        target=f"{CP}::CsvPath.finalize", variant="body", types={"self.matcher": "obj:Matcher"}, modifies=["self._freeze_path"],
        ensures={"freezes_the_variables": "self._freeze_path == True"}, class_fields=CF, macros=MACROS, returns="none", native={"skip": True},
        property_clauses={"freezes_the_variables": "C03,C07"}))
    return cs


def scans(facts):
    """call-site scans (kind frame-scan): what CsvDataReader.next hands to open() and csv.reader() -- external calls the executor does not model"""
    import ast
    FR = "csvpath/util/file_readers.py::CsvDataReader.next"
    res = []
    opens = shared.call_sites(facts, FR, "open")
    ok = opens is not None and len(opens) == 1 and len(opens[0].args) >= 2 and ast.unparse(opens[0].args[0]) == "self._path" and \
        ast.unparse(opens[0].args[1]) in ("'r'", '"r"') and shared.kw_source(opens[0]).get("encoding") in ("'utf-8'", '"utf-8"')
    res.append({"name": "reader_opens_its_own_path_as_utf8_text", "advisory": True, "ok": bool(ok), "sites": len(opens or []),
                "detail": [ast.unparse(c) for c in (opens or [])] or "CsvDataReader.next not found",
                "text": "CsvDataReader.next opens self._path for reading with encoding='utf-8' (C06: cells are returned as written; another codec, e.g. utf-8-sig, "
                        "drops or alters leading characters)"})
    rd = shared.call_sites(facts, FR, "csv.reader")
    kws = shared.kw_source(rd[0]) if rd else {}
    ok = rd is not None and len(rd) == 1 and kws == {"delimiter": "self._delimiter", "quotechar": "self._quotechar"}
    res.append({"name": "reader_parses_with_its_own_delimiter_and_quotechar", "advisory": True, "ok": bool(ok), "sites": len(rd or []),
                "detail": [ast.unparse(c) for c in (rd or [])] or "csv.reader call not found",
                "text": "CsvDataReader.next hands csv.reader exactly delimiter=self._delimiter and quotechar=self._quotechar (C06: the configured dialect, nothing else)"})
    return res


def bounded(tier, seed):
    return [{"name": "C06.bounded", "script": "native/bounded_C06.py", "timeout": 3000,
             "scope": "files written by csv.writer from cell texts over an alphabet of 14 characters (letters, space, quotes, the four delimiters, newline, unicode, BOM) "
                      "0-6 records of 0-4 cells, blank records anywhere, 4 delimiters x 2 quote chars: 300 (thorough 5000) seeded files + fixed corner files"}]


LEVEL = "other"
EXPLANATION = ("Proved: CsvPath._next_line hands on exactly the reader's records in order, each tracked first (track_line) and finalizes once; Header.to_value reads the cell under the header, by name or by index, and reads as absent on a short row; CsvPath.header_index is the first "
               "position; limit_collection is the identity without collect(). Bounded: files written by csv.writer are read back through the real CsvPath and "
               "compared with csv.reader's parse (the csv module is the oracle for itself).")
