"""Shared declarations: field types by class (incl. ghost fields g_*), [A] interface contracts on abstract
collaborators, and the native patches that give the ghost fields a run-time meaning in the harness."""
from pyvc.contract import Contract

MATCHABLE = "csvpath/matching/productions/matchable.py"
QUALIFIED = "csvpath/matching/productions/qualified.py"
MATCHER = "csvpath/matching/matcher.py"
EXPRUTIL = "csvpath/matching/util/expression_utility.py"

# field types by class; g_* are ghost fields (the abstract view of a collaborator)
CLASS_FIELDS = {
    "Matchable": {
        "name": "optstr", "value": "val", "match": "val", "_qualifiers": "list[str]", "matcher": "obj:Matcher",
        "g_value": "val",            # the value this child produces on the current line (memoised per line)
        "g_to_value_calls": "int",   # how many times to_value() was called on it
        "g_match": "bool",           # the vote this child casts on the current line
        "g_matches_calls": "int",
        "g_rest_matches": "bool",    # do all OTHER match components of the line match (onmatch look-ahead)
        "g_line_matches_calls": "int",
    },
    "CsvPath": {
        "modes": "obj:ModeController", "_is_valid": "bool", "stopped": "bool", "_freeze_path": "bool",
        "scan_count": "int", "match_count": "int", "_current_match_count": "int", "_advance": "int",
        "g_printed": "list[str]",    # what CsvPath.print() has sent to the printers, in order
    },
    "ModeController": {"validation_mode": "obj:ValidationMode", "return_mode": "obj:ReturnMode", "csvpath": "obj:CsvPath"},
    "ValidationMode": {"_raise_validation_errors": "optbool", "_print_validation_errors": "optbool", "_stop_on_validation_errors": "optbool",
                       "_fail_on_validation_errors": "optbool", "_match_validation_errors": "optbool", "_log_validation_errors": "optbool"},
    "ErrorCommsManager": {"_csvpath": "obj:CsvPath", "_policy": "list[str]"},
    "Error": {"error": "exception", "exception_class": "str", "filename": "optstr", "line_count": "val", "match_count": "val",
              "scan_count": "val", "message": "optstr", "trace": "optstr", "json": "optstr", "datum": "val", "source": "val", "match": "optstr", "at": "opaque"},
    "Matcher": {
        "_AND": "bool", "csvpath": "obj:CsvPath",
        "g_current": "val",          # what get_variable(name, tracking) returns for the variable being assigned
        "g_writes": "int", "g_wname": "val", "g_wvalue": "val", "g_wtracking": "val",   # write log of set_variable
    },
}

P_TO_VALUE = "def patch(self, *, skip=None):\n    self.g_to_value_calls += 1\n    return self.g_value\n"
P_MATCHES = "def patch(self, *, skip=None):\n    self.g_matches_calls += 1\n    return self.g_match\n"
P_LINE_MATCHES = "def patch(self):\n    self.g_line_matches_calls += 1\n    return self.g_rest_matches\n"
P_GET_VARIABLE = "def patch(self, name, *, tracking=None, set_if_none=None):\n    return self.g_current\n"
P_SET_VARIABLE = ("def patch(self, name, *, value, tracking=None):\n    self.g_writes += 1\n    self.g_wname = name\n"
                  "    self.g_wvalue = value\n    self.g_wtracking = tracking\n")
P_PRINT = "def patch(self, string):\n    self.g_printed.append(string)\n"
P_WHAT = "def patch(self, actor, action):\n    import types\n    w = types.SimpleNamespace()\n    w.result = lambda *a, **k: w\n    w.because = lambda *a, **k: w\n    w.action = lambda *a, **k: w\n    return w\n"

NATIVE_PATCHES = {
    "csvpath.matching.productions.matchable.Matchable.to_value": P_TO_VALUE,
    "csvpath.matching.productions.matchable.Matchable.matches": P_MATCHES,
    "csvpath.matching.productions.qualified.Qualified.line_matches": P_LINE_MATCHES,
    "csvpath.matching.matcher.Matcher.get_variable": P_GET_VARIABLE,
    "csvpath.matching.matcher.Matcher.set_variable": P_SET_VARIABLE,
    "csvpath.matching.matcher.Matcher._what": P_WHAT,
}
CSVPATH_PRINT_PATCH = {"csvpath.csvpath.CsvPath.print": P_PRINT}

SPEC_FUNS = {
    # the documented truth value of y under asbool: the real ExpressionUtility.asbool is the native meaning
    "asbool": "def fun(v):\n    m = importlib.import_module('csvpath.matching.util.expression_utility')\n    return m.ExpressionUtility.asbool(v)\n",
}

MACROS = {
    "numeric": (["v"], "tag(v, 'int') or tag(v, 'bool') or tag(v, 'real')"),
    "comparable": (["a", "b"], "(numeric(a) and numeric(b)) or (tag(a, 'str') and tag(b, 'str'))"),
    "no_write": ([], "self.matcher.g_writes == old(self.matcher.g_writes)"),
    "wrote": (["n", "v", "t"], "self.matcher.g_writes == old(self.matcher.g_writes) + 1 and same(self.matcher.g_wname, n) "
                               "and same(self.matcher.g_wvalue, v) and same(self.matcher.g_wtracking, t)"),
}


def interface_contracts():
    cs = []
    cs.append(Contract(
        target=f"{MATCHABLE}::Matchable.to_value", interface=True, types={"skip": "val"},
        modifies=["self.g_to_value_calls"],
        ensures={"memoised": "same(result, self.g_value)", "counted": "self.g_to_value_calls == old(self.g_to_value_calls) + 1"},
        returns="expr:self.g_value", class_fields=CLASS_FIELDS,
        assumptions=["a child's to_value() returns one value per line (memoised in self.value); side effects happen on the first call only"]))
    cs.append(Contract(
        target=f"{MATCHABLE}::Matchable.matches", interface=True, types={"skip": "val"},
        modifies=["self.g_matches_calls"],
        ensures={"memoised": "same(result, self.g_match)", "counted": "self.g_matches_calls == old(self.g_matches_calls) + 1"},
        returns="bool", class_fields=CLASS_FIELDS,
        assumptions=["a child's matches() returns one vote per line (memoised in self.match)"]))
    cs.append(Contract(
        target=f"{QUALIFIED}::Qualified.line_matches", interface=True, types={},
        modifies=["self.g_line_matches_calls"],
        ensures={"rest": "result == self.g_rest_matches"},
        returns="bool", class_fields=CLASS_FIELDS,
        assumptions=["Qualified.line_matches() returns whether all other match components of the line match (AND mode)"]))
    cs.append(Contract(
        target=f"{MATCHER}::Matcher.get_variable", interface=True, types={"name": "val", "tracking": "val", "set_if_none": "val"},
        ensures={"current": "same(result, self.g_current)"},
        returns="val", class_fields=CLASS_FIELDS,
        assumptions=["Matcher.get_variable(name, tracking) returns the variable's current value (abstract view g_current); "
                     "CsvPath.get_variable is under its own contract in C03"]))
    cs.append(Contract(
        target=f"{MATCHER}::Matcher.set_variable", interface=True, types={"name": "val", "value": "val", "tracking": "val"},
        modifies=["self.g_writes", "self.g_wname", "self.g_wvalue", "self.g_wtracking"],
        ensures={"logged": "self.g_writes == old(self.g_writes) + 1 and same(self.g_wname, name) and same(self.g_wvalue, value) and same(self.g_wtracking, tracking)"},
        returns="none", class_fields=CLASS_FIELDS,
        assumptions=["Matcher.set_variable(name, value, tracking) performs exactly one store write (write log g_w*); "
                     "CsvPath.set_variable is under its own contract in C03"]))
    cs.append(Contract(
        target="csvpath/csvpath.py::CsvPath.print", interface=True, types={"string": "str"},
        modifies=["self.g_printed"],
        ensures={"sent": "self.g_printed == old(self.g_printed) + [string]"},
        returns="none", class_fields=CLASS_FIELDS,
        assumptions=["CsvPath.print(s) hands s to every registered printer once (abstract view g_printed); the loop over printers is its own contract in C16"]))
    cs.append(Contract(
        target=f"{EXPRUTIL}::ExpressionUtility.asbool", interface=True, types={"v": "val"},
        ensures={"documented": "result == ufun_bool('asbool', v)"},
        returns="bool",
        assumptions=["ExpressionUtility.asbool(v) is a function of v only (its documented cases are a separate bounded contract)"]))
    return cs


def contracts():
    return interface_contracts()


def call_sites(facts, target, dotted):
    """the ast.Call nodes `a.b(...)` / `f(...)` named `dotted` inside the function `target` of the tree under test (call-site scans: the arguments a
    function hands to an external call -- open, csv.reader, csv.writer -- are outside what the executor models; their SHAPE is checked on the real AST)"""
    import ast
    u = facts.unit(target)
    out = []
    if u is None:
        return None
    for n in ast.walk(u.node):
        if isinstance(n, ast.Call):
            f = n.func
            name = f"{f.value.id}.{f.attr}" if isinstance(f, ast.Attribute) and isinstance(f.value, ast.Name) else (f.id if isinstance(f, ast.Name) else None)
            if name == dotted:
                out.append(n)
    return out


def kw_source(call):
    import ast
    return {k.arg: ast.unparse(k.value) for k in call.keywords if k.arg}
