"""C11 -- the named-files area is a versioned, content-addressed, immutable store."""
from pyvc.contract import Contract
from . import core, shared
from .core import CF, MACROS
USES = ["shared"]

FR = "csvpath/managers/files/file_registrar.py"
CF["ManifestEntry"].update({"fingerprint": "str", "file_home": "str", "has_fingerprint": "bool", "has_file_home": "bool", "file": "str"})
CF["FileRegistrar"].update({"g_manifest": "objlist[ManifestEntry]", "g_distributed": "int"})
CF["FileMetadata"].update({"origin_path": "str", "name_home": "str", "mark": "optstr", "fingerprint": "str", "file_home": "str",
                            "manifest_path": "optstr", "type": "optstr"})

NATIVE = {"skip": True}


def contracts():
    cs = []
    cs.append(Contract(target=f"{FR}::FileRegistrar.manifest_path", interface=True, types={"home": "str"}, ensures={}, returns="str", class_fields=CF,
                       assumptions=["manifest_path(home) names home/manifest.json, creating an empty manifest when there is none"]))
    cs.append(Contract(target=f"{FR}::FileRegistrar.get_manifest", interface=True, types={"mpath": "str"}, ensures={}, returns="expr:self.g_manifest",
                       class_fields=CF, assumptions=["get_manifest returns the manifest's entries, oldest first (json.load)"]))
    cs.append(Contract(target=f"{FR}::FileRegistrar._type_from_sourcepath", interface=True, types={"sourcepath": "str"}, ensures={}, returns="str", class_fields=CF))
    cs.append(Contract(target="csvpath/managers/registrar.py::Registrar.distribute_update", interface=True, types={"mdata": "val"},
                       modifies=["self.g_distributed"], ensures={"counted": "self.g_distributed == old(self.g_distributed) + 1"}, returns="none", class_fields=CF,
                       assumptions=["distribute_update hands the metadata to metadata_update, which appends exactly one manifest entry carrying mdata.fingerprint"]))
    last = "self.g_manifest[len(self.g_manifest) - 1]"
    same_version = (f"(len(self.g_manifest) > 0 and {last}.has_fingerprint and {last}.fingerprint == mdata.fingerprint and "
                    f"{last}.has_file_home and {last}.file_home == mdata.file_home)")
    cs.append(Contract(
        target=f"{FR}::FileRegistrar.register_complete",
        types={"mdata": "obj:FileMetadata"},
        requires=["not ('#' in mdata.origin_path)", "mdata.mark is None", "not mdata.origin_path.startswith('s3:')"],
        modifies=["mdata.manifest_path", "mdata.type", "self.g_distributed"],
        raises={"InputException": {"when": "not fs_exists(mdata.origin_path)", "exact": True}},
        ensures={"one_entry_per_change_none_for_a_repeat": f"self.g_distributed == old(self.g_distributed) + (0 if {same_version} else 1)"},
        covers={"repeat_is_skipped": "self.g_distributed == old(self.g_distributed) and len(self.g_manifest) == 2",
                "back_to_an_older_version_is_a_change": "len(self.g_manifest) == 2 and self.g_manifest[0].fingerprint == mdata.fingerprint and "
                                                        "self.g_manifest[0].file_home == mdata.file_home and self.g_distributed == old(self.g_distributed) + 1"},
        class_fields=CF, macros=MACROS, returns="none", native=NATIVE,
        property_clauses={"one_entry_per_change_none_for_a_repeat": "C11"},
        doc={"one_entry_per_change_none_for_a_repeat": "C11: 'the name's manifest gains exactly one entry ... per registration that changes the current version "
                                                       "(different bytes or different source file name) and none for a repeat'"},
        assumptions=["variant: no '#mark' (spreadsheet sheet) and no s3 path"]))
    return cs


def bounded(tier, seed):
    return [{"name": "C11.bounded", "script": "native/bounded_C11.py", "timeout": 3000,
             "scope": "every operation sequence of length <=2 and 1500 (thorough 20000) seeded random sequences of each length 3..4 (thorough ..5) over "
                      "{add(name in 2, source in 2, content in 3), mutate source, remove(name), new instance}, against the abstract view name -> versions"}]


LEVEL = "other"
EXPLANATION = ("Proved: FileRegistrar.register_complete distributes (appends) exactly one manifest entry per change of the CURRENT version and none for a repeat "
               "(comparison with the last entry only; witness clauses make 'back to an older version' a change). Bounded: operation sequences on the real "
               "FileManager against the abstract view the property gives (content addressing, immutability, fresh-instance agreement).")
ASSUMPTIONS = ["shutil.copy / os.rename / hashlib are external; _fingerprint and _copy_in are covered only by the bounded sequences"]
