"""C11 -- the named-files area is a versioned, content-addressed, immutable store."""
from pyvc.contract import Contract
from . import core, shared
from .core import CF, MACROS
USES = ["shared"]

FR = "csvpath/managers/files/file_registrar.py"
CF["ManifestEntry"].update({"fingerprint": "str", "file_home": "str", "has_fingerprint": "bool", "has_file_home": "bool", "file": "str"})
CF["FileRegistrar"].update({"g_manifest": "objlist[ManifestEntry]", "g_distributed": "int"})
CF["FileMetadata"].update({"origin_path": "str", "name_home": "str", "mark": "optstr", "fingerprint": "str", "file_home": "str",
                            "manifest_path": "optstr", "type": "optstr"})

NATIVE = {"skip": True}


def contracts():
    cs = []
    cs.append(Contract(target=f"{FR}::FileRegistrar.manifest_path", interface=True, types={"home": "str"}, ensures={}, returns="str", class_fields=CF,
                       assumptions=["manifest_path(home) names home/manifest.json, creating an empty manifest when there is none"]))
    cs.append(Contract(target=f"{FR}::FileRegistrar.get_manifest", interface=True, types={"mpath": "str"}, ensures={}, returns="expr:self.g_manifest",
                       class_fields=CF, assumptions=["get_manifest returns the manifest's entries, oldest first (json.load)"]))
    cs.append(Contract(target=f"{FR}::FileRegistrar._type_from_sourcepath", interface=True, types={"sourcepath": "str"}, ensures={}, returns="str", class_fields=CF))
    cs.append(Contract(target="csvpath/managers/registrar.py::Registrar.distribute_update", interface=True, types={"mdata": "val"},
                       modifies=["self.g_distributed"], ensures={"counted": "self.g_distributed == old(self.g_distributed) + 1"}, returns="none", class_fields=CF,
                       assumptions=["distribute_update hands the metadata to metadata_update, which appends exactly one manifest entry carrying mdata.fingerprint"]))
    last = "self.g_manifest[len(self.g_manifest) - 1]"
    same_version = (f"(len(self.g_manifest) > 0 and {last}.has_fingerprint and {last}.fingerprint == mdata.fingerprint and "
                    f"{last}.has_file_home and {last}.file_home == mdata.file_home)")
    cs.append(Contract(
        target=f"{FR}::FileRegistrar.register_complete",
        types={"mdata": "obj:FileMetadata"},
        requires=["not ('#' in mdata.origin_path)", "mdata.mark is None", "not mdata.origin_path.startswith('s3:')"],
        modifies=["mdata.manifest_path", "mdata.type", "self.g_distributed"],
        raises={"InputException": {"when": "not fs_exists(mdata.origin_path)", "exact": True}},
        ensures={"one_entry_per_change_none_for_a_repeat": f"self.g_distributed == old(self.g_distributed) + (0 if {same_version} else 1)"},
        covers={"repeat_is_skipped": "self.g_distributed == old(self.g_distributed) and len(self.g_manifest) == 2",
                "back_to_an_older_version_is_a_change": "len(self.g_manifest) == 2 and self.g_manifest[0].fingerprint == mdata.fingerprint and "
                                                        "self.g_manifest[0].file_home == mdata.file_home and self.g_distributed == old(self.g_distributed) + 1"},
        class_fields=CF, macros=MACROS, returns="none", native=NATIVE,
        property_clauses={"one_entry_per_change_none_for_a_repeat": "C11"},
        doc={"one_entry_per_change_none_for_a_repeat": "C11: 'the name's manifest gains exactly one entry ... per registration that changes the current version "
                                                       "(different bytes or different source file name) and none for a repeat'"},
        assumptions=["variant: no '#mark' (spreadsheet sheet) and no s3 path"]))
    # ---- add_named_file: what is registered is the file that was copied in, under its name, with the fingerprint of its bytes
    FM = "csvpath/managers/files/file_manager.py"
    CF["FileManager"] = {**CF.get("FileManager", {}), "g_home": "str", "g_hash": "str", "g_rpath": "str", "g_copied_from": "str", "g_copied_to": "str", "g_copies": "int",
                         "registrar": "obj:FileRegistrar", "g_name_home": "str"}
    CF["FileRegistrar"].update({"g_registered": "obj:FileMetadata", "g_register_calls": "int"})
    CF["FileMetadata"].update({"named_file_name": "val", "file_path": "val", "file_name": "val", "archive_name": "val"})

    def iface(target, types, ensures=None, modifies=None, returns="none", why=""):
        cs.append(Contract(target=target, interface=True, types=types, ensures=ensures or {}, modifies=modifies or [], returns=returns, class_fields=CF, assumptions=[why]))
    iface(f"{FM}::FileManager.assure_file_home", {"name": "val", "path": "val"}, returns="str", ensures={"h": "result == self.g_home and '#' not in result"},
          why="assure_file_home(name, path) is inputs/named_files/<name>/<file name>, created if missing (no '#': plain csv variant)")
    iface(f"{FM}::FileManager.named_file_home", {"name": "val"}, returns="str", ensures={"h": "result == self.g_name_home"}, why="named_file_home(name) is inputs/named_files/<name>")
    iface(f"{FM}::FileManager._copy_in", {"path": "str", "home": "str"}, modifies=["self.g_copied_from", "self.g_copied_to", "self.g_copies"],
          ensures={"logged": "self.g_copies == old(self.g_copies) + 1 and self.g_copied_from == path and self.g_copied_to == home"}, returns="val",
          why="_copy_in(path, home) copies the source file's bytes into home (shutil.copy / s3 download: external; bounded in C11.bounded)")
    iface(f"{FM}::FileManager._fingerprint", {"path": "str"}, returns="tuple[str,str]", ensures={"fp": "result[0] == self.g_rpath and result[1] == self.g_hash"},
          why="_fingerprint(home) renames the copied file to <sha256 of its bytes>.<ext> and returns (that path, that hash) (hashlib: external; bounded in C11.bounded)")
    iface("csvpath/csvpaths.py::CsvPaths.config", {}, returns="obj:Config", why="CsvPaths.config is the instance's Config")
    iface("csvpath/util/config.py::Config.archive_name", {}, returns="val", why="Config.archive_name is the last segment of the archive path")
    iface(f"{FR}::FileRegistrar.register_complete", {"mdata": "obj:FileMetadata"}, modifies=["self.g_registered", "self.g_register_calls"],
          ensures={"kept": "self.g_registered is mdata", "n": "self.g_register_calls == old(self.g_register_calls) + 1"}, returns="none",
          why="FileRegistrar.register_complete(mdata) is under its own contract above (one manifest entry per change)")
    cs[-1].variant = "as_a_callee"
    # ---- where a name's files live (the [A] interfaces above are what add_named_file sees; these are the bodies)
    cfh = {**CF, "FileManager": {**CF["FileManager"], "_csvpaths": "obj:CsvPaths"}, "CsvPaths": {**CF.get("CsvPaths", {}), "_config": "obj:Config"},
           "Config": {**CF.get("Config", {}), "_inputs_files_path": "str"}}
    D = "self._csvpaths._config._inputs_files_path"
    inl_h = ["FileManager.named_files_dir", "CsvPaths.config", "Config.inputs_files_path", "FileManager.named_file_home"]
    cs.append(Contract(
        target=f"{FM}::FileManager.named_file_home", variant="body", types={"name": "str"},
        ensures={"the_names_own_directory_under_the_configured_inputs_directory": f"result == path_join({D}, name)"},
        inline=inl_h, class_fields=cfh, macros=MACROS, returns="str", native={"skip": True},
        property_clauses={"the_names_own_directory_under_the_configured_inputs_directory": "C11"}))
    p_nomark = "(path if path.find('#') == -1 else path[0:path.find('#')])"
    fname_h = f"({p_nomark} if {p_nomark}.rfind('/') == -1 else {p_nomark}[{p_nomark}.rfind('/') + 1:])"
    cs.append(Contract(
        target=f"{FM}::FileManager.assure_file_home", variant="body", types={"name": "str", "path": "str"},
        ensures={"a_directory_named_after_the_source_file_inside_the_names_directory": f"result == path_join(path_join({D}, name), {fname_h})"},
        covers={"a_sheet_mark_is_not_part_of_the_name": "'#' in path and '/' in path"},
        inline=inl_h, class_fields=cfh, macros=MACROS, returns="str", native={"skip": True},
        property_clauses={"a_directory_named_after_the_source_file_inside_the_names_directory": "C11"},
        doc={"a_directory_named_after_the_source_file_inside_the_names_directory": "C11 (anchor): versions of one source file name under one name share a directory, "
                                                                                   "<inputs>/<name>/<source file name>; different names never share one"}))
    fname = "(path if path.rfind('/') == -1 else path[path.rfind('/') + 1:])"
    cs.append(Contract(
        target=f"{FM}::FileManager._copy_in", variant="local_file", types={"path": "str", "home": "str"},
        requires=["not path.startswith('s3:')"],
        ensures={"one_private_copy_of_the_source_into_the_names_home": "effects_count('shutil.copy') == 1 and effect_payload('shutil.copy', 0) == path and "
                                                                       f"effect_path('shutil.copy', 0) == path_join(home, {fname})",
                 "returns_where_it_put_it": f"result == path_join(home, {fname})"},
        class_fields=CF, macros=MACROS, returns="str", native={"skip": True},
        property_clauses={"one_private_copy_of_the_source_into_the_names_home": "C11", "returns_where_it_put_it": "C11"},
        doc={"one_private_copy_of_the_source_into_the_names_home": "C11: 'every registered version stays byte-identical' -- the registered bytes are a COPY (shutil.copy) of the source, "
                                                                   "not a link to it, placed in the name's home under the source's file name"}))
    reg = "self.registrar.g_registered"
    cs.append(Contract(
        target=f"{FM}::FileManager.add_named_file", variant="plain_path",
        types={"name": "str", "path": "str", "self.registrar": "obj:FileRegistrar", "self._csvpaths": "obj:CsvPaths", "self.csvpaths": "obj:CsvPaths"},
        requires=["'#' not in path"],
        modifies=["self.g_copied_from", "self.g_copied_to", "self.g_copies", "self.registrar.g_registered", "self.registrar.g_register_calls"],
        ensures={"copies_the_given_file_into_the_names_home_once": "self.g_copies == old(self.g_copies) + 1 and self.g_copied_from == path and self.g_copied_to == self.g_home",
                 "registers_once": "self.registrar.g_register_calls == old(self.registrar.g_register_calls) + 1",
                 "registered_under_the_given_name": f"same({reg}.named_file_name, name) and {reg}.origin_path == path and {reg}.name_home == self.g_name_home",
                 "registered_with_the_fingerprint_of_the_copied_bytes": f"{reg}.fingerprint == self.g_hash and same({reg}.file_path, self.g_rpath) and {reg}.file_home == self.g_home",
                 "no_sheet_mark": f"{reg}.mark is None"},
        stub_new=["FileMetadata"], callee_variants={"FileRegistrar.register_complete": "as_a_callee"},
        class_fields=CF, macros=MACROS, returns="none", native=NATIVE,
        property_clauses={k: "C11" for k in ("copies_the_given_file_into_the_names_home_once", "registers_once", "registered_under_the_given_name",
                                             "registered_with_the_fingerprint_of_the_copied_bytes")},
        doc={"registered_with_the_fingerprint_of_the_copied_bytes": "C11: 'the stored file is named by the sha256 of its bytes ... the manifest ... carrying that fingerprint'"}))
    return cs


def bounded(tier, seed):
    return [{"name": "C11.bounded", "script": "native/bounded_C11.py", "timeout": 3000,
             "scope": "every operation sequence of length <=2 and 1500 (thorough 20000) seeded random sequences of each length 3..4 (thorough ..5) over "
                      "{add(name in 2, source in 2 (one.csv, and two without an extension), content in 3), mutate source, remove(name), new instance}, against the abstract view name -> versions"}]


LEVEL = "other"
EXPLANATION = ("Proved: FileManager.add_named_file copies the given file in once and registers it once under the given name with the fingerprint of the copied bytes; FileRegistrar.register_complete distributes (appends) exactly one manifest entry per change of the CURRENT version and none for a repeat "
               "(comparison with the last entry only; witness clauses make 'back to an older version' a change). Bounded: operation sequences on the real "
               "FileManager against the abstract view the property gives (content addressing, immutability, fresh-instance agreement).")
ASSUMPTIONS = ["shutil.copy / os.rename / hashlib are external; _copy_in[local_file] is proved to make exactly one shutil.copy of the source into the name's home "
               "(effect log); the body of _fingerprint (hashlib, os.rename) is covered only by the bounded sequences"]
