"""C01 -- returned lines are exactly the scanned lines that satisfy the match part.

Chain (innermost last): CsvPath.next / _consider_line (core) -> Matcher.matches (core) -> Expression.matches (control) -> Equality.matches (dispatch)
-> _do_equality / _do_when / _do_assignment (C14) -> Variable / Function wrappers -> leaf functions against the documented operator."""
from pyvc.contract import Contract
from . import core, shared, control
from .core import CF, MACROS
USES = ["shared"]

EQ = "csvpath/matching/productions/equality.py"
VAR = "csvpath/matching/productions/variable.py"
FN = "csvpath/matching/functions"
MATCHABLE = "csvpath/matching/productions/matchable.py"
EU = "csvpath/matching/util/expression_utility.py"

CF["Equality"].update({"op": "optstr", "DO_WHEN": "val", "sentinel": "bool", "g_assign_calls": "int", "g_when_calls": "int", "g_equality_calls": "int", "g_branch_vote": "optbool"})
CF["Matchable"].update({"g_nocontrib": "bool", "g_name_qualifier": "optstr"})

P_DO = "def patch(self, *, skip=None):\n    self.%s += 1\n    return self.g_branch_vote\n"
NATIVE = {"patches": {**shared.NATIVE_PATCHES, "csvpath.matching.matcher.Matcher._what": shared.P_WHAT,
                      "csvpath.matching.productions.equality.Equality._left_nocontrib": "def patch(self, m):\n    return m.g_nocontrib\n",
                      "csvpath.matching.productions.qualified.Qualified.first_non_term_qualifier": "def patch(self, default=None):\n    return self.g_name_qualifier if self.g_name_qualifier is not None else default\n"},
          "spec_funs": {**shared.SPEC_FUNS,
                        "is_empty": "def fun(v):\n    m = importlib.import_module('csvpath.matching.util.expression_utility')\n    return m.ExpressionUtility.is_empty(v)\n"},
          "defaults": {"Matchable": {"children": [], "qualified_name": "stub", "_qualifiers": [], "name": "stub", "value": None, "match": None}, "CsvPath": {"metadata": {}}}}
NATIVE_DISPATCH = {**NATIVE, "patches": {**NATIVE["patches"],
                                         "csvpath.matching.productions.equality.Equality._do_assignment": P_DO % "g_assign_calls",
                                         "csvpath.matching.productions.equality.Equality._do_when": P_DO % "g_when_calls",
                                         "csvpath.matching.productions.equality.Equality._do_equality": P_DO % "g_equality_calls"}}
INL = control.INL + ["Equality.left", "Equality.right", "Qualified.asbool", "Qualified.onmatch", "Qualified.has_qualifier"]


def interfaces():
    cs = []
    cs.append(Contract(
        target=f"{EU}::ExpressionUtility.is_none", interface=True, variant="of_a_number", types={"v": "optnum"},
        ensures={"only_none": "result == (v is None)"}, returns="bool", class_fields=CF,
        assumptions=["ExpressionUtility.is_none(v) for v None or a (non-NaN) number is (v is None); its string cases are bounded in C01.bounded"]))
    cs.append(Contract(
        target="csvpath/matching/productions/qualified.py::Qualified.first_non_term_qualifier", interface=True, types={"default": "val"},
        ensures={"name_qualifier_or_default": "same(result, self.g_name_qualifier if self.g_name_qualifier is not None else default)"},
        returns="val", class_fields=CF,
        assumptions=["first_non_term_qualifier(default) is the component's first qualifier that is not a well-known one, else the default"]))
    for nm, ghost in (("_do_assignment", "g_assign_calls"), ("_do_when", "g_when_calls"), ("_do_equality", "g_equality_calls")):
        cs.append(Contract(
            target=f"{EQ}::Equality.{nm}", interface=True, variant="as_a_branch", types={"skip": "val"}, modifies=[f"self.{ghost}"],
            ensures={"counted": f"self.{ghost} == old(self.{ghost}) + 1", "vote": "same(result, self.g_branch_vote)"}, returns="optbool", class_fields=CF,
            assumptions=[f"Equality.{nm} is under its own contract ({'C14' if nm == '_do_assignment' else 'this module'}); here only the dispatch is checked"]))
    cs.append(Contract(
        target=f"{EQ}::Equality._left_nocontrib", interface=True, types={"m": "obj:Matchable"},
        ensures={"flag": "result == m.g_nocontrib"}, returns="bool", class_fields=CF,
        assumptions=["Equality._left_nocontrib(m) tells whether the left-most component under m carries the nocontrib qualifier (recursion over nested equalities)"]))
    cs.append(Contract(
        target="csvpath/matching/functions/function.py::Function.override_frozen", interface=True, types={},
        ensures={}, returns="bool", class_fields=CF, assumptions=["Function.override_frozen() has no effect on the store"]))
    return cs


FUNC = "csvpath/matching/functions/function.py"
CF["Function"] = {**CF.get("Function", {}), "g_frozen": "bool", "g_do_onmatch": "bool", "g_decision": "optbool", "g_decide_calls": "int", "g_decide_raises": "bool",
                  "match": "optbool", "args": "obj:Args", "g_handled": "int"}
CF["Args"] = {"matched": "bool", "_args_match": "optbool"}
P_DECIDE = ("def patch(self, skip=None):\n    self.g_decide_calls += 1\n    if self.g_decide_raises:\n        raise ValueError('component failed')\n"
            "    self.match = self.g_decision\n")
NATIVE_FN = {**NATIVE, "skip": True}


def function_wrapper():
    cs = []
    cs.append(Contract(target="csvpath/matching/productions/qualified.py::Qualified.do_frozen", interface=True, types={}, ensures={"flag": "result == self.g_frozen"},
                       returns="bool", class_fields=CF, assumptions=["do_frozen() is True exactly when the run is ending and the function does not override the freeze"]))
    cs.append(Contract(target="csvpath/matching/productions/qualified.py::Qualified.do_onmatch", interface=True, types={}, ensures={"flag": "result == self.g_do_onmatch"},
                       returns="bool", class_fields=CF, assumptions=["do_onmatch() is True unless the onmatch qualifier is set and the rest of the line does not match (C14/C16)"]))
    cs.append(Contract(target=f"{FUNC}::Function._decide_match", interface=True, types={"skip": "val"}, modifies=["self.match", "self.g_decide_calls"],
                       raises={"Exception": {"when": "self.g_decide_raises", "exact": True}},
                       ensures={"decides": "same(self.match, self.g_decision)", "counted": "self.g_decide_calls == old(self.g_decide_calls) + 1"},
                       ensures_exc={"counted_too": "self.g_decide_calls == old(self.g_decide_calls) + 1", "no_vote_when_raising": "same(self.match, old(self.match))"},
                       returns="none", class_fields=CF, assumptions=["a function's _decide_match sets self.match to its decision for the line, or raises before casting a vote (leaf contracts: this module, C03, C13, C04, C16)"]))
    cs.append(Contract(target="csvpath/matching/productions/expression.py::Expression.handle_error", interface=True, types={"error": "val"}, modifies=["self.g_handled"],
                       ensures={"kept": "self.g_handled == old(self.g_handled) + 1"}, returns="none", class_fields={**CF, "Expression": {**CF.get("Expression", {}), "g_handled": "int"}},
                       assumptions=["Expression.handle_error keeps the error for the error policy (C05)"]))
    cs.append(Contract(target="csvpath/matching/productions/matchable.py::Matchable.my_expression", interface=True, types={}, ensures={"mine": "result is self.g_expression"},
                       returns="expr:self.g_expression", class_fields={**CF, "Matchable": {**CF["Matchable"], "g_expression": "obj:Expression"}},
                       assumptions=["my_expression is the Expression at the top of this component's chain of parents"]))
    cs.append(Contract(target="csvpath/matching/productions/matchable.py::Matchable.to_json", interface=True, types={}, ensures={}, returns="str", class_fields=CF,
                       assumptions=["to_json renders the component for the error record"]))
    cfx = {**CF, "Expression": {**CF.get("Expression", {}), "g_handled": "int"}, "Matchable": {**CF["Matchable"], "g_expression": "obj:Expression"}}
    runs = "(not self.g_frozen and old(self.match) is None and self.g_do_onmatch)"
    cs.append(Contract(
        target=f"{FUNC}::Function.matches", variant="validated_arguments",
        types={"skip": "none", "self.match": "optbool", "self.args": "obj:Args", "self.args.matched": "bool", "self.args._args_match": "optbool", "self.g_expression": "obj:Expression"},
        requires=["self.args.matched", "self.args._args_match is True"],
        modifies=["self.match", "self.g_decide_calls", "self.g_expression.g_handled"],
        ensures={"decides_exactly_once_per_line": "self.g_decide_calls == old(self.g_decide_calls) + (1 if %s else 0)" % runs,
                 "vote_is_the_decision": "implies(%s and not self.g_decide_raises, same(result, self.g_decision))" % runs,
                 "memoised_per_line": "implies(not self.g_frozen and old(self.match) is not None, same(result, old(self.match)))",
                 "onmatch_unmet_gives_the_neutral_vote": "implies(not self.g_frozen and old(self.match) is None and not self.g_do_onmatch, result == self.matcher._AND)",
                 "an_error_below_is_handed_to_the_expression_and_does_not_match": "implies(%s and self.g_decide_raises, self.g_expression.g_handled == old(self.g_expression.g_handled) + 1 and not truthy(result))" % runs,
                 "no_error_no_report": "implies(not (%s and self.g_decide_raises), self.g_expression.g_handled == old(self.g_expression.g_handled))" % runs},
        covers={"decided_false": "%s and result is False" % runs},
        returns="optbool", class_fields=cfx, macros=MACROS, native=NATIVE_FN, extra_attrs={"Function": ["FOCUS"]},
        inline=control.INL + ["Matchable._noop_value", "Matchable._noop_match", "CsvPath.stop_on_validation_errors", "CsvPath.fail_on_validation_errors", "CsvPath.match_validation_errors"],
        property_clauses={"decides_exactly_once_per_line": "C01,C03", "vote_is_the_decision": "C01", "memoised_per_line": "C01",
                          "onmatch_unmet_gives_the_neutral_vote": "C01", "an_error_below_is_handed_to_the_expression_and_does_not_match": "C01,C05"},
        doc={"decides_exactly_once_per_line": "C01: 'Each such line is returned once' rests on every component deciding once per line (memoised vote); C03: side effects happen once per line"}))
    return cs


def equality_contracts():
    cs = []
    base = dict(class_fields=CF, macros=MACROS, native=NATIVE, inline=INL)
    two = {"skip": "none", "self.children": "fixed[obj:Matchable,obj:Matchable]"}
    lv, rv = "self.children[0].g_value", "self.children[1].g_value"
    # ---- '==' : the documented equality test
    cs.append(Contract(
        target=f"{EQ}::Equality._do_equality", types={**two, "self.children.0.g_value": "scalar", "self.children.1.g_value": "scalar"},
        modifies=["self.children.0.g_to_value_calls", "self.children.1.g_to_value_calls"],
        ensures={"equal_as_written_or_as_values": "result == (strip(str_of(%s)) == strip(str_of(%s)) or %s == %s)" % (lv, rv, lv, rv),
                 },
        covers={"number_equals_its_text": "same(%s, 5) and same(%s, '5') and result" % (lv, rv), "different": "not result"},
        returns="bool", property_clauses={"equal_as_written_or_as_values": "C01"},
        **{"native": {**NATIVE, "examples": [{"self.children.0.g_value": "Ann", "self.children.1.g_value": "ann"}, {"self.children.0.g_value": "05", "self.children.1.g_value": 5},
                                             {"self.children.0.g_value": "5.0", "self.children.1.g_value": 5}, {"self.children.0.g_value": " x ", "self.children.1.g_value": "x"},
                                             {"self.children.0.g_value": "true", "self.children.1.g_value": True}]}},
        doc={"equal_as_written_or_as_values": "C01: \"'==' ... under their documented meaning\"; a header cell is text, so 5 == '5' holds (string forms), and equal values are equal"},
        **{k: v for k, v in base.items() if k != "native"}))
    # ---- '->' : when/do
    lm = "self.children[0].g_match"
    cs.append(Contract(
        target=f"{EQ}::Equality._do_when", types={**two, "self.op": "str", "self.sentinel": "bool"},
        requires=["self.op == '->'", "not isinstance(self.children[0], Function)"],
        modifies=["self.sentinel", "self.DO_WHEN", "self.children.0.g_matches_calls", "self.children.1.g_matches_calls"],
        ensures={"right_side_runs_iff_the_left_side_matched": "implies(not old(self.sentinel), self.children[1].g_matches_calls == old(self.children[1].g_matches_calls) + (1 if %s is True else 0))" % lm,
                 "at_most_once_per_line": "implies(old(self.sentinel), self.children[1].g_matches_calls == old(self.children[1].g_matches_calls) and "
                                          "self.children[0].g_matches_calls == old(self.children[0].g_matches_calls)) and self.sentinel",
                 "vote_is_the_left_sides_vote": "implies(not old(self.sentinel) and not self.children[0].g_nocontrib, result == (%s is True))" % lm,
                 "nocontrib_left_side_is_neutral_in_and_mode": "implies(not old(self.sentinel) and self.children[0].g_nocontrib and self.matcher._AND, result == True)"},
        covers={"fires": "%s is True and self.children[1].g_matches_calls == old(self.children[1].g_matches_calls) + 1" % lm},
        returns="optbool", callee_variants={"Matchable.matches": ""},
        property_clauses={"right_side_runs_iff_the_left_side_matched": "C01,C03", "at_most_once_per_line": "C01,C03", "vote_is_the_left_sides_vote": "C01",
                          "nocontrib_left_side_is_neutral_in_and_mode": "C01"},
        doc={"right_side_runs_iff_the_left_side_matched": "C01: \"'->' ... under their documented meaning\": the right-hand side is executed when, and only when, the left-hand side matches"},
        **base))
    # ---- dispatch
    for variant, req, ghost in (("assignment", ["isinstance(self.children[0], Variable)", "self.op == '='"], "g_assign_calls"),
                                ("when_do", ["self.op == '->'"], "g_when_calls"),
                                ("equality_test", ["self.op == '=='"], "g_equality_calls")):
        others = [g for g in ("g_assign_calls", "g_when_calls", "g_equality_calls") if g != ghost]
        cs.append(Contract(
            target=f"{EQ}::Equality.matches", variant=variant,
            types={"skip": "none", "self.children": "fixed[obj:Variable,obj:Matchable]" if variant == "assignment" else "fixed[obj:Matchable,obj:Matchable]",
                   "self.op": "str", "self.match": "optbool"},
            requires=req, modifies=["self.match", "self.g_assign_calls", "self.g_when_calls", "self.g_equality_calls"],
            ensures={"dispatches_to_the_right_reading_once_per_line": "self.%s == old(self.%s) + (1 if old(self.match) is None else 0) and " % (ghost, ghost) +
                                                                      " and ".join(f"self.{g} == old(self.{g})" for g in others),
                     "vote_is_that_readings_vote": "implies(old(self.match) is None, same(result, self.g_branch_vote))",
                     "memoised_per_line": "implies(old(self.match) is not None, same(result, old(self.match)))"},
            returns="optbool",
            callee_variants={"Equality._do_assignment": "as_a_branch", "Equality._do_when": "as_a_branch", "Equality._do_equality": "as_a_branch"},
            property_clauses={"dispatches_to_the_right_reading_once_per_line": "C01", "vote_is_that_readings_vote": "C01", "memoised_per_line": "C01"},
            **{**base, "native": NATIVE_DISPATCH}))
    return cs


def leaf_contracts():
    cs = []
    base = dict(class_fields=CF, macros=MACROS, native=NATIVE, inline=INL)
    # ---- above()/below() family: the documented operators
    names = ["gt", "above", "after", "gte", "lt", "below", "before", "lte"]
    in_names = " or ".join(f"self.name == '{n}'" for n in names)
    strict_above = "(self.name == 'gt' or self.name == 'above' or self.name == 'after')"
    strict_below = "(self.name == 'lt' or self.name == 'below' or self.name == 'before')"
    for fn, typ in (("_try_numbers", "num"), ("_try_strings", "str")):
        pre = [in_names] + (["a == strip(a)", "b == strip(b)"] if typ == "str" else [])
        cs.append(Contract(
            target=f"{FN}/math/above.py::AboveBelow.{fn}", types={"a": typ, "b": typ, "self.name": "str"}, requires=pre,
            ensures={"strictly_above": "implies(%s, result == (a > b))" % strict_above,
                     "above_or_equal": "implies(self.name == 'gte', result == (a >= b))",
                     "strictly_below_for_different_operands": "implies(%s and a != b, result == (a < b))" % strict_below,
                     "strictly_below_is_false_for_equal_operands": "implies(%s and a == b, result == False)" % strict_below,
                     "below_or_equal": "implies(self.name == 'lte', result == (a <= b))"},
            covers={"equal_operands": "a == b and %s" % strict_below},
            returns="bool", inline=INL + ["AboveBelow._above"],
            property_clauses={"strictly_above": "C01", "above_or_equal": "C01", "strictly_below_for_different_operands": "C01",
                              "strictly_below_is_false_for_equal_operands": "C01", "below_or_equal": "C01"},
            doc={"strictly_below_is_false_for_equal_operands": "C01: 'the documented ... comparison ... functions'; above.md: 'they implement the > and < operators as functions'"},
            **{k: v for k, v in base.items() if k != "inline"}))
    # ---- not(), and(), or(), yes(), no()
    one = {"skip": "none", "self.children": "fixed[obj:Matchable]", "self.match": "val"}
    cs.append(Contract(
        target=f"{FN}/boolean/notf.py::Not._decide_match", types=one, modifies=["self.match", "self.children.0.g_matches_calls"],
        ensures={"inverse_of_the_contained_vote": "self.match == (not truthy(self.children[0].g_match))"}, returns="none",
        callee_variants={"Matchable.matches": ""}, property_clauses={"inverse_of_the_contained_vote": "C01"}, **base))
    cs.append(Contract(
        target=f"{FN}/boolean/yes.py::Yes._decide_match", types={"skip": "none", "self.match": "val"}, modifies=["self.match"],
        ensures={"always_true": "self.match is True"}, returns="none", property_clauses={"always_true": "C01"}, **base))
    cs.append(Contract(
        target=f"{FN}/boolean/no.py::No._decide_match", types={"skip": "none", "self.match": "val"}, modifies=["self.match"],
        ensures={"always_false": "self.match is False"}, returns="none", property_clauses={"always_false": "C01"}, **base))
    n = "len(self.children[0].children)"
    kids = {"skip": "none", "self.children": "fixed[obj:Equality]", "self.children.0.children": "objlist[Matchable]", "self.children.0.op": "str", "self.match": "val"}
    cs.append(Contract(
        target=f"{FN}/boolean/andf.py::And._decide_match", types=kids, requires=["self.children[0].op == ','", "%s >= 1" % n],
        modifies=["self.match", "self.children.0.children"],
        ensures={"conjunction_of_the_arguments": "truthy(self.match) == forall_int(0, %s, lambda k: truthy(self.children[0].children[k].g_match))" % n},
        invariants={0: ["forall_int(0, _i0, lambda k: truthy(self.children[0].children[k].g_match))",
                        "implies(_i0 > 0, same(self.match, self.children[0].children[_i0 - 1].g_match))",
                        "forall_int(lambda k: same(self.children[0].children[k].g_match, old(self.children[0].children[k].g_match)))"]},
        loop_havoc={0: ["self.children.0.children[*].g_matches_calls"]},
        returns="none", callee_variants={"Matchable.matches": ""}, inline=INL + ["Equality.commas_to_list"],
        property_clauses={"conjunction_of_the_arguments": "C01"}, **{k: v for k, v in base.items() if k != "inline"}))
    cs.append(Contract(
        target=f"{FN}/boolean/orf.py::Or._decide_match", types={**kids, "self.hold": "fixed[]"}, requires=["self.children[0].op == ','", "%s >= 1" % n],
        modifies=["self.match", "self.children.0.children", "self.hold"],
        ensures={"disjunction_of_the_arguments": "(self.match is True) == exists_int(0, %s, lambda k: truthy(self.children[0].children[k].g_match))" % n,
                 "a_bool": "self.match is True or self.match is False"},
        invariants={0: ["forall_int(0, _i0, lambda k: not truthy(self.children[0].children[k].g_match))",
                        "forall_int(lambda k: same(self.children[0].children[k].g_match, old(self.children[0].children[k].g_match)))"]},
        loop_havoc={0: ["self.children.0.children[*].g_matches_calls"]},
        returns="none", callee_variants={"Matchable.matches": ""}, inline=INL + ["Equality.commas_to_list"],
        property_clauses={"disjunction_of_the_arguments": "C01"}, **{k: v for k, v in base.items() if k != "inline"}))
    # ---- length(), exists(), empty()
    cs.append(Contract(
        target=f"{FN}/strings/length.py::Length._produce_value", types={"skip": "none", "self.children": "fixed[obj:Matchable]", "self.value": "val", "self.children.0.g_value": "optstr"},
        modifies=["self.value", "self.children.0.g_to_value_calls"],
        ensures={"number_of_characters": "self.value == (0 if self.children[0].g_value is None else len(self.children[0].g_value))"},
        returns="none", property_clauses={"number_of_characters": "C01"}, **base))
    # ---- arithmetic and strings (two-argument forms; the argument list is the fixed pair the parser builds)
    pair = {"skip": "none", "self.children": "fixed[obj:Equality]", "self.children.0.children": "fixed[obj:Matchable,obj:Matchable]", "self.children.0.op": "str", "self.value": "val"}
    a_, b_ = "self.children[0].children[0].g_value", "self.children[0].children[1].g_value"
    pmods = ["self.value", "self.children.0.children.0.g_to_value_calls", "self.children.0.children.1.g_to_value_calls"]
    num0 = lambda x: "(0 if %s is None else %s)" % (x, x)
    cs.append(Contract(
        target=f"{FN}/math/add.py::Add._produce_value", variant="two_numbers",
        types={**pair, "self.children.0.children.0.g_value": "optnum", "self.children.0.children.1.g_value": "optnum"}, requires=["self.children[0].op == ','"], modifies=pmods,
        ensures={"sum_of_the_arguments_none_counting_as_zero": "self.value == %s + %s" % (num0(a_), num0(b_))},
        returns="none", inline=INL + ["Equality.commas_to_list"], callee_variants={"ExpressionUtility.is_none": "of_a_number"},
        property_clauses={"sum_of_the_arguments_none_counting_as_zero": "C01"}, **{k: v for k, v in base.items() if k != "inline"}))
    cs.append(Contract(
        target=f"{FN}/math/subtract.py::Subtract._produce_value", variant="two_numbers",
        types={**pair, "self.children.0.children.0.g_value": "num", "self.children.0.children.1.g_value": "num"}, requires=["self.children[0].op == ','"], modifies=pmods,
        ensures={"first_argument_minus_the_second": "self.value == %s - %s" % (a_, b_)},
        returns="none", inline=INL + ["Equality.commas_to_list", "Subtract._do_sub"],
        property_clauses={"first_argument_minus_the_second": "C01"}, **{k: v for k, v in base.items() if k != "inline"}))
    cs.append(Contract(
        target=f"{FN}/math/multiply.py::Multiply._produce_value", variant="two_numbers",
        types={**pair, "self.children.0.children.0.g_value": "optnum", "self.children.0.children.1.g_value": "optnum"}, requires=["self.children[0].op == ','"], modifies=pmods,
        ensures={"product_of_the_arguments": "implies(%s is not None and %s is not None, self.value == %s * %s)" % (a_, b_, a_, b_),
                 "none_makes_zero": "implies(%s is None or %s is None, self.value == 0)" % (a_, b_)},
        returns="none", inline=INL + ["Equality.commas_to_list"],
        property_clauses={"product_of_the_arguments": "C01"}, **{k: v for k, v in base.items() if k != "inline"}))
    cs.append(Contract(
        target=f"{FN}/strings/concat.py::Concat._produce_value", variant="two_values",
        types={**pair, "self.children.0.children.0.g_value": "scalar", "self.children.0.children.1.g_value": "scalar"}, requires=["self.children[0].op == ','"], modifies=pmods,
        ensures={"the_arguments_as_text_in_order": "self.value == str_of(%s) + str_of(%s)" % (a_, b_)},
        returns="none", inline=INL + ["Equality.commas_to_list"],
        property_clauses={"the_arguments_as_text_in_order": "C01"}, **{k: v for k, v in base.items() if k != "inline"}))
    cs.append(Contract(
        target=f"{FN}/strings/substring.py::Substring._produce_value",
        types={**pair, "self.children.0.children.0.g_value": "scalar", "self.children.0.children.1.g_value": "int"}, modifies=pmods,
        raises={"DataException": {"when": "%s < 0" % b_, "exact": True}},
        ensures={"the_first_n_characters_of_the_text": "self.value == (str_of(%s) if %s >= len(str_of(%s)) else str_of(%s)[0:%s])" % (a_, b_, a_, a_, b_)},
        covers={"cuts": "self.value == 'ab' and %s == 2" % b_},
        returns="none", inline=INL + ["Matchable._value_one", "Matchable._value_two", "Matchable._child_one", "Matchable._child_two", "Equality.left", "Equality.right"],
        property_clauses={"the_first_n_characters_of_the_text": "C01", "raises:DataException.must": "C01", "raises:DataException.only_when": "C01"},
        **{k: v for k, v in base.items() if k != "inline"}))
    cs.append(Contract(
        target=f"{FN}/strings/starts_with.py::StartsWith._produce_value",
        types={**pair, "self.children.0.children.0.g_value": "scalar", "self.children.0.children.1.g_value": "scalar"}, modifies=pmods,
        ensures={"prefix_test_on_the_stripped_text": "self.value == strip(str_of(%s)).startswith(strip(str_of(%s)))" % (a_, b_)},
        returns="none", property_clauses={"prefix_test_on_the_stripped_text": "C01"}, **base))
    one_v = {"skip": "none", "self.children": "fixed[obj:Matchable]", "self.value": "val", "self.children.0.g_value": "scalar"}
    omods = ["self.value", "self.children.0.g_to_value_calls"]
    cs.append(Contract(
        target=f"{FN}/strings/strip.py::Strip._produce_value", types=one_v, modifies=omods,
        ensures={"text_without_surrounding_blanks": "self.value == strip(str_of(self.children[0].g_value))"},
        returns="none", property_clauses={"text_without_surrounding_blanks": "C01"}, **base))
    for cls, fn, meth in (("Lower", "lower", "lower"), ("Upper", "upper", "upper")):
        cs.append(Contract(
            target=f"{FN}/strings/{fn}.py::{cls}._produce_value", types=one_v, modifies=omods,
            ensures={"case_mapped_text_of_the_argument": "self.value == str_of(self.children[0].g_value).%s()" % meth},
            returns="none", property_clauses={"case_mapped_text_of_the_argument": "C01"}, **base,
            assumptions=["str.lower()/upper() are uninterpreted: the clause pins down WHICH text is mapped (the argument's string form), not the mapping"]))
    # ---- between()/inside()/range()/beyond(): the ordering core, for numbers (floats of the three arguments) and for stripped strings
    bt_names = ["between", "inside", "from_to", "range", "beyond", "outside"]
    lo_, hi_ = "(a if a <= b else b)", "(a if a >= b else b)"
    for typ in ("num", "str"):
        cs.append(Contract(
            target=f"{FN}/boolean/between.py::Between._order", variant=f"of_{typ}", types={"me": typ, "a": typ, "b": typ, "self.name": "str"},
            requires=[" or ".join(f"self.name == '{n}'" for n in bt_names)],
            ensures={"strictly_between_the_bounds_in_either_order": "implies(self.name == 'between' or self.name == 'inside', result == (%s < me and me < %s))" % (lo_, hi_),
                     "inclusive_for_range": "implies(self.name == 'range' or self.name == 'from_to', result == (%s <= me and me <= %s))" % (lo_, hi_),
                     "strictly_outside_the_bounds": "implies(self.name == 'beyond' or self.name == 'outside', result == (me < %s or me > %s))" % (lo_, hi_)},
            covers={"bounds_given_high_to_low": "a > b and result == True and self.name == 'between'", "on_a_bound": "me == a and self.name == 'range' and result == True"},
            returns="bool", inline=INL + ["Between._compare", "Between._between"],
            property_clauses={"strictly_between_the_bounds_in_either_order": "C01", "inclusive_for_range": "C01", "strictly_outside_the_bounds": "C01"},
            doc={"strictly_between_the_bounds_in_either_order": "between.md: between(me, a, b) is exclusive and the bounds may come in either order; range/from_to include the bounds"},
            **{k: v for k, v in base.items() if k != "inline"}))
    sm, sa, sb = "strip(str_of(me))", "strip(a)", "strip(b)"
    slo, shi = "(%s if %s <= %s else %s)" % (sa, sa, sb, sb), "(%s if %s >= %s else %s)" % (sa, sa, sb, sb)
    cs.append(Contract(
        target=f"{FN}/boolean/between.py::Between._try_strings", types={"me": "str", "a": "str", "b": "str", "self.name": "str"},
        requires=[" or ".join(f"self.name == '{n}'" for n in bt_names)],
        ensures={"compares_the_stripped_texts_strictly_between": "implies(self.name == 'between' or self.name == 'inside', result == (%s < %s and %s < %s))" % (slo, sm, sm, shi),
                 "compares_the_stripped_texts_inclusive_for_range": "implies(self.name == 'range' or self.name == 'from_to', result == (%s <= %s and %s <= %s))" % (slo, sm, sm, shi),
                 "compares_the_stripped_texts_strictly_outside": "implies(self.name == 'beyond' or self.name == 'outside', result == (%s < %s or %s > %s))" % (sm, slo, sm, shi)},
        returns="bool", callee_variants={"Between._order": "of_str"},
        property_clauses={"compares_the_stripped_texts_strictly_between": "C01", "compares_the_stripped_texts_inclusive_for_range": "C01", "compares_the_stripped_texts_strictly_outside": "C01"},
        **base))
    cs.append(Contract(
        target=f"{FN}/boolean/between.py::Between._try_numbers", types={"me": "num", "a": "num", "b": "num", "self.name": "str"},
        requires=[" or ".join(f"self.name == '{n}'" for n in bt_names)],
        ensures={"numbers_strictly_between": "implies(self.name == 'between' or self.name == 'inside', result == (%s < me and me < %s))" % (lo_, hi_),
                 "numbers_inclusive_for_range": "implies(self.name == 'range' or self.name == 'from_to', result == (%s <= me and me <= %s))" % (lo_, hi_),
                 "numbers_strictly_outside": "implies(self.name == 'beyond' or self.name == 'outside', result == (me < %s or me > %s))" % (lo_, hi_),
                 "numbers_always_decide": "result is not None"},
        returns="optbool", callee_variants={"Between._order": "of_num"},
        property_clauses={"numbers_strictly_between": "C01", "numbers_inclusive_for_range": "C01", "numbers_strictly_outside": "C01", "numbers_always_decide": "C01"},
        **base))
    tri = {"skip": "none", "self.children": "fixed[obj:Equality]", "self.children.0.children": "fixed[obj:Matchable,obj:Matchable,obj:Matchable]", "self.children.0.op": "str",
           "self.match": "val", "self.name": "str"}
    g3 = ["self.children[0].children[%d].g_value" % k for k in range(3)]
    cs.append(Contract(
        target=f"{FN}/boolean/between.py::Between._decide_match", variant="three_numbers",
        types={**tri, **{"self.children.0.children.%d.g_value" % k: "optnum" for k in range(3)}},
        requires=["self.children[0].op == ','", " or ".join(f"self.name == '{n}'" for n in bt_names)],
        modifies=["self.match"] + ["self.children.0.children.%d.g_to_value_calls" % k for k in range(3)],
        ensures={"a_missing_argument_does_not_match": "implies(%s is None or %s is None or %s is None, self.match is False)" % tuple(g3),
                 "numbers_strictly_between": "implies(self.children[0].children[0].g_value is not None and self.children[0].children[1].g_value is not None and self.children[0].children[2].g_value is not None and (self.name == 'between' or self.name == 'inside'), self.match == ((self.children[0].children[1].g_value if self.children[0].children[1].g_value <= self.children[0].children[2].g_value else self.children[0].children[2].g_value) < self.children[0].children[0].g_value and self.children[0].children[0].g_value < (self.children[0].children[1].g_value if self.children[0].children[1].g_value >= self.children[0].children[2].g_value else self.children[0].children[2].g_value)))",
                 "numbers_inclusive_for_range": "implies(self.children[0].children[0].g_value is not None and self.children[0].children[1].g_value is not None and self.children[0].children[2].g_value is not None and (self.name == 'range' or self.name == 'from_to'), self.match == ((self.children[0].children[1].g_value if self.children[0].children[1].g_value <= self.children[0].children[2].g_value else self.children[0].children[2].g_value) <= self.children[0].children[0].g_value and self.children[0].children[0].g_value <= (self.children[0].children[1].g_value if self.children[0].children[1].g_value >= self.children[0].children[2].g_value else self.children[0].children[2].g_value)))",
                 "numbers_strictly_outside": "implies(self.children[0].children[0].g_value is not None and self.children[0].children[1].g_value is not None and self.children[0].children[2].g_value is not None and (self.name == 'beyond' or self.name == 'outside'), self.match == (self.children[0].children[0].g_value < (self.children[0].children[1].g_value if self.children[0].children[1].g_value <= self.children[0].children[2].g_value else self.children[0].children[2].g_value) or self.children[0].children[0].g_value > (self.children[0].children[1].g_value if self.children[0].children[1].g_value >= self.children[0].children[2].g_value else self.children[0].children[2].g_value)))"},
        returns="none", inline=INL + ["Matchable.siblings", "Equality.commas_to_list"],
        property_clauses={"a_missing_argument_does_not_match": "C01", "numbers_strictly_between": "C01", "numbers_inclusive_for_range": "C01", "numbers_strictly_outside": "C01"}, **{k: v for k, v in base.items() if k != "inline"}))
    # ---- equals(a, b) on two numbers
    cs.append(Contract(
        target=f"{FN}/math/equals.py::Equals._decide_match", variant="two_numbers",
        types={"skip": "none", "self.children": "fixed[obj:Equality]", "self.children.0.children": "fixed[obj:Matchable,obj:Matchable]", "self.children.0.op": "str", "self.match": "val",
               "self.children.0.children.0.g_value": "num", "self.children.0.children.1.g_value": "num"},
        modifies=["self.match", "self.children.0.children.0.g_to_value_calls", "self.children.0.children.1.g_to_value_calls"],
        ensures={"numeric_equality": "self.match == (%s == %s)" % (a_, b_)},
        covers={"zero_equals_zero": "%s == 0 and self.match == True" % a_},
        returns="none", inline=INL + ["Equality.left", "Equality.right", "Equals._is_float"],
        property_clauses={"numeric_equality": "C01"}, **{k: v for k, v in base.items() if k != "inline"}))
    cs.append(Contract(
        target=f"{FN}/math/equals.py::Equals._decide_match", variant="two_texts",
        types={"skip": "none", "self.children": "fixed[obj:Equality]", "self.children.0.children": "fixed[obj:Matchable,obj:Matchable]", "self.children.0.op": "str", "self.match": "val",
               "self.children.0.children.0.g_value": "str", "self.children.0.children.1.g_value": "str"},
        modifies=["self.match", "self.children.0.children.0.g_to_value_calls", "self.children.0.children.1.g_to_value_calls"],
        ensures={"a_blank_never_equals_a_non_blank": "implies((%s == '') != (%s == ''), self.match is False)" % (a_, b_),
                 "different_texts_are_equal_only_as_numbers": "implies(%s != %s and self.match is True, float_of(%s) == float_of(%s))" % (a_, b_, a_, b_),
                 "a_bool": "self.match is True or self.match is False"},
        covers={"same_text": "%s == 'ab' and %s == 'ab' and self.match is True" % (a_, b_)},
        returns="none", inline=INL + ["Equality.left", "Equality.right", "Equals._is_float"],
        property_clauses={"a_blank_never_equals_a_non_blank": "C01", "different_texts_are_equal_only_as_numbers": "C01"}, **{k: v for k, v in base.items() if k != "inline"},
        assumptions=["float(text) is an uninterpreted function of the text with an uninterpreted 'parses' predicate: 'nan'/'inf' texts are not distinguished (equals('nan','nan') is False natively)"]))
    # ---- min_length()/max_length() (aliases too_long/too_short): at least / at most n characters
    cs.append(Contract(
        target=f"{FN}/strings/length.py::MinMaxLength.to_value",
        types={**pair, "self.name": "str", "self.children.0.children.0.g_value": "str", "self.children.0.children.1.g_value": "int"},
        requires=["self.value is None", " or ".join(f"self.name == '{n}'" for n in ("min_length", "max_length", "too_long", "too_short"))], modifies=pmods,
        ensures={"min_length_is_at_least_n_characters": "implies(self.name == 'min_length' or self.name == 'too_long', self.value == (len(%s) >= %s))" % (a_, b_),
                 "max_length_is_at_most_n_characters": "implies(self.name == 'max_length' or self.name == 'too_short', self.value == (len(%s) <= %s))" % (a_, b_),
                 "returns_the_value": "same(result, self.value)"},
        covers={"exactly_n": "len(%s) == %s and %s == 2 and self.value == True" % (a_, b_, b_)},
        returns="val", inline=INL + ["Equality.left", "Equality.right"],
        property_clauses={"min_length_is_at_least_n_characters": "C01", "max_length_is_at_most_n_characters": "C01"},
        doc={"min_length_is_at_least_n_characters": "string_functions.md is loose ('more than or less than'); the names are read as a minimum / maximum length, bounds included"},
        **{k: v for k, v in base.items() if k != "inline"}))
    # ---- firstline()/firstscan()/firstmatch() without an argument
    fl = {"firstmatch": "self.name == 'firstmatch' or self.name == 'first_match'", "firstscan": "self.name == 'firstscan' or self.name == 'first_scan'",
          "firstline": "self.name == 'firstline' or self.name == 'first_line'"}
    cs.append(Contract(
        target=f"{FN}/lines/first_line.py::FirstLine._decide_match", variant="bare",
        types={"skip": "none", "self.name": "str", "self.match": "val", "self.children": "fixed[]", "self.matcher.csvpath.match_count": "int", "self.matcher.csvpath.scan_count": "int",
               "self.matcher.csvpath._line_monitor": "obj:LineMonitor", "self.matcher.csvpath._line_monitor._data_line_number": "optint"},
        requires=["self.match is None", " or ".join("(%s)" % v for v in fl.values())], modifies=["self.match", "self.g_line_matches_calls"],
        ensures={"first_scanned_line": "implies(%s, self.match == (self.matcher.csvpath.scan_count == 1))" % fl["firstscan"],
                 "first_data_line": "implies(%s, self.match == (self.matcher.csvpath._line_monitor._data_line_number == 0))" % fl["firstline"],
                 "first_matching_line": "implies(%s, self.match == (self.matcher.csvpath.match_count == 0 and self.g_rest_matches))" % fl["firstmatch"]},
        returns="none", inline=INL + ["CsvPath.line_monitor", "LineMonitor.data_line_number"],
        property_clauses={"first_scanned_line": "C01", "first_data_line": "C01", "first_matching_line": "C01"}, **{k: v for k, v in base.items() if k != "inline"}))
    cs.append(Contract(
        target=f"{FN}/lines/first_line.py::FirstLine._decide_match", variant="with_an_argument",
        types={"skip": "none", "self.name": "str", "self.match": "val", "self.children": "fixed[obj:Matchable]", "self.matcher.csvpath.match_count": "int", "self.matcher.csvpath.scan_count": "int",
               "self.matcher.csvpath._line_monitor": "obj:LineMonitor", "self.matcher.csvpath._line_monitor._data_line_number": "optint"},
        requires=["self.match is None", " or ".join("(%s)" % v for v in fl.values())], modifies=["self.match", "self.g_line_matches_calls", "self.children.0.g_matches_calls"],
        ensures={"first_scanned_line": "implies(%s, self.match == (self.matcher.csvpath.scan_count == 1))" % fl["firstscan"],
                 "first_data_line": "implies(%s, self.match == (self.matcher.csvpath._line_monitor._data_line_number == 0))" % fl["firstline"],
                 "first_matching_line": "implies(%s, self.match == (self.matcher.csvpath.match_count == 0 and self.g_rest_matches))" % fl["firstmatch"],
                 "the_argument_runs_exactly_on_that_line": "self.children[0].g_matches_calls == old(self.children[0].g_matches_calls) + (1 if self.match is True else 0)"},
        returns="none", inline=INL + ["CsvPath.line_monitor", "LineMonitor.data_line_number"], callee_variants={"Matchable.matches": ""},
        property_clauses={"first_scanned_line": "C01", "first_data_line": "C01", "first_matching_line": "C01", "the_argument_runs_exactly_on_that_line": "C01"},
        **{k: v for k, v in base.items() if k != "inline"}))
    # ---- int(x): None stays None; otherwise the conversion's result, or the conversion's error is handed to the expression (the line then does not match)
    cfi = {**CF, "Expression": {**CF.get("Expression", {}), "g_handled": "int"}, "Matchable": {**CF["Matchable"], "g_expression": "obj:Expression"}}
    nat_i = {**NATIVE, "spec_funs": {**NATIVE["spec_funs"],
             "to_int": "def fun(v):\n    m = importlib.import_module('csvpath.matching.util.expression_utility')\n    try:\n        return m.ExpressionUtility.to_int(v)\n    except ValueError:\n        return 0\n",
             "to_int_fails": "def fun(v):\n    m = importlib.import_module('csvpath.matching.util.expression_utility')\n    try:\n        m.ExpressionUtility.to_int(v)\n    except ValueError:\n        return True\n    return False\n"}}
    cs.append(Contract(target=f"{EU}::ExpressionUtility.to_int", interface=True, variant="as_a_function", types={"v": "val"},
                       raises={"ValueError": {"when": "ufun_bool('to_int_fails', v)", "exact": True}}, ensures={"fn": "result == ufun_int('to_int', v)"}, returns="int", class_fields=cfi,
                       assumptions=["ExpressionUtility.to_int(v) is a function of v only: an int, or ValueError (its text cases -- thousands separators, currency signs -- are bounded in C01.bounded)"]))
    v0 = "self.children[0].g_value"
    cs.append(Contract(
        target=f"{FN}/math/intf.py::Int._produce_value",
        types={"skip": "none", "self.children": "fixed[obj:Matchable]", "self.value": "val", "self.children.0.g_value": "scalar", "self.g_expression": "obj:Expression"},
        requires=["self.value is None"], modifies=["self.value", "self.children.0.g_to_value_calls", "self.g_expression.g_handled"],
        ensures={"none_stays_none": "implies(%s is None, self.value is None)" % v0,
                 "the_integer_of_the_argument": "implies(%s is not None and not ufun_bool('to_int_fails', %s), self.value == ufun_int('to_int', %s))" % (v0, v0, v0),
                 "a_conversion_error_goes_to_the_expression_once": "self.g_expression.g_handled == old(self.g_expression.g_handled) + (1 if (%s is not None and ufun_bool('to_int_fails', %s)) else 0)" % (v0, v0),
                 "and_leaves_no_value": "implies(%s is not None and ufun_bool('to_int_fails', %s), self.value is None)" % (v0, v0)},
        returns="none", inline=INL + ["Matchable._value_one", "Matchable._child_one"], callee_variants={"ExpressionUtility.to_int": "as_a_function"},
        property_clauses={"none_stays_none": "C01", "the_integer_of_the_argument": "C01", "a_conversion_error_goes_to_the_expression_once": "C01,C05", "and_leaves_no_value": "C01"},
        class_fields=cfi, macros=MACROS, native=nat_i))
    nat_f = {**NATIVE, "spec_funs": {**NATIVE["spec_funs"],
             "to_float": "def fun(v):\n    m = importlib.import_module('csvpath.matching.util.expression_utility')\n    try:\n        return m.ExpressionUtility.to_float(v)\n    except ValueError:\n        return 0.0\n",
             "to_float_fails": "def fun(v):\n    m = importlib.import_module('csvpath.matching.util.expression_utility')\n    try:\n        m.ExpressionUtility.to_float(v)\n    except ValueError:\n        return True\n    return False\n"}}
    cs.append(Contract(target=f"{EU}::ExpressionUtility.to_float", interface=True, variant="as_a_function", types={"v": "val"},
                       raises={"ValueError": {"when": "ufun_bool('to_float_fails', v)", "exact": True}}, ensures={"fn": "same(result, ufun_val('to_float', v))"}, returns="val", class_fields=cfi,
                       assumptions=["ExpressionUtility.to_float(v) is a function of v only: a float, or ValueError (its text cases are bounded in C01.bounded)"]))
    cs.append(Contract(
        target=f"{FN}/math/intf.py::Float._produce_value",
        types={"skip": "none", "self.children": "fixed[obj:Matchable]", "self.value": "val", "self.children.0.g_value": "scalar", "self.g_expression": "obj:Expression"},
        requires=["self.value is None"], modifies=["self.value", "self.children.0.g_to_value_calls", "self.g_expression.g_handled"],
        ensures={"none_stays_none": "implies(%s is None, self.value is None)" % v0,
                 "the_float_of_the_argument": "implies(%s is not None and not ufun_bool('to_float_fails', %s), same(self.value, ufun_val('to_float', %s)))" % (v0, v0, v0),
                 "a_conversion_error_goes_to_the_expression_once": "self.g_expression.g_handled == old(self.g_expression.g_handled) + (1 if (%s is not None and ufun_bool('to_float_fails', %s)) else 0)" % (v0, v0),
                 "and_leaves_no_value": "implies(%s is not None and ufun_bool('to_float_fails', %s), self.value is None)" % (v0, v0)},
        returns="none", inline=INL + ["Matchable._value_one", "Matchable._child_one"], callee_variants={"ExpressionUtility.to_float": "as_a_function"},
        property_clauses={"none_stays_none": "C01", "the_float_of_the_argument": "C01", "a_conversion_error_goes_to_the_expression_once": "C01,C05", "and_leaves_no_value": "C01"},
        class_fields=cfi, macros=MACROS, native=nat_f))
    # ---- exists(), empty(x)
    cs.append(Contract(target=f"{EU}::ExpressionUtility.is_empty", interface=True, types={"v": "val"}, ensures={"fn": "result == ufun_bool('is_empty', v)"}, returns="bool", class_fields=CF,
                       assumptions=["ExpressionUtility.is_empty(v) is a function of v only (None, 'None', 'nan', blank strings, empty containers: bounded in C01.bounded / C03.bounded)"]))
    cs.append(Contract(
        target=f"{FN}/boolean/exists.py::Exists._decide_match", types={"skip": "none", "self.children": "fixed[obj:Matchable]", "self.match": "val"},
        modifies=["self.match", "self.children.0.g_to_value_calls"],
        ensures={"matches_iff_the_value_is_not_empty": "self.match == (not ufun_bool('is_empty', self.children[0].g_value))"},
        returns="none", property_clauses={"matches_iff_the_value_is_not_empty": "C01"}, **base))
    cs.append(Contract(
        target=f"{FN}/boolean/empty.py::Empty._do_one", types={"skip": "none", "child": "obj:Matchable", "self.match": "val"},
        modifies=["self.match", "child.g_to_value_calls"],
        ensures={"matches_iff_the_value_is_empty": "same(self.match, ufun_bool('is_empty', child.g_value))"},
        returns="none", property_clauses={"matches_iff_the_value_is_empty": "C01"}, **base))
    # ---- empty(a, b, ...): every argument's value is empty
    gk = "self.children[0].children[k].g_value"
    cs.append(Contract(
        target=f"{FN}/boolean/empty.py::Empty._do_many", types=kids, requires=["self.children[0].op == ','", "%s >= 1" % n],
        modifies=["self.match", "self.children.0.children"],
        ensures={"matches_iff_every_argument_is_empty": "(self.match is True) == forall_int(0, %s, lambda k: ufun_bool('is_empty', %s))" % (n, gk),
                 "a_bool": "self.match is True or self.match is False"},
        invariants={0: ["forall_int(0, _i0, lambda k: ufun_bool('is_empty', %s))" % gk,
                        "implies(_i0 > 0, self.match is True)",
                        "forall_int(lambda k: same(%s, old(%s)))" % (gk, gk)]},
        loop_havoc={0: ["self.children.0.children[*].g_to_value_calls", "self.match"]},
        returns="none", inline=INL + ["Matchable.siblings", "Equality.commas_to_list"],
        property_clauses={"matches_iff_every_argument_is_empty": "C01"}, **{k: v for k, v in base.items() if k != "inline"}))
    # ---- a bare header as a match component: existence test (an empty cell does not exist), or its truth value under asbool
    HDR = "csvpath/matching/productions/header.py"
    cs.append(Contract(target=f"{HDR}::Header.to_value", interface=True, variant="as_a_value", types={"skip": "val"}, modifies=["self.g_to_value_calls"],
                       ensures={"memoised": "same(result, self.g_value)"}, returns="expr:self.g_value", class_fields=CF,
                       assumptions=["Header.to_value is under its own contracts in C06 (by_name / by_index): the cell under the header, stripped; None when absent"]))
    cs.append(Contract(target=f"{EU}::ExpressionUtility.is_none", interface=True, variant="any_value", types={"v": "val"},
                       ensures={"fn": "result == ufun_bool('is_none', v)", "none_is_none": "implies(v is None, result)"}, returns="bool", class_fields=CF,
                       assumptions=["ExpressionUtility.is_none(v) is a function of v only and True for None (also 'None', 'nan', blank text: bounded in C01.bounded)"]))
    cs.append(Contract(
        target=f"{HDR}::Header.matches", types={"skip": "none", "self.match": "optbool", "self._qualifiers": "list[str]", "self.g_value": "val"}, requires=["self.match is None"],
        modifies=["self.match", "self.g_to_value_calls"],
        ensures={"existence_test": "implies('asbool' not in self._qualifiers, result == (not ufun_bool('is_none', self.g_value)))",
                 "an_absent_cell_does_not_match": "implies('asbool' not in self._qualifiers and self.g_value is None, result == False)",
                 "truth_value_under_asbool": "implies('asbool' in self._qualifiers, result == ufun_bool('asbool', self.g_value))"},
        returns="optbool", callee_variants={"Header.to_value": "as_a_value", "ExpressionUtility.is_none": "any_value"},
        property_clauses={"existence_test": "C01", "an_absent_cell_does_not_match": "C01,C06", "truth_value_under_asbool": "C01"},
        **{**base, "native": {**NATIVE, "skip": True}}))
    # ---- the two gates Function.matches consults (they are [A] interfaces there; here they are proved)
    QUALF = "csvpath/matching/productions/qualified.py"
    cs.append(Contract(target=f"{QUALF}::Qualified.override_frozen", interface=True, types={}, ensures={"flag": "result == self.g_overrides_frozen"}, returns="bool",
                       class_fields={**CF, "Matchable": {**CF["Matchable"], "g_overrides_frozen": "bool"}},
                       assumptions=["override_frozen() is True only for fail() and last() (two one-line overrides)"]))
    cfq = {**CF, "Matchable": {**CF["Matchable"], "g_overrides_frozen": "bool"}}
    cs.append(Contract(
        target=f"{QUALF}::Qualified.do_onmatch", variant="body", types={"self": "obj:Matchable", "self._qualifiers": "list[str]", "self.name": "val"}, modifies=["self.g_line_matches_calls"],
        ensures={"open_unless_onmatch_and_the_rest_of_the_line_does_not_match": "result == (('onmatch' not in self._qualifiers) or self.g_rest_matches)",
                 "looks_ahead_only_under_onmatch": "implies('onmatch' not in self._qualifiers, self.g_line_matches_calls == old(self.g_line_matches_calls))"},
        returns="bool", class_fields=cfq, macros=MACROS, native={**NATIVE, "skip": True}, inline=INL,
        property_clauses={"open_unless_onmatch_and_the_rest_of_the_line_does_not_match": "C01,C14", "looks_ahead_only_under_onmatch": "C01"}))
    cs.append(Contract(
        target=f"{QUALF}::Qualified.do_frozen", variant="body", types={"self": "obj:Matchable"},
        ensures={"frozen_iff_the_run_is_ending_and_not_overridden": "result == (self.matcher.csvpath._freeze_path and not self.g_overrides_frozen)"},
        returns="bool", class_fields=cfq, macros=MACROS, native={**NATIVE, "skip": True}, inline=INL,
        property_clauses={"frozen_iff_the_run_is_ending_and_not_overridden": "C01,C13"}))
    # ---- a variable as a match component: existence test, or its truth value under asbool
    CF["Variable"] = {**CF.get("Variable", {}), "value": "val", "match": "optbool", "name": "str", "_qualifiers": "list[str]"}
    vtypes = {"skip": "none", "self.value": "val", "self.match": "optbool", "self.name": "str", "self._qualifiers": "list[str]", "self.g_name_qualifier": "optstr"}
    cs.append(Contract(
        target=f"{VAR}::Variable.to_value", types=vtypes, requires=["not truthy(self.value)", "self.g_name_qualifier != 'True' and self.g_name_qualifier != 'False'"],
        modifies=["self.value"],
        ensures={"is_the_variables_current_value": "same(result, self.matcher.g_current) and same(self.value, result)"},
        returns="val", callee_variants={"Matcher.get_variable": ""},
        property_clauses={"is_the_variables_current_value": "C01,C03"}, **base))
    cs.append(Contract(
        target=f"{VAR}::Variable.matches", types=vtypes, requires=["self.match is None", "not truthy(self.value)", "self.g_name_qualifier != 'True' and self.g_name_qualifier != 'False'"],
        modifies=["self.value", "self.match"],
        ensures={"existence_test": "implies('asbool' not in self._qualifiers, result == (self.matcher.g_current is not None))",
                 "truth_value_under_asbool": "implies('asbool' in self._qualifiers, result == ufun_bool('asbool', self.matcher.g_current))"},
        covers={"zero_exists": "same(self.matcher.g_current, 0) and result == True and 'asbool' not in self._qualifiers"},
        returns="optbool", callee_variants={"Matcher.get_variable": ""}, inline=INL + ["Variable.to_value"],
        property_clauses={"existence_test": "C01", "truth_value_under_asbool": "C01"},
        doc={"existence_test": "C01: 'variables ... under their documented meaning': a bare @v matches when v has a value (0 and '' are values)"},
        **{k: v for k, v in base.items() if k != "inline"}))
    return cs


def contracts():
    extra = core.select(core.contracts(), ("CsvPath._consider_line", "CsvPath.next", "Matcher.matches"))
    ctl = [c for c in control.contracts() if "Expression.matches" in c.target] if hasattr(control, "contracts") else []
    foreign = []
    for c in control.interfaces():
        c._foreign = True
        foreign.append(c)
    return equality_contracts() + interfaces() + leaf_contracts() + function_wrapper() + extra + ctl + foreign


def bounded(tier, seed):
    return [{"name": "C01.bounded", "script": "native/bounded_C01.py", "timeout": 3000,
             "scope": "150 (thorough 3000) generated (csvpath, file) pairs: 1..4 (5) components over ==, bare headers, not/and/or/in/empty/exists/yes/no, the six ordinal "
                      "comparison names against numbers and cells, mod, add, assignments, when/do; AND and OR logic; scans * and 1*; files with blank and ragged records, "
                      "multi-digit numbers, empty cells; reference evaluator written from the statement and the docs"}]


LEVEL = "other"
EXPLANATION = ("Proved for all inputs (chain CsvPath.next -> _consider_line -> Matcher.matches -> Expression.matches -> Equality.matches -> Function.matches): lines are yielded "
               "once, in order, exactly when the per-line verdict holds; the verdict is the AND/OR of the component votes taken left to right; an Equality dispatches to "
               "assignment / when-do / equality test by its operator, once per line; '==' compares as written or as values; '->' runs its right side iff the left side matched; "
               "a function decides exactly once per line and an error below it is handed to the expression; a variable is an existence test (0 and '' exist); not/and/or/"
               "yes/no/length, min_length/max_length, int(), float(), firstline/firstscan/firstmatch, equals() on numbers and texts, between()/inside()/range()/from_to()/beyond()/outside() (bounds in either order, strict vs inclusive, a missing argument does not match; "
               "numbers and stripped strings) and the strict and non-strict comparisons of AboveBelow are the documented operators -- with two known findings in AboveBelow (lt/below answer <=; "
               "cells compare as strings). Bounded (not proved): the end-to-end reference evaluation over generated programs and files.")
