"""C16 -- print() emits its text verbatim with references replaced by current values."""
from pyvc.contract import Contract
from . import core, shared, control
from .core import CF, MACROS
USES = ["shared"]

PRINTF = "csvpath/matching/functions/print/printf.py"
PP = "csvpath/matching/util/print_parser.py"
TERM = "csvpath/matching/productions/term.py"
QUAL = "csvpath/matching/productions/qualified.py"

CF["Matchable"].update({"g_do_onchange": "bool", "g_do_once": "bool"})
CF["CsvPath"].update({"g_printed": "list[str]"})

P_PRINT_TO = "def patch(self, name, string):\n    self.g_printed.append(string)\n"
NATIVE = {"skip": True}


def contracts():
    cs = []
    cs.append(Contract(target=f"{QUAL}::Qualified.do_onchange", interface=True, types={}, ensures={"flag": "result == self.g_do_onchange"}, returns="bool", class_fields=CF,
                       assumptions=["do_onchange() is True unless the onchange qualifier is set and the value did not change"]))
    cs.append(Contract(target=f"{QUAL}::Qualified.do_once", interface=True, types={}, ensures={"flag": "result == self.g_do_once"}, returns="bool", class_fields=CF,
                       assumptions=["do_once() is True unless the once qualifier is set and _set_has_happened() has already been called"]))
    cs.append(Contract(target=f"{TERM}::Term.to_value", interface=True, types={"skip": "val"}, ensures={"v": "same(result, self.g_value)"}, returns="val", class_fields=CF))
    cs.append(Contract(target=f"{PP}::PrintParser.transform", interface=True, types={"printstr": "val"},
                       ensures={"renders": "result == ufun_str('render', printstr)"}, returns="str", class_fields=CF,
                       assumptions=["PrintParser.transform renders the template against the current state (Lark grammar + transformer: bounded in this property)"]))
    cs.append(Contract(target="csvpath/csvpath.py::CsvPath.print_to", interface=True, types={"name": "val", "string": "str"}, modifies=["self.g_printed"],
                       ensures={"sent": "self.g_printed == old(self.g_printed) + [string]"}, returns="none", class_fields=CF,
                       assumptions=["CsvPath.print_to(name, s) hands s to every registered printer once"]))
    fires = "(self.g_do_onchange and self.g_do_once)"
    rendered = "ufun_str('render', self.children[0].children[0].g_value)"
    cs.append(Contract(
        target=f"{PRINTF}::Print._decide_match", variant="named_printer",
        types={"skip": "val", "self.children": "fixed[obj:Equality]", "self.children.0.children": "fixed[obj:Term,obj:Term]",
               "self.children.0.children.0.g_value": "str", "self.children.0.children.1.g_value": "str"},
        modifies=["self.match", "self.matcher.csvpath.g_printed", "self.matcher.g_set_has_happened"],
        ensures={
            "one_entry_per_execution_iff_gates_open": "len(self.matcher.csvpath.g_printed) == len(old(self.matcher.csvpath.g_printed)) + (1 if %s else 0)" % fires,
            "records_that_it_has_printed": "self.matcher.g_set_has_happened == old(self.matcher.g_set_has_happened) + (1 if %s else 0)" % fires,
            "text_is_the_rendered_template": "implies(%s and len(%s) > 0 and not %s.endswith(' '), self.matcher.csvpath.g_printed[len(self.matcher.csvpath.g_printed) - 1] == %s)" % (fires, rendered, rendered, rendered),
            "votes_default": "self.match == self.matcher._AND",
        },
        inline=["Matchable._child_two", "Equality.left", "Equality.right", "Matchable.default_match"],
        stub_new=["PrintParser"], class_fields=CF, macros=MACROS, returns="none", native=NATIVE,
        property_clauses={"one_entry_per_execution_iff_gates_open": "C16", "records_that_it_has_printed": "C16", "text_is_the_rendered_template": "C16"},
        doc={"one_entry_per_execution_iff_gates_open": "C16: 'sends to every printer one entry per execution'; 'print.once at most once per run'",
             "records_that_it_has_printed": "C16: 'print.once at most once per run' -- every print, to any printer, must be recorded for once to hold"}))
    rendered1 = "ufun_str('render', self.children[0].g_value)"
    cs.append(Contract(
        target=f"{PRINTF}::Print._decide_match", variant="default_printer",
        types={"skip": "val", "self.children": "fixed[obj:Term]", "self.children.0.g_value": "str"},
        modifies=["self.match", "self.matcher.csvpath.g_printed", "self.matcher.g_set_has_happened"],
        ensures={
            "one_entry_per_execution_iff_gates_open": "len(self.matcher.csvpath.g_printed) == len(old(self.matcher.csvpath.g_printed)) + (1 if %s else 0)" % fires,
            "records_that_it_has_printed": "self.matcher.g_set_has_happened == old(self.matcher.g_set_has_happened) + (1 if %s else 0)" % fires,
            "text_is_the_rendered_template": "implies(%s and len(%s) > 0 and not %s.endswith(' '), self.matcher.csvpath.g_printed[len(self.matcher.csvpath.g_printed) - 1] == %s)" % (fires, rendered1, rendered1, rendered1),
            "earlier_printouts_untouched": "self.matcher.csvpath.g_printed[0:len(old(self.matcher.csvpath.g_printed))] == old(self.matcher.csvpath.g_printed)",
            "votes_default": "self.match == self.matcher._AND",
        },
        inline=["Matchable._child_two", "Equality.left", "Equality.right", "Matchable.default_match"],
        stub_new=["PrintParser"], class_fields=CF, macros=MACROS, returns="none", native=NATIVE,
        property_clauses={"one_entry_per_execution_iff_gates_open": "C16", "records_that_it_has_printed": "C16", "text_is_the_rendered_template": "C16", "earlier_printouts_untouched": "C16"}))
    # which store a local reference reads: $.variables / $.headers / $.metadata / $.csvpath
    CF["PrintParser"] = {**CF.get("PrintParser", {}), "csvpath": "obj:CsvPath", "g_transform_calls": "int"}
    CF["CsvPath"].update({"variables": "dict[str,val]", "metadata": "dict[str,val]", "g_headers": "list[str]"})
    cs.append(Contract(target=f"{PP}::PrintParser._transform_reference", interface=True, types={"ref": "val"}, modifies=["self.g_transform_calls"],
                       ensures={"n": "self.g_transform_calls == old(self.g_transform_calls) + 1"}, returns="str", class_fields=CF,
                       assumptions=["_transform_reference(ref) renders ref['name'] against ref['data'] (_ref_from_dict: proved here; _ref_from_list: bounded)"]))
    cs.append(Contract(target="csvpath/csvpath.py::CsvPath.headers", interface=True, types={}, returns="expr:self.g_headers", ensures={"h": "result is self.g_headers"}, class_fields=CF,
                       assumptions=["CsvPath.headers is the current header list (C06)"]))
    cs.append(Contract(target=f"{PP}::PrintParser._get_runtime_data_from_local", interface=True, types={"csvpath": "val", "runtime": "val", "local": "val"}, returns="none", class_fields=CF,
                       assumptions=["_get_runtime_data_from_local fills the dict it is given with the csvpath's runtime data (RuntimeDataCollector)"]))
    cs.append(Contract(
        target=f"{PP}::PrintParser._handle_local", types={"ref": "rec[root:str,data_type:str,name:val]", "self.csvpath": "obj:CsvPath", "self.csvpath.variables": "dict[str,val]",
                                                        "self.csvpath.metadata": "dict[str,val]"},
        modifies=["ref", "self.g_transform_calls"],
        ensures={"variables_reference_reads_the_variables": "implies(ref['data_type'] == 'variables', ref['data'] is self.csvpath.variables)",
                 "headers_reference_reads_the_headers": "implies(ref['data_type'] == 'headers', ref['data'] is self.csvpath.g_headers)",
                 "metadata_reference_reads_the_metadata": "implies(ref['data_type'] == 'metadata', ref['data'] is self.csvpath.metadata)",
                 "rendered": "self.g_transform_calls >= old(self.g_transform_calls) + 1"},
        class_fields=CF, macros=MACROS, returns="str", native=NATIVE,
        property_clauses={"variables_reference_reads_the_variables": "C16", "headers_reference_reads_the_headers": "C16", "metadata_reference_reads_the_metadata": "C16"},
        doc={"variables_reference_reads_the_variables": "C16: 'each $.variables.x ... reference is replaced by the value current at that point' -- read from this csvpath's live store"}))
    # reference resolution: $.variables.x.key / .N / .length
    cs.append(Contract(
        target=f"{PP}::PrintParser._ref_from_dict", variant="tracked_dict",
        types={"ref": "val", "data": "rec[x:dict[str,val]]", "name": "const:x", "tracking": "str"},
        ensures={"the_tracked_value_whatever_it_is": "implies(tracking in data['x'] and data['x'][tracking] is not None, same(result, data['x'][tracking]))"},
        covers={"zero_is_a_value": "result == 0", "empty_string_is_a_value": "result == ''"},
        class_fields=CF, macros=MACROS, returns="val", native=NATIVE,
        property_clauses={"the_tracked_value_whatever_it_is": "C16"},
        doc={"the_tracked_value_whatever_it_is": "C16: 'each $.variables.x[.key|.index|.length] ... reference is replaced by the value current at that point'"}))
    cs.append(Contract(
        target=f"{PP}::PrintParser._ref_from_dict", variant="stack",
        types={"ref": "val", "data": "rec[x:list[val]]", "name": "const:x", "tracking": "str"},
        ensures={"length": "implies(tracking == 'length', result == len(data['x']))",
                 "indexed_item_whatever_it_is": "implies(tracking != 'length' and tracking.isdecimal() and int_of(tracking) < len(data['x']) and data['x'][int_of(tracking)] is not None, "
                                                "same(result, data['x'][int_of(tracking)]))"},
        covers={"zero_item": "result == 0 and tracking == '0'", "empty_stack_length": "tracking == 'length' and result == 0"},
        class_fields=CF, macros=MACROS, returns="val", native=NATIVE,
        property_clauses={"length": "C16", "indexed_item_whatever_it_is": "C16"}))
    return cs + [c for c in control.interfaces() if "_set_has_happened" in c.target]


def bounded(tier, seed):
    return [{"name": "C16.bounded", "script": "native/bounded_C16.py", "timeout": 3000,
             "scope": "every template of 1..3 (thorough 1..4) items over 17 item kinds (text chunks, one-char punctuation, space, '..', references to variables / "
                      "tracked / stack item / stack length / headers by name and index / metadata / runtime data, incl. values 0), onmatch/once gating, empty output"}]


LEVEL = "other"
EXPLANATION = ("Proved (default and named printer; $.variables/$.headers/$.metadata read from the live stores by _handle_local): Print._decide_match sends exactly one entry per execution iff the onchange/once gates are open and records it (so print.once holds for every "
               "printer); _ref_from_dict returns the tracked value / stack item / length whatever it is (0 and '' included). Bounded (not proved): text fidelity "
               "through the real Lark grammar and transformer for every template of the stated scope -- with one known finding (references closer than two characters).")
