"""Contracts on the per-line core: Matcher.matches, CsvPath._consider_line, raise_match_count_if,
LineMonitor.next_line, Expression.matches ... shared by C01, C02, C03, C04, C05, C13, C15."""
from pyvc.contract import Contract
from . import shared
from .shared import CLASS_FIELDS, MACROS as SHARED_MACROS

MATCHER = "csvpath/matching/matcher.py"
CP = "csvpath/csvpath.py"
EXPR = "csvpath/matching/productions/expression.py"
LM = "csvpath/util/line_monitor.py"

from collections import defaultdict
CF = defaultdict(dict)      # one table of declared field types by class, filled by the contract modules (idempotent updates)
for _k, _v in CLASS_FIELDS.items():
    CF[_k].update(_v)
CF.setdefault("Expression", {}).update({
    "g_match": "optbool",        # the vote the component casts when evaluated on this line (None counts as "not False")
    "g_fires_stop": "bool",      # evaluating it calls stop() on this line
    "g_fires_skip": "bool",      # evaluating it calls skip() on this line
    "g_fails": "bool",           # evaluating it calls fail() on this line
    "g_matches_calls": "int",
})
CF["Matcher"].update({"skip": "bool", "g_clear_errors_calls": "int", "g_do_lasts_calls": "int", "_line": "list[str]"})
CF["CsvPath"].update({"_line_monitor": "obj:LineMonitor", "g_explain": "bool", "scanner": "obj:Scanner", "skip_blank_lines": "bool",
                      "g_line_matches": "optbool", "g_matches_calls": "int"})
CF["LineMonitor"] = {"_physical_end_line_number": "optint", "_physical_line_number": "optint", "_physical_line_count": "optint",
                     "_data_line_count": "optint", "_data_line_number": "optint", "_physical_end_line_count": "optint",
                     "_data_end_line_count": "optint", "_data_end_line_number": "optint"}

P_EXPR_MATCHES = ("def patch(self, *, skip=None):\n    self.g_matches_calls += 1\n    if self.g_fires_stop:\n        self.matcher.csvpath.stopped = True\n"
                  "    if self.g_fires_skip:\n        self.matcher.skip = True\n    if self.g_fails:\n        self.matcher.csvpath._is_valid = False\n    return self.g_match\n")
P_CLEAR_ERRORS = "def patch(self):\n    self.g_clear_errors_calls += 1\n"
P_DO_LASTS = "def patch(self):\n    self.g_do_lasts_calls += 1\n"
P_EXPLAIN = "patch = property(lambda self: self.g_explain)\n"

MACROS = dict(SHARED_MACROS)
MACROS.update({
    "E": ([], "self.expressions"),
    # was component k evaluated by the matcher on this line (its memo was not pre-set by an onmatch look-ahead)
    "fresh": (["k"], "old(self.expressions[k][1]) is None"),
    # the vote of component k: the pre-set memo if any, else what its matches() returns (anything but False counts as a yes)
    "vote": (["k"], "(old(self.expressions[k][1]) == True) if old(self.expressions[k][1]) is not None else (self.expressions[k][0].g_match is not False)"),
    "halts": (["k"], "fresh(k) and (self.expressions[k][0].g_fires_stop or self.expressions[k][0].g_fires_skip)"),
    # no component before index i halted the line
    "quiet_before": (["i"], "forall_int(0, i, lambda k: not halts(k))"),
    "fold": (["n"], "(forall_int(0, n, lambda k: vote(k))) if self._AND else (exists_int(0, n, lambda k: vote(k)))"),
})


def interface_contracts():
    cs = []
    cs.append(Contract(
        target=f"{EXPR}::Expression.matches", interface=True, variant="as_seen_by_matcher", types={"skip": "val"},
        modifies=["self.g_matches_calls", "self.matcher.skip", "self.matcher.csvpath.stopped", "self.matcher.csvpath._is_valid"],
        ensures={"vote": "same(result, self.g_match)",
                 "counted": "self.g_matches_calls == old(self.g_matches_calls) + 1",
                 "skip": "self.matcher.skip == (old(self.matcher.skip) or self.g_fires_skip)",
                 "stop": "self.matcher.csvpath.stopped == (old(self.matcher.csvpath.stopped) or self.g_fires_stop)",
                 "fail_monotone": "self.matcher.csvpath._is_valid == (old(self.matcher.csvpath._is_valid) and not self.g_fails)"},
        returns="optbool", class_fields=CF, native={"callee_default": True},
        assumptions=["a match component, when evaluated, returns its vote for the line and may call stop()/skip()/fail(); "
                     "it never un-stops, un-skips or re-validates (Stop/Skip/Fail are under their own contracts in C13/C04)",
                     "a match component does not evaluate its sibling components. NOT true of an onmatch-qualified component, whose Qualified.line_matches() "
                     "walks every expression itself: the clauses of Matcher.matches about what runs after a stop/skip hold for programs without an onmatch "
                     "component placed before the stop/skip (see the C13 KNOWN-FINDING; bounded_C13 exercises exactly that case)"]))
    cs.append(Contract(
        target=f"{MATCHER}::Matcher.clear_errors", interface=True, types={},
        modifies=["self.g_clear_errors_calls"],
        ensures={"counted": "self.g_clear_errors_calls == old(self.g_clear_errors_calls) + 1"},
        returns="none", class_fields=CF,
        assumptions=["Matcher.clear_errors() hands every trapped error of every expression to the ErrorHandler (C05 contracts)"]))
    cs.append(Contract(
        target=f"{MATCHER}::Matcher._do_lasts", interface=True, types={},
        modifies=["self.g_do_lasts_calls"],
        ensures={"counted": "self.g_do_lasts_calls == old(self.g_do_lasts_calls) + 1"},
        returns="none", class_fields=CF,
        assumptions=["Matcher._do_lasts() activates every last() in the csvpath (own contract in C13)"]))
    cs.append(Contract(
        target=f"{CP}::CsvPath.explain", interface=True, types={},
        ensures={"flag": "result == self.g_explain"}, returns="bool", class_fields=CF,
        assumptions=["explain-mode is read as an abstract flag"]))
    return cs


NATIVE_CORE = {"defaults": {"Matchable": {"children": [], "qualified_name": "stub", "_qualifiers": [], "name": "stub", "value": None, "match": None}},
               "patches": {
    "csvpath.matching.productions.expression.Expression.matches": P_EXPR_MATCHES,
    "csvpath.matching.matcher.Matcher.clear_errors": P_CLEAR_ERRORS,
    "csvpath.matching.matcher.Matcher._do_lasts": P_DO_LASTS,
    "csvpath.csvpath.CsvPath.explain": P_EXPLAIN,
}}


def matcher_matches():
    n = "len(self.expressions)"
    inv = [
        # control: nobody before the previous component halted; the flags reflect exactly the previous component
        "quiet_before(_i0 - 1) or _i0 == 0",
        "self.csvpath.stopped == (_i0 > 0 and fresh(_i0 - 1) and self.expressions[_i0 - 1][0].g_fires_stop)",
        "self.skip == (_i0 > 0 and fresh(_i0 - 1) and self.expressions[_i0 - 1][0].g_fires_skip)",
        # who has been asked
        "forall_int(0, _i0, lambda k: self.expressions[k][0].g_matches_calls == old(self.expressions[k][0].g_matches_calls) + (1 if fresh(k) else 0))",
        "forall_int(lambda k: implies(k >= _i0, self.expressions[k][0].g_matches_calls == old(self.expressions[k][0].g_matches_calls)))",
        # memo and fold
        "forall_int(0, _i0, lambda k: self.expressions[k][1] == vote(k))",
        "forall_int(lambda k: implies(k >= _i0, same(self.expressions[k][1], old(self.expressions[k][1]))))",
        "failed == ((exists_int(0, _i0, lambda k: not vote(k))) if self._AND else (not exists_int(0, _i0, lambda k: vote(k))))",
        "self.g_clear_errors_calls == old(self.g_clear_errors_calls)",
        "self.g_do_lasts_calls == old(self.g_do_lasts_calls)",
        "implies(self.csvpath._is_valid, old(self.csvpath._is_valid))",
        "forall_int(lambda k: self.expressions[k][0].g_fires_stop == old(self.expressions[k][0].g_fires_stop) and "
        " self.expressions[k][0].g_fires_skip == old(self.expressions[k][0].g_fires_skip) and same(self.expressions[k][0].g_match, old(self.expressions[k][0].g_match)))",
    ]
    return Contract(
        target=f"{MATCHER}::Matcher.matches",
        types={"self.expressions": "pairlist[Expression]", "self.csvpath": "obj:CsvPath", "self._AND": "bool", "self.skip": "bool",
               "self._line": "list[str]"},
        requires=["not self.skip", "not self.csvpath.stopped", "not self.csvpath.g_explain",
                  "not (self.csvpath._line_monitor._physical_end_line_number == self.csvpath._line_monitor._physical_line_number and len(self._line) == 0)"],
        modifies=["self.skip", "self.csvpath.stopped", "self.csvpath._is_valid", "self.g_clear_errors_calls",
                  "self.expressions[*].g_matches_calls", "self.expressions[*].__memo__", "self.expressions"],
        ensures={
            # ---- C13: stop / skip
            "no_component_after_a_halt": "forall_int(0, %s, lambda j: implies(self.expressions[j][0].g_matches_calls == old(self.expressions[j][0].g_matches_calls) + 1, "
                                         "fresh(j) and quiet_before(j)))" % n,
            "every_component_before_a_halt": "forall_int(0, %s, lambda j: implies(fresh(j) and quiet_before(j), "
                                             "self.expressions[j][0].g_matches_calls == old(self.expressions[j][0].g_matches_calls) + 1))" % n,
            "at_most_once": "forall_int(0, %s, lambda j: self.expressions[j][0].g_matches_calls <= old(self.expressions[j][0].g_matches_calls) + 1)" % n,
            "skip_means_no_match": "implies(exists_int(0, %s, lambda j: quiet_before(j) and fresh(j) and self.expressions[j][0].g_fires_skip), result == False)" % n,
            "skip_does_not_outlive_line": "self.skip == False or self.csvpath.stopped",
            "stop_midline_means_no_match": "implies(exists_int(0, %s - 1, lambda j: quiet_before(j) and halts(j) and self.expressions[j][0].g_fires_stop), result == False)" % n,
            "stop_as_final_component_keeps_fold": "implies(quiet_before(%s - 1) and %s > 0 and not (fresh(%s - 1) and self.expressions[%s - 1][0].g_fires_skip), result == fold(%s))" % (n, n, n, n, n),
            # ---- C01: AND / OR fold in order
            "and_or_fold": "implies(quiet_before(%s), result == fold(%s))" % (n, n),
            "result_is_bool": "result is True or result is False",
            # ---- C05: trapped errors are handed over on every exit
            "errors_handled_on_every_exit": "self.g_clear_errors_calls == old(self.g_clear_errors_calls) + 1",
            # ---- C04: validity is monotone through a line
            "validity_monotone": "implies(self.csvpath._is_valid, old(self.csvpath._is_valid))",
        },
        invariants={0: inv},
        loop_havoc={0: ["self.expressions[*].g_matches_calls", "self.expressions[*].__memo__", "self.skip", "self.csvpath.stopped", "self.csvpath._is_valid"]},
        covers={"stopped_midline": "result == False and self.csvpath.stopped",
                "skipped": "result == False and not self.csvpath.stopped and old(self._AND) and "
                           "exists_int(0, %s, lambda j: self.expressions[j][0].g_fires_skip and self.expressions[j][0].g_matches_calls == old(self.expressions[j][0].g_matches_calls) + 1)" % n,
                "or_mode_match": "not self._AND and result == True"},
        inline=["CsvPath.line_monitor", "LineMonitor.is_last_line_and_blank"],
        backrefs={"Expression.matcher": "self"},
        macros=MACROS, class_fields=CF, returns="bool", native=NATIVE_CORE,
        property_clauses={"no_component_after_a_halt": "C13", "every_component_before_a_halt": "C13,C01", "at_most_once": "C01,C13",
                          "skip_means_no_match": "C13", "skip_does_not_outlive_line": "C13", "stop_midline_means_no_match": "C13",
                          "stop_as_final_component_keeps_fold": "C13", "and_or_fold": "C01", "result_is_bool": "C01",
                          "errors_handled_on_every_exit": "C05,C04", "validity_monotone": "C04"},
        doc={"no_component_after_a_halt": "C13: 'When stop() fires on a line no later component of that line ... is evaluated'; 'when skip() fires ... no later component of it runs'",
             "skip_means_no_match": "C13: 'when skip() fires the line is not matched'",
             "skip_does_not_outlive_line": "C13: '... but the next line proceeds normally'",
             "stop_midline_means_no_match": "C13: 'the line is returned only if stop was the final component and the line matched'",
             "and_or_fold": "C01: 'the match components, evaluated left to right ..., all hold (any one holds when logic-mode is OR)'",
             "errors_handled_on_every_exit": "C05: every trapped error reaches the handler, whatever ends the line",
             "validity_monotone": "C04: 'once False it never returns to True within the run'"},
        assumptions=["explain-mode off; the blank-last-line branch is the separate variant Matcher.matches[blank_last]"],
    )


# ----------------------------------------------------------------------------------------------- CsvPath.next
CF["Record"] = {"g_len": "int", "g_verdict": "bool", "g_stops": "bool"}
CF["CsvPath"].update({"g_records": "objlist[Record]", "g_yielded": "list[int]", "g_will_run": "bool", "g_unmatched_available": "bool",
                      "_collecting": "bool", "_unmatched": "list[int]", "g_finalize_calls": "int", "g_considered": "list[int]"})

P_NEXT_LINE = "def patch(self):\n    return iter(self.g_records)\n"
P_CONSIDER = ("def patch(self, line):\n    self.g_considered.append(line.g_idx)\n    if line.g_stops:\n        self.stopped = True\n    return line.g_verdict\n")
P_LIMIT = "def patch(self, line):\n    return line\n"
P_FINALIZE = "def patch(self):\n    self.g_finalize_calls += 1\n    self._freeze_path = True\n"
P_WILL_RUN = "patch = property(lambda self: self.g_will_run)\n"
P_UNM_AVAIL = "patch = property(lambda self: self.g_unmatched_available)\n"

NEXT_MACROS = dict(MACROS)
NEXT_MACROS.update({
    "R": ([], "self.g_records"),
    "nostop_before": (["j"], "forall_int(0, j, lambda k: not self.g_records[k].g_stops)"),
})


def next_interfaces():
    cs = []
    cs.append(Contract(
        target=f"{CP}::CsvPath._next_line", interface=True, types={}, ensures={}, returns="expr:self.g_records", class_fields=CF,
        assumptions=["CsvPath._next_line() yields the records of the file in file order (csv.reader; C06), calling track_line for each; "
                     "Python's generator protocol: code after a yield runs only when the generator is advanced"]))
    cs.append(Contract(
        target=f"{CP}::CsvPath._consider_line", interface=True, variant="as_seen_by_next", types={},
        modifies=["self.stopped", "self.g_considered"],
        ensures={"verdict": "result == line.g_verdict", "stop": "self.stopped == (old(self.stopped) or line.g_stops)",
                 "logged": "self.g_considered == old(self.g_considered) + [line]"},
        returns="bool", class_fields=CF, native={"callee_default": True},
        assumptions=["_consider_line(line) returns the line's verdict and may stop the run (own contract below)"]))
    cs.append(Contract(
        target=f"{CP}::CsvPath.limit_collection", interface=True, variant="identity", types={},
        requires=[], ensures={}, returns="expr:line", class_fields=CF, native={"callee_default": True},
        assumptions=["no collect() projection is active (limit_collection is the identity; its own contract covers the projection)"]))
    cs.append(Contract(
        target=f"{CP}::CsvPath.finalize", interface=True, types={}, modifies=["self.g_finalize_calls", "self._freeze_path"],
        ensures={"counted": "self.g_finalize_calls == old(self.g_finalize_calls) + 1", "frozen": "self._freeze_path == True"},
        returns="none", class_fields=CF))
    cs.append(Contract(target=f"{CP}::CsvPath.will_run", interface=True, types={}, ensures={"flag": "result == self.g_will_run"},
                       returns="bool", class_fields=CF, assumptions=["run-mode is read as an abstract flag (mode getters are under contract in C15)"]))
    cs.append(Contract(target=f"{CP}::CsvPath.unmatched_available", interface=True, types={},
                       ensures={"flag": "result == self.g_unmatched_available"}, returns="bool", class_fields=CF,
                       assumptions=["unmatched-mode is read as an abstract flag (C15)"]))
    return cs


def csvpath_next():
    n = "len(self.g_records)"
    return Contract(
        target=f"{CP}::CsvPath.next",
        types={"csvpath": "none", "self.scanner": "obj:Scanner", "self.scanner.filename": "str", "self._unmatched": "list[int]",
               "self._line_monitor": "obj:LineMonitor"},
        requires=["not self.stopped", "len(self.g_yielded) == 0", "len(self._unmatched) == 0", "len(self.g_considered) == 0",
                  "self._line_monitor._physical_end_line_count is not None and self._line_monitor._physical_end_line_count > 0",
                  "forall_int(0, %s, lambda k: self.g_records[k].g_len > 0 or not self.g_records[k].g_verdict)" % n],
        modifies=["self.g_yielded", "self._unmatched", "self.stopped", "self.g_finalize_calls", "self._freeze_path", "self.total_iteration_time",
                  "self.g_considered"],
        yield_to="self.g_yielded",
        ensures={
            "yields_exactly_the_accepted_lines": "forall_int(0, %s, lambda j: (j in self.g_yielded) == "
                                                 "(self.g_will_run and self.g_records[j].g_verdict and nostop_before(j)))" % n,
            "once_in_file_order": "strictly_increasing(self.g_yielded)",
            "nothing_else_yielded": "forall_int(lambda x: implies(x in self.g_yielded, 0 <= x and x < %s))" % n,
            "no_record_after_the_stopping_one": "forall_int(lambda x: implies(x in self.g_considered, nostop_before(x)))",
            "considers_every_record_until_stop": "forall_int(0, %s, lambda j: (j in self.g_considered) == (self.g_will_run and nostop_before(j)))" % n,
            "unmatched_is_the_complement": "implies(self._collecting and self.g_unmatched_available, forall_int(0, %s, lambda j: "
                                           "(j in self._unmatched) == (self.g_will_run and not self.g_records[j].g_verdict and nostop_before(j))))" % n,
            "unmatched_in_file_order": "strictly_increasing(self._unmatched)",
            "no_run_reads_nothing": "implies(not self.g_will_run, len(self.g_considered) == 0 and len(self.g_yielded) == 0)",
            "finalizes": "self.g_finalize_calls == old(self.g_finalize_calls) + 1",
        },
        invariants={0: [
            "forall_int(0, _i0, lambda k: not self.g_records[k].g_stops)",
            "not self.stopped",
            "forall_int(0, %s, lambda j: (j in self.g_yielded) == (j < _i0 and self.g_records[j].g_verdict))" % n,
            "forall_int(0, %s, lambda j: (j in self.g_considered) == (j < _i0))" % n,
            "implies(self._collecting and self.g_unmatched_available, forall_int(0, %s, lambda j: (j in self._unmatched) == (j < _i0 and not self.g_records[j].g_verdict)))" % n,
            "strictly_increasing(self.g_yielded)", "strictly_increasing(self._unmatched)",
            "forall_int(lambda x: implies(x in self.g_yielded, 0 <= x and x < _i0))",
            "forall_int(lambda x: implies(x in self._unmatched, 0 <= x and x < _i0))",
            "forall_int(lambda x: implies(x in self.g_considered, 0 <= x and x < _i0))",
            "self.g_finalize_calls == old(self.g_finalize_calls)", "self.g_will_run",
            "implies(not (self._collecting and self.g_unmatched_available), len(self._unmatched) == 0)",
        ]},
        loop_havoc={0: ["self.g_yielded", "self._unmatched", "self.stopped", "self.g_considered"]},
        covers={"stops_midfile": "self.stopped and len(self.g_considered) < %s" % n, "yielded_two": "len(self.g_yielded) == 2",
                "kept_unmatched": "len(self._unmatched) == 1 and len(self.g_yielded) == 1"},
        inline=["CsvPath.unmatched", "CsvPath.unmatched.setter", "CsvPath.collecting", "CsvPath.line_monitor"],
        macros=NEXT_MACROS, class_fields=CF, returns="none",
        native={"patches": {"csvpath.csvpath.CsvPath._next_line": P_NEXT_LINE, "csvpath.csvpath.CsvPath._consider_line": P_CONSIDER,
                            "csvpath.csvpath.CsvPath.limit_collection": P_LIMIT, "csvpath.csvpath.CsvPath.finalize": P_FINALIZE,
                            "csvpath.csvpath.CsvPath.will_run": P_WILL_RUN, "csvpath.csvpath.CsvPath.unmatched_available": P_UNM_AVAIL},
                "record_list": "self.g_records", "record_lists": ["self._unmatched"],
                "defaults": {"LineMonitor": {"_physical_end_line_count": 1, "_physical_line_number": 0}}},
        property_clauses={"yields_exactly_the_accepted_lines": "C01,C13,C15", "once_in_file_order": "C01", "nothing_else_yielded": "C01",
                          "no_record_after_the_stopping_one": "C13,C07", "considers_every_record_until_stop": "C01,C02,C07",
                          "unmatched_is_the_complement": "C15", "unmatched_in_file_order": "C15", "no_run_reads_nothing": "C15", "finalizes": "C07"},
        doc={"yields_exactly_the_accepted_lines": "C01: 'next()/collect() return exactly those scanned lines on which the match components ... hold'",
             "once_in_file_order": "C01: 'Each such line is returned once, in file order'",
             "no_record_after_the_stopping_one": "C13: 'When stop() fires ... no later line is evaluated'",
             "unmatched_is_the_complement": "C15: 'the collected lines and the unmatched lines together are exactly the records read, each once'",
             "no_run_reads_nothing": "C15: 'run-mode no-run reads nothing and returns nothing'"},
        assumptions=["records with a True verdict are non-empty (blank records never get a True verdict: _consider_line contract)"],
    )


# ----------------------------------------------------------------------------------------------- CsvPath._consider_line
CF["CsvPath"].update({"rows_time": "real", "last_row_time": "real", "g_fired_stop": "bool", "g_early_count": "bool"})
CF["ReturnMode"] = {"_return_mode": "bool"}
CF["Scanner"] = {"from_line": "optint", "to_line": "optint", "all_lines": "bool", "these": "list[int]", "csvpath": "obj"}

P_CSVPATH_MATCHES = ("def patch(self, line):\n    self.g_matches_calls += 1\n    if self.g_fired_stop:\n        self.stopped = True\n"
                     "    if self.g_early_count:\n        self.raise_match_count_if()\n    return self.g_line_matches\n")

CL_MACROS = dict(MACROS)
CL_MACROS.update({
    "pln": ([], "self._line_monitor._physical_line_number"),
    "blank_last": ([], "self._line_monitor._physical_end_line_number == self._line_monitor._physical_line_number and len(line) == 0"),
    "denoted": ([], "(self.scanner.all_lines and (self.scanner.from_line is None or pln() >= self.scanner.from_line)) or "
                    "(not self.scanner.all_lines and self.scanner.from_line is not None and self.scanner.to_line is not None and "
                    " (self.scanner.from_line if self.scanner.from_line <= self.scanner.to_line else self.scanner.to_line) <= pln() and "
                    " pln() <= (self.scanner.from_line if self.scanner.from_line >= self.scanner.to_line else self.scanner.to_line)) or "
                    "(not self.scanner.all_lines and self.scanner.from_line is None and self.scanner.to_line is None and pln() in self.scanner.these)"),
    "offered": ([], "not blank_last() and not (self.skip_blank_lines and len(line) == 0) and denoted()"),
    "cwnm": ([], "self.modes.return_mode._return_mode is True"),
})


def consider_line_interfaces():
    return [Contract(
        target=f"{CP}::CsvPath.matches", interface=True, variant="as_seen_by_consider_line", types={"line": "list[str]"},
        modifies=["self.g_matches_calls", "self.stopped", "self._is_valid", "self.match_count", "self._advance"],
        ensures={"verdict": "same(result, self.g_line_matches)", "counted": "self.g_matches_calls == old(self.g_matches_calls) + 1",
                 "stop": "self.stopped == (old(self.stopped) or self.g_fired_stop)",
                 "valid_monotone": "implies(self._is_valid, old(self._is_valid))",
                 "early_count": "self.match_count == (old(self.match_count) + 1 if (self.g_early_count and old(self._current_match_count) == old(self.match_count)) else old(self.match_count))",
                 "advance_only_grows": "self._advance >= old(self._advance)"},
        returns="optbool", class_fields=CF, native={"callee_default": True},
        assumptions=["CsvPath.matches(line) returns the matcher's verdict for the line; while matching, an onmatch look-ahead may raise the "
                     "match count early (through raise_match_count_if only), stop()/fail()/advance() may fire"])]


def raise_match_count_if():
    return Contract(
        target=f"{CP}::CsvPath.raise_match_count_if", types={},
        modifies=["self.match_count"],
        ensures={"once": "self.match_count == (old(self.match_count) + 1 if old(self._current_match_count) == old(self.match_count) else old(self.match_count))"},
        class_fields=CF, macros=MACROS, returns="none",
        property_clauses={"once": "C03"},
        doc={"once": "C03: 'match_count the number of lines that matched' -- raised at most once per line, however many callers ask"})


def consider_line():
    from . import C02
    return Contract(
        target=f"{CP}::CsvPath._consider_line",
        types={"line": "list[str]", "self.scanner": "obj:Scanner", "self._line_monitor": "obj:LineMonitor", "self.scanner.csvpath": "obj",
               "self.scanner.csvpath.line_monitor": "obj", "self.scanner.csvpath.line_monitor.physical_end_line_number": "optint"},
        requires=["self._line_monitor._physical_line_number is not None and self._line_monitor._physical_line_number >= 0",
                  "self._advance >= 0", "self.scan_count >= 0",
                  # the scanner state is one of the shapes a parse leaves (C02 lemma)
                  "(self.scanner.from_line is None or self.scanner.from_line >= 0) and (self.scanner.to_line is None or self.scanner.to_line >= 0) and ("
                  "(self.scanner.all_lines and self.scanner.to_line is None and len(self.scanner.these) == 0) or "
                  "(not self.scanner.all_lines and self.scanner.from_line is not None and self.scanner.to_line is not None and len(self.scanner.these) == 0) or "
                  "(not self.scanner.all_lines and self.scanner.from_line is None and self.scanner.to_line is None))"],
        modifies=["self.scan_count", "self.match_count", "self._current_match_count", "self._advance", "self.stopped", "self._is_valid",
                  "self._freeze_path", "self.g_matches_calls", "self.last_row_time", "self.rows_time"],
        ensures={
            # ---- C02
            "offers_exactly_the_denoted_nonblank_lines": "self.scan_count == old(self.scan_count) + (1 if offered() else 0)",
            "no_match_attempt_on_other_lines": "implies(not offered() and not blank_last(), result == False and self.g_matches_calls == old(self.g_matches_calls) "
                                               "and self.match_count == old(self.match_count) and self.stopped == old(self.stopped))",
            "stops_after_last_denoted_line": "implies(offered() and not self.scanner.all_lines and ("
                                             "(self.scanner.to_line is not None and pln() == (self.scanner.from_line if self.scanner.from_line >= self.scanner.to_line else self.scanner.to_line)) or "
                                             "(self.scanner.to_line is None and len(self.scanner.these) > 0 and pln() == max(self.scanner.these))), self.stopped)",
            # ---- C13
            "advancing_line_has_no_effect": "implies(offered() and old(self._advance) > 0, self._advance == old(self._advance) - 1 and "
                                            "self.g_matches_calls == old(self.g_matches_calls) and self.match_count == old(self.match_count) and result == cwnm())",
            "a_line_that_is_not_offered_does_not_use_up_the_advance": "implies(not offered() and not blank_last(), self._advance == old(self._advance))",
            "blank_last_line_fires_lasts_only": "implies(blank_last(), result == False and self._freeze_path == True and "
                                                "self.g_matches_calls == old(self.g_matches_calls) + 1 and self.scan_count == old(self.scan_count))",
            # ---- C01 / C15
            "verdict": "implies(offered() and old(self._advance) == 0, result == ((self.g_line_matches is True) != cwnm()) and "
                       "self.g_matches_calls == old(self.g_matches_calls) + 1)",
            "result_is_bool": "result is True or result is False",
            # ---- C03
            "match_count_exactly_once_per_matching_line": "implies(offered() and old(self._advance) == 0 and self.g_line_matches is True, "
                                                          "self.match_count == old(self.match_count) + 1)",
            "match_count_not_raised_here_otherwise": "implies(offered() and old(self._advance) == 0 and not (self.g_line_matches is True) and not self.g_early_count, "
                                                     "self.match_count == old(self.match_count))",
            # ---- C04
            "validity_monotone": "implies(self._is_valid, old(self._is_valid))",
        },
        covers={"offered_line_zero": "offered() and pln() == 0 and result == True",
                "inverted": "cwnm() and result == True and not (self.g_line_matches is True)",
                "advanced": "old(self._advance) == 2 and self._advance == 1"},
        inline=["CsvPath.line_monitor", "LineMonitor.is_last_line_and_blank", "LineMonitor.physical_line_number", "CsvPath.advance_count",
                "CsvPath.advance_count.setter", "CsvPath.collect_when_not_matched", "ReturnMode.collect_when_not_matched", "ReturnMode.value",
                "CsvPath.stop"],
        macros={**C02.MACROS, **CL_MACROS}, class_fields=CF, returns="bool",
        native={"patches": {"csvpath.csvpath.CsvPath.matches": P_CSVPATH_MATCHES},
                "defaults": {"Scanner": {"csvpath": None}, "CsvPath": {"metadata": {}}}},
        property_clauses={"offers_exactly_the_denoted_nonblank_lines": "C02,C03", "no_match_attempt_on_other_lines": "C02",
                          "stops_after_last_denoted_line": "C02", "advancing_line_has_no_effect": "C13", "a_line_that_is_not_offered_does_not_use_up_the_advance": "C13", "blank_last_line_fires_lasts_only": "C13",
                          "verdict": "C01,C15", "result_is_bool": "C01", "match_count_exactly_once_per_matching_line": "C03,C15",
                          "match_count_not_raised_here_otherwise": "C03,C15", "validity_monotone": "C04"},
        doc={"offers_exactly_the_denoted_nonblank_lines": "C02: 'The lines offered to the match part are exactly those the scan part denotes ... blank records are never offered'; C03: 'scan_count equals the number of lines offered'",
             "advancing_line_has_no_effect": "C13: 'advance(n) makes the next n scanned lines pass without matching, counting as matches or causing any side effect'",
             "a_line_that_is_not_offered_does_not_use_up_the_advance": "C13: 'advance(n) makes the next n SCANNED lines pass' -- lines outside the scan window and blank records do not count",
             "blank_last_line_fires_lasts_only": "C13: 'last() ... still fires, without returning a line, when the file ends in a blank line'",
             "verdict": "C01 / C15: 'return-mode no-matches returns exactly the scanned lines that the default mode does not'",
             "match_count_exactly_once_per_matching_line": "C03: 'match_count the number of lines that matched'"},
    )


def line_monitor_next_line():
    cfl = {k: dict(v) for k, v in CF.items()}
    cfl["LineMonitor"]["_last_line_stats"] = "val"
    return Contract(
        target=f"{LM}::LineMonitor.next_line",
        types={"last_line": "list[str]", "data": "list[str]"},
        requires=["(self._physical_line_count is None) == (self._physical_line_number is None)",
                  "(self._physical_line_count is None) == (self._data_line_count is None)",
                  "(self._physical_line_count is None) == (self._data_line_number is None)",
                  "implies(self._physical_line_count is not None, self._physical_line_count == self._physical_line_number + 1 and self._physical_line_number >= 0 "
                  "and self._data_line_count is not None and self._data_line_number is not None and self._data_line_count >= -1)"],
        modifies=["self._physical_line_count", "self._physical_line_number", "self._data_line_count", "self._data_line_number", "self._last_line_stats"],
        ensures={
            "physical_number_counts_records_from_zero": "self._physical_line_number == (0 if old(self._physical_line_number) is None else old(self._physical_line_number) + 1)",
            "physical_count_is_number_plus_one": "self._physical_line_count == self._physical_line_number + 1",
            "data_count_moves_only_for_nonblank_records": "implies(len(data) == 0 and old(self._data_line_count) is not None, "
                                                          "same(self._data_line_count, old(self._data_line_count)) and same(self._data_line_number, old(self._data_line_number)))",
            "data_count_is_one_based_count_of_nonblank_records": "implies(len(data) > 0, self._data_line_count == "
                                                                 "(1 if (old(self._data_line_count) is None or old(self._data_line_count) == -1) else old(self._data_line_count) + 1) "
                                                                 "and self._data_line_number == self._physical_line_number)",
        },
        covers={"first_blank_then_data": "old(self._data_line_count) == -1 and self._data_line_count == 1"},
        opaque_new=["LastLineStats"], class_fields=cfl, macros=MACROS, returns="none",
        native={"defaults": {}},
        property_clauses={"physical_number_counts_records_from_zero": "C02,C03", "physical_count_is_number_plus_one": "C03",
                          "data_count_moves_only_for_nonblank_records": "C03,C02", "data_count_is_one_based_count_of_nonblank_records": "C03",
                          "cover:first_blank_then_data": "C03"},
        doc={"physical_number_counts_records_from_zero": "C02: 'line numbers are 0-based positions of CSV records'; C03: line_number() reports the 0-based position",
             "data_count_is_one_based_count_of_nonblank_records": "C03: count_lines() reports the 1-based position among data lines"})


def select(cs, idents):
    """all contracts stay available as callees; only the listed ones (and none of the interfaces) are verified by the calling property"""
    for c in cs:
        if not c.interface and c.ident not in idents:
            c._foreign = True
    return cs


def contracts():
    from . import C02
    c02 = [c for c in C02.scanner_contracts() if c.ident in ("Scanner.includes", "Scanner.is_last")]
    for c in c02:
        c._foreign = True
    return ([matcher_matches(), csvpath_next(), consider_line(), raise_match_count_if(), line_monitor_next_line()] + interface_contracts() + next_interfaces()
            + consider_line_interfaces() + c02)
