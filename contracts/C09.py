"""C09 -- the archived results of a run say what the run did."""
from . import core, shared, managers
USES = ["shared"]


from pyvc.contract import Contract
from .core import CF, MACROS
RS = "csvpath/managers/results/result_serializer.py"


def serializer_contracts():
    cs = []
    idir = "path_join(run_dir, identity)"
    cs.append(Contract(
        target=f"{RS}::ResultSerializer.get_instance_dir", types={"run_dir": "str", "identity": "str"},
        ensures={"the_members_own_directory_under_the_run_directory": "result == path_join(run_dir, identity)"},
        class_fields=CF, macros=MACROS, returns="str", native={"skip": True},
        property_clauses={"the_members_own_directory_under_the_run_directory": "C09,C10"}))
    cs.append(Contract(
        target=f"{RS}::ResultSerializer._save", variant="json_files",
        types={"metadata": "dict[str,val]", "runtime_data": "dict[str,val]", "errors": "list[val]", "variables": "dict[str,val]", "lines": "none", "printouts": "none",
               "paths_name": "str", "file_name": "str", "identity": "str", "run_time": "val", "run_dir": "str", "run_index": "int", "unmatched": "none"},
        ensures={"exactly_the_three_json_files": "effects_count('json.dump') == 3",
                 "meta_json_in_the_members_directory": "effect_path('json.dump', 0) == path_join(%s, 'meta.json')" % idir,
                 "meta_json_says_which_run_this_was": "effect_payload('json.dump', 0)['paths_name'] == paths_name and effect_payload('json.dump', 0)['file_name'] == file_name and "
                                                      "effect_payload('json.dump', 0)['identity'] == identity and effect_payload('json.dump', 0)['run_index'] == run_index and "
                                                      "effect_payload('json.dump', 0)['run_time'] == str_of(run_time)",
                 "meta_json_carries_the_metadata_and_runtime_data": "same(effect_payload('json.dump', 0)['metadata'], metadata) and same(effect_payload('json.dump', 0)['runtime_data'], runtime_data)",
                 "errors_json_is_the_error_list": "effect_path('json.dump', 1) == path_join(%s, 'errors.json') and effect_payload('json.dump', 1) == errors" % idir,
                 "vars_json_is_the_variables": "effect_path('json.dump', 2) == path_join(%s, 'vars.json') and same(effect_payload('json.dump', 2), variables)" % idir},
        inline=["ResultSerializer._has_printouts"],
        class_fields=CF, macros=MACROS, returns="none", native={"skip": True},
        property_clauses={k: "C09" for k in ("exactly_the_three_json_files", "meta_json_in_the_members_directory", "meta_json_says_which_run_this_was",
                                             "meta_json_carries_the_metadata_and_runtime_data", "errors_json_is_the_error_list", "vars_json_is_the_variables")},
        doc={"vars_json_is_the_variables": "C09: 'vars.json holds the variables the run ended with'", "errors_json_is_the_error_list": "C09: 'errors.json holds the errors collected'"},
        assumptions=["json.dump(obj, f) writes obj to the file opened at that path (ghost effect log); the json text itself is external (bounded read-back in C09.bounded)"]))
    # ---- the member manifest says what the run did
    RR = "csvpath/managers/results/result_registrar.py"
    MD = "csvpath/managers/metadata.py"
    CF["ResultMetadata"] = {"_time": "val", "by_line": "optbool", "archive_name": "val", "named_results_name": "val", "run": "val", "run_home": "val", "instance_identity": "val",
                            "instance_index": "val", "instance_home": "val", "file_fingerprints": "dict[str,val]", "files_expected": "val", "file_count": "val", "valid": "optbool",
                            "completed": "optbool", "source_mode_preceding": "optbool", "preceding_instance_identity": "val", "actual_data_file": "val", "origin_data_file": "val",
                            "named_file_name": "val", "transfers": "val", "error_count": "val", "index_instance": "val", "input_data_file": "val"}
    CF["ResultRegistrar"] = {"g_manifest_path": "str", "result": "obj:Result", "g_completed": "bool", "g_expected": "val", "g_fingerprints": "val", "g_distributed": "int",
                             "g_archive_name": "str"}

    def iface(target, types, ensures=None, modifies=None, returns="none", why=""):
        cs.append(Contract(target=target, interface=True, types=types, ensures=ensures or {}, modifies=modifies or [], returns=returns, class_fields=CF, assumptions=[why]))
    iface(f"{MD}::Metadata.time_string", {}, returns="val", why="Metadata.time_string is the ISO form of the metadata's time")
    iface(f"{MD}::Metadata.uuid_string", {}, returns="val", why="Metadata.uuid_string is the metadata's uuid as text")
    iface("csvpath/managers/results/result_metadata.py::ResultMetadata.named_paths_uuid_string", {}, returns="val", why="the named-paths manifest's uuid as text")
    iface(f"{RR}::ResultRegistrar.manifest_path", {}, returns="str", ensures={"p": "result == self.g_manifest_path"},
          why="ResultRegistrar.manifest_path is <run dir>/<identity>/manifest.json (get_instance_dir: proved in this module)")
    pay = "effect_payload('json.dump', 0)"
    cs.append(Contract(
        target=f"{RR}::ResultRegistrar.metadata_update", types={"mdata": "obj:ResultMetadata", "mdata._time": "val"}, requires=["mdata._time is not None"],
        ensures={"one_manifest_written_at_the_members_manifest_path": "effects_count('json.dump') == 1 and effect_path('json.dump', 0) == self.g_manifest_path",
                 "says_whether_the_member_is_valid_and_completed": f"same({pay}['valid'], mdata.valid) and same({pay}['completed'], mdata.completed)",
                 "names_the_actual_and_the_origin_input": f"same({pay}['actual_data_file'], mdata.actual_data_file) and same({pay}['origin_data_file'], mdata.origin_data_file) and "
                                                          f"same({pay}['named_file_name'], mdata.named_file_name)",
                 "identifies_the_member_and_its_run": f"same({pay}['instance_identity'], mdata.instance_identity) and same({pay}['run_home'], mdata.run_home) and "
                                                      f"same({pay}['instance_home'], mdata.instance_home) and same({pay}['named_results_name'], mdata.named_results_name)",
                 "lists_the_files_and_their_fingerprints": f"same({pay}['file_fingerprints'], mdata.file_fingerprints) and same({pay}['files_expected'], mdata.files_expected) and "
                                                           f"same({pay}['file_count'], mdata.file_count)",
                 "serial_is_not_by_line": f"{pay}['serial'] == (mdata.by_line is False)"},
        class_fields=CF, macros=MACROS, returns="none", native={"skip": True},
        property_clauses={k: "C09" for k in ("one_manifest_written_at_the_members_manifest_path", "says_whether_the_member_is_valid_and_completed",
                                             "identifies_the_member_and_its_run", "lists_the_files_and_their_fingerprints")} | {"names_the_actual_and_the_origin_input": "C09,C20"},
        doc={"says_whether_the_member_is_valid_and_completed": "C09: 'each member's manifest.json says whether it was valid and completed'",
             "names_the_actual_and_the_origin_input": "C20: 'its manifest names that data.csv as actual input'"}))
    RES = "csvpath/managers/results/result.py"
    CF["Result"] = {**CF.get("Result", {}), "_run_dir": "str", "_run_time": "val", "_paths_name": "val", "_file_name": "val", "run_index": "val", "_by_line": "val",
                    "_errors": "list[val]", "_csvpath": "obj:CsvPath", "g_identity_or_index": "val", "g_preceding": "val", "g_instance_dir": "val", "g_actual": "val", "g_origin": "val"}
    CF["CsvPath"].update({"g_completed": "bool", "g_transfers": "val"})
    iface(f"{RR}::ResultRegistrar.manifest", {}, returns="val", why="ResultRegistrar.manifest reads the member manifest written so far (json.load)")
    iface("csvpath/managers/results/result_metadata.py::ResultMetadata.from_manifest", {"m": "val"}, why="from_manifest copies time/uuid fields of the start record")
    iface(f"{RR}::ResultRegistrar.archive_name", {}, returns="val", why="archive_name is the last path segment of the archive path")
    iface(f"{RR}::ResultRegistrar.file_fingerprints", {}, returns="dict[str,val]", ensures={}, why="file_fingerprints hashes the files in the member's directory (bounded read-back)")
    iface(f"{RR}::ResultRegistrar.all_expected_files", {}, returns="val", ensures={"f": "same(result, self.g_expected)"}, why="all_expected_files compares files-mode with the files present")
    iface("csvpath/managers/registrar.py::Registrar.distribute_update", {"mdata": "val"}, modifies=["self.g_distributed"], ensures={"n": "self.g_distributed == old(self.g_distributed) + 1"},
          why="distribute_update hands the metadata to metadata_update (own contract above) and the other listeners")
    iface(f"{RES}::Result.identity_or_index", {}, returns="val", ensures={"v": "same(result, self.g_identity_or_index)"}, why="Result.identity_or_index")
    iface(f"{RES}::Result.source_mode_preceding", {}, returns="val", ensures={"v": "same(result, self.g_preceding)"}, why="Result.source_mode_preceding is the csvpath's source-mode")
    iface(f"{RES}::Result.instance_dir", {}, returns="val", ensures={"v": "same(result, self.g_instance_dir)"}, why="Result.instance_dir is run_dir/identity (get_instance_dir)")
    iface(f"{RES}::Result.actual_data_file", {}, returns="val", ensures={"v": "same(result, self.g_actual)"}, why="Result.actual_data_file is the file the csvpath's scanner read")
    iface(f"{RES}::Result.origin_data_file", {}, returns="val", ensures={"v": "same(result, self.g_origin)"}, why="Result.origin_data_file is the stored named file")
    iface("csvpath/csvpath.py::CsvPath.completed", {}, returns="bool", ensures={"v": "result == self.g_completed"}, why="CsvPath.completed: the current line is the scan's last line (known finding C18)")
    iface("csvpath/csvpath.py::CsvPath.transfers", {}, returns="val", ensures={"v": "same(result, self.g_transfers)"}, why="CsvPath.transfers is the transfer-mode setting")
    iface(f"{RS}::ResultSerializer.get_run_dir_name_from_datetime", {"dt": "val"}, returns="val", why="formats the run's start time (C10)")
    cs.append(Contract(
        target=f"{RR}::ResultRegistrar.register_complete", variant="first_member_no_transfers",
        types={"mdata": "obj:ResultMetadata", "self.result": "obj:Result", "self.result._csvpath": "obj:CsvPath", "self.result_serializer": "obj:ResultSerializer",
               "self.result.run_index": "int", "self.result._errors": "list[val]"},
        requires=["self.result.run_index == 0", "not truthy(self.result._csvpath.g_transfers)"],
        modifies=["mdata.archive_name", "mdata.named_results_name", "mdata.run", "mdata.by_line", "mdata.source_mode_preceding", "mdata.run_home", "mdata.instance_home",
                  "mdata.instance_identity", "mdata.index_instance", "mdata.named_file_name", "mdata.input_data_file", "mdata.file_fingerprints", "mdata.file_count",
                  "mdata.error_count", "mdata.valid", "mdata.completed", "mdata.files_expected", "mdata.actual_data_file", "mdata.origin_data_file", "self.g_distributed"],
        ensures={"verdict_is_the_csvpaths_verdict": "mdata.valid == self.result._csvpath._is_valid",
                 "completed_is_the_csvpaths_completed": "mdata.completed == self.result._csvpath.g_completed",
                 "error_count_is_the_number_of_errors_collected": "mdata.error_count == self.result.g_errors_count",
                 "names_the_file_actually_read": "same(mdata.actual_data_file, self.result.g_actual) and same(mdata.origin_data_file, self.result.g_origin)",
                 "identifies_the_member": "same(mdata.instance_identity, self.result.g_identity_or_index) and same(mdata.run_home, self.result._run_dir) and "
                                          "same(mdata.instance_home, self.result.g_instance_dir)",
                 "distributed_once": "self.g_distributed == old(self.g_distributed) + 1"},
        inline=["CsvPath.is_valid", "ResultRegistrar.completed"], class_fields=CF, macros=MACROS, returns="none", native={"skip": True},
        property_clauses={k: "C09" for k in ("verdict_is_the_csvpaths_verdict", "completed_is_the_csvpaths_completed", "error_count_is_the_number_of_errors_collected",
                                             "identifies_the_member", "distributed_once")} | {"names_the_file_actually_read": "C09,C20"},
        doc={"verdict_is_the_csvpaths_verdict": "C09: 'manifest.json ... valid'; C04: the archived verdict is the run's verdict"}))
    # ---- ResultsManager.save: the member's files are written first, then fingerprinted into its manifest -- each once, for this result
    RM = "csvpath/managers/results/results_manager.py"
    CF["Result"].update({"g_serialized": "int", "g_registered": "int", "g_lines_is_spooler": "bool", "g_spooler_closed": "int"})
    CF["ResultsManager"] = {**CF.get("ResultsManager", {}), "_csvpaths": "obj:CsvPaths", "csvpaths": "obj:CsvPaths"}
    iface(f"{RM}::ResultsManager.do_transfers_if", {"result": "val"}, why="do_transfers_if copies data.csv/unmatched.csv to the transfer-mode targets (not part of C09)")
    iface(f"{RS}::ResultSerializer.__init__", {"base_dir": "val"}, why="ResultSerializer(base_dir) remembers the archive directory")
    iface(f"{RS}::ResultSerializer.save_result", {"result": "obj:Result"}, modifies=["result.g_serialized"], ensures={"n": "result.g_serialized == old(result.g_serialized) + 1"},
          why="ResultSerializer.save_result is under its own contract (C10: under the run's own directory; this module: _save)")
    cs[-1].variant = "counted"
    iface(f"{RR}::ResultRegistrar.__init__", {"csvpaths": "val", "result": "obj:Result", "result_serializer": "val"}, modifies=["self.result"],
          ensures={"for_this_result": "self.result is result"}, why="ResultRegistrar(...) remembers the result it registers")
    cs.append(Contract(target=f"{RR}::ResultRegistrar.register_complete", interface=True, variant="counted", types={"mdata": "val"},
                       requires=["self.result.g_serialized > self.result.g_registered"], modifies=["self.result.g_registered"],
                       ensures={"n": "self.result.g_registered == old(self.result.g_registered) + 1"}, returns="none", class_fields=CF,
                       assumptions=["ResultRegistrar.register_complete fingerprints the files in the member's directory and writes its manifest (own contract above); "
                                    "its precondition here: the files of this save have been written"]))
    iface("csvpath/csvpaths.py::CsvPaths.config", {}, returns="obj:Config", why="CsvPaths.config is the instance's Config")
    iface("csvpath/util/config.py::Config.archive_path", {}, returns="val", why="Config.archive_path is the configured archive directory")
    iface(f"{RES}::Result.lines", {}, returns="val", why="Result.lines is the member's line spooler or list (closing a spooler is the bounded script's subject)")
    cs.append(Contract(
        target=f"{RM}::ResultsManager.save", variant="list_lines",
        types={"result": "obj:Result", "self._csvpaths": "obj:CsvPaths", "self.csvpaths": "obj:CsvPaths"},
        requires=["result.g_serialized == result.g_registered"],
        modifies=["result.g_serialized", "result.g_registered"],
        ensures={"serialised_once_and_registered_once": "result.g_serialized == old(result.g_serialized) + 1 and result.g_registered == old(result.g_registered) + 1"},
        callee_variants={"ResultSerializer.save_result": "counted", "ResultRegistrar.register_complete": "counted"},
        class_fields=CF, macros=MACROS, returns="none", native={"skip": True},
        property_clauses={"serialised_once_and_registered_once": "C09,C18", "call:ResultRegistrar.register_complete[counted].requires0": "C09"},
        doc={"serialised_once_and_registered_once": "C09: every member's files and manifest are written by save(); the manifest's fingerprints are taken after the files exist "
                                                    "(requires-at-call obligation of register_complete)"}))
    # ---- ResultsManager.complete_run: one run-manifest completion, for this run directory, these results
    RGS = "csvpath/managers/results/results_registrar.py"
    CF["ResultsRegistrar"] = {**CF.get("ResultsRegistrar", {}), "run_dir": "val", "pathsname": "val", "csvpaths": "obj:CsvPaths", "g_manifest_dict": "dict[str,val]"}
    CF["CsvPaths"].update({"g_run_completions": "int", "g_completed_run_home": "val", "g_completed_pathsname": "val", "g_completed_results": "val"})
    CF["ResultsMetadata"].update({"run_home": "val", "named_paths_name": "val", "named_results_name": "val", "archive_name": "val", "named_file_fingerprint": "val",
                             "named_file_fingerprint_on_file": "val", "named_file_name": "val", "named_file_path": "val"})
    iface(f"{RGS}::ResultsRegistrar.__init__", {"csvpaths": "obj:CsvPaths", "run_dir": "val", "pathsname": "val", "results": "val"},
          modifies=["self.csvpaths", "self.run_dir", "self.pathsname", "self.results"],
          ensures={"c": "self.csvpaths is csvpaths", "d": "same(self.run_dir, run_dir)", "p": "same(self.pathsname, pathsname)", "r": "same(self.results, results)"},
          why="ResultsRegistrar(csvpaths, run_dir, pathsname, results) remembers its arguments")
    cs[-1].class_fields = {**CF, "ResultsRegistrar": {**CF["ResultsRegistrar"], "results": "val"}}
    iface(f"{RGS}::ResultsRegistrar.manifest", {}, returns="expr:self.g_manifest_dict", ensures={"m": "result is self.g_manifest_dict"},
          why="ResultsRegistrar.manifest reads the run manifest written at the start of the run (json.load)")
    cs[-1].variant = "as_dict"
    cs.append(Contract(target=f"{RGS}::ResultsRegistrar.register_complete", interface=True, variant="logged", types={"mdata": "obj:ResultsMetadata"},
                       modifies=["self.csvpaths.g_run_completions", "self.csvpaths.g_completed_run_home", "self.csvpaths.g_completed_pathsname", "self.csvpaths.g_completed_results"],
                       ensures={"logged": "self.csvpaths.g_run_completions == old(self.csvpaths.g_run_completions) + 1 and same(self.csvpaths.g_completed_run_home, mdata.run_home) and "
                                          "same(self.csvpaths.g_completed_pathsname, mdata.named_paths_name) and same(self.csvpaths.g_completed_results, self.results)"},
                       returns="none", class_fields={**CF, "ResultsRegistrar": {**CF["ResultsRegistrar"], "results": "val"}},
                       assumptions=["ResultsRegistrar.register_complete is under its own contract (status / all_valid / all_completed / error_count of the members)"]))
    for nm in ("set_time",):
        iface(f"{MD}::Metadata.{nm}", {}, why="Metadata.set_time stamps the metadata with the current time")
    iface(f"{MD}::Metadata.time_string.setter", {"s": "val"}, why="time_string setter parses an ISO time")
    iface(f"{MD}::Metadata.uuid_string.setter", {"u": "val"}, why="uuid_string setter parses a uuid")
    iface("csvpath/util/config.py::Config.archive_name", {}, returns="val", why="Config.archive_name is the last segment of the archive path")
    cs.append(Contract(
        target=f"{RM}::ResultsManager.complete_run", types={"run_dir": "val", "pathsname": "val", "results": "val", "self._csvpaths": "obj:CsvPaths"},
        modifies=["self._csvpaths.g_run_completions", "self._csvpaths.g_completed_run_home", "self._csvpaths.g_completed_pathsname", "self._csvpaths.g_completed_results"],
        raises={"KeyError": {"when": "True", "exact": False}},
        ensures={"completes_this_run_once": "self._csvpaths.g_run_completions == old(self._csvpaths.g_run_completions) + 1 and same(self._csvpaths.g_completed_run_home, run_dir) and "
                                            "same(self._csvpaths.g_completed_pathsname, pathsname)",
                 "over_exactly_the_results_handed_in": "same(self._csvpaths.g_completed_results, results)"},
        stub_new=["ResultsMetadata"], callee_variants={"ResultsRegistrar.register_complete": "logged", "ResultsRegistrar.manifest": "as_dict"},
        class_fields={**CF, "ResultsRegistrar": {**CF["ResultsRegistrar"], "results": "val"}}, macros=MACROS, returns="none", native={"skip": True},
        property_clauses={"completes_this_run_once": "C09,C10", "over_exactly_the_results_handed_in": "C09"},
        doc={"over_exactly_the_results_handed_in": "C09: 'the run manifest's all_valid / all_completed / error_count are those of the members of this run'"}))
    return cs


def contracts():
    return core.select(managers.contracts(), ("ResultsRegistrar.all_valid", "ResultsRegistrar.all_completed", "ResultsRegistrar.error_count",
                                              "ResultsRegistrar.register_complete")) + serializer_contracts()


def bounded(tier, seed):
    return [{"name": "C09.bounded", "script": "native/bounded_C09.py",
             "scope": "4 groups of 2-3 csvpaths (stop, fail, fail_and_stop, errors, two print streams, unmatched keep) x 2 files (quotes, delimiters, "
                      "newlines, blank record) x the six run methods; every archived file compared with the in-memory results and its own bytes"}]


LEVEL = "other"
EXPLANATION = ("Proved: the run manifest's all_valid / all_completed / error_count / status written by ResultsRegistrar.register_complete are the "
               "conjunction / conjunction / sum over the members (unbounded loops). Bounded (not proved): every archived file of 48 real runs is "
               "read back and compared with the in-memory results and with its fingerprint. Proved too: ResultSerializer._save writes meta.json / errors.json / vars.json into the "
               "member's own directory with exactly the given identity, metadata, errors and variables (ghost effect log of json.dump); the csv and printout files are bounded only.")
ASSUMPTIONS = ["json/csv round trip and hashlib are external", "ResultRegistrar.register_complete (member manifest) and the data/unmatched/printouts files of _save are covered only by the bounded runs"]
