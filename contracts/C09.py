"""C09 -- the archived results of a run say what the run did."""
from . import core, shared, managers
USES = ["shared"]


from pyvc.contract import Contract
from .core import CF, MACROS
RS = "csvpath/managers/results/result_serializer.py"


def serializer_contracts():
    cs = []
    idir = "path_join(run_dir, identity)"
    cs.append(Contract(
        target=f"{RS}::ResultSerializer.get_instance_dir", types={"run_dir": "str", "identity": "str"},
        ensures={"the_members_own_directory_under_the_run_directory": "result == path_join(run_dir, identity)"},
        class_fields=CF, macros=MACROS, returns="str", native={"skip": True},
        property_clauses={"the_members_own_directory_under_the_run_directory": "C09,C10"}))
    cs.append(Contract(
        target=f"{RS}::ResultSerializer._save", variant="json_files",
        types={"metadata": "dict[str,val]", "runtime_data": "dict[str,val]", "errors": "list[val]", "variables": "dict[str,val]", "lines": "none", "printouts": "none",
               "paths_name": "str", "file_name": "str", "identity": "str", "run_time": "val", "run_dir": "str", "run_index": "int", "unmatched": "none"},
        ensures={"exactly_the_three_json_files": "effects_count('json.dump') == 3",
                 "meta_json_in_the_members_directory": "effect_path('json.dump', 0) == path_join(%s, 'meta.json')" % idir,
                 "meta_json_says_which_run_this_was": "effect_payload('json.dump', 0)['paths_name'] == paths_name and effect_payload('json.dump', 0)['file_name'] == file_name and "
                                                      "effect_payload('json.dump', 0)['identity'] == identity and effect_payload('json.dump', 0)['run_index'] == run_index and "
                                                      "effect_payload('json.dump', 0)['run_time'] == str_of(run_time)",
                 "meta_json_carries_the_metadata_and_runtime_data": "same(effect_payload('json.dump', 0)['metadata'], metadata) and same(effect_payload('json.dump', 0)['runtime_data'], runtime_data)",
                 "errors_json_is_the_error_list": "effect_path('json.dump', 1) == path_join(%s, 'errors.json') and effect_payload('json.dump', 1) == errors" % idir,
                 "vars_json_is_the_variables": "effect_path('json.dump', 2) == path_join(%s, 'vars.json') and same(effect_payload('json.dump', 2), variables)" % idir},
        inline=["ResultSerializer._has_printouts"],
        class_fields=CF, macros=MACROS, returns="none", native={"skip": True},
        property_clauses={k: "C09" for k in ("exactly_the_three_json_files", "meta_json_in_the_members_directory", "meta_json_says_which_run_this_was",
                                             "meta_json_carries_the_metadata_and_runtime_data", "errors_json_is_the_error_list", "vars_json_is_the_variables")},
        doc={"vars_json_is_the_variables": "C09: 'vars.json holds the variables the run ended with'", "errors_json_is_the_error_list": "C09: 'errors.json holds the errors collected'"},
        assumptions=["json.dump(obj, f) writes obj to the file opened at that path (ghost effect log); the json text itself is external (bounded read-back in C09.bounded)"]))
    return cs


def contracts():
    return core.select(managers.contracts(), ("ResultsRegistrar.all_valid", "ResultsRegistrar.all_completed", "ResultsRegistrar.error_count",
                                              "ResultsRegistrar.register_complete")) + serializer_contracts()


def bounded(tier, seed):
    return [{"name": "C09.bounded", "script": "native/bounded_C09.py",
             "scope": "4 groups of 2-3 csvpaths (stop, fail, fail_and_stop, errors, two print streams, unmatched keep) x 2 files (quotes, delimiters, "
                      "newlines, blank record) x the six run methods; every archived file compared with the in-memory results and its own bytes"}]


LEVEL = "other"
EXPLANATION = ("Proved: the run manifest's all_valid / all_completed / error_count / status written by ResultsRegistrar.register_complete are the "
               "conjunction / conjunction / sum over the members (unbounded loops). Bounded (not proved): every archived file of 48 real runs is "
               "read back and compared with the in-memory results and with its fingerprint. Proved too: ResultSerializer._save writes meta.json / errors.json / vars.json into the "
               "member's own directory with exactly the given identity, metadata, errors and variables (ghost effect log of json.dump); the csv and printout files are bounded only.")
ASSUMPTIONS = ["json/csv round trip and hashlib are external", "ResultRegistrar.register_complete (member manifest) and the data/unmatched/printouts files of _save are covered only by the bounded runs"]
