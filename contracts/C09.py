"""C09 -- the archived results of a run say what the run did."""
from . import core, shared, managers
USES = ["shared"]


def contracts():
    return core.select(managers.contracts(), ("ResultsRegistrar.all_valid", "ResultsRegistrar.all_completed", "ResultsRegistrar.error_count",
                                              "ResultsRegistrar.register_complete"))


def bounded(tier, seed):
    return [{"name": "C09.bounded", "script": "native/bounded_C09.py",
             "scope": "4 groups of 2-3 csvpaths (stop, fail, fail_and_stop, errors, two print streams, unmatched keep) x 2 files (quotes, delimiters, "
                      "newlines, blank record) x the six run methods; every archived file compared with the in-memory results and its own bytes"}]


LEVEL = "other"
EXPLANATION = ("Proved: the run manifest's all_valid / all_completed / error_count / status written by ResultsRegistrar.register_complete are the "
               "conjunction / conjunction / sum over the members (unbounded loops). Bounded (not proved): every archived file of 48 real runs is "
               "read back and compared with the in-memory results and with its fingerprint. The serializer's file writes are not yet under contract.")
ASSUMPTIONS = ["json/csv round trip and hashlib are external", "ResultSerializer._save and ResultRegistrar.register_complete are covered only by the bounded runs"]
