"""Contracts on the results managers / registrars (C04 aggregation, C09, C18)."""
from pyvc.contract import Contract
from . import shared
from .core import CF, MACROS

RM = "csvpath/managers/results/results_manager.py"
RSR = "csvpath/managers/results/results_registrar.py"
RES = "csvpath/managers/results/result.py"
CP = "csvpath/csvpath.py"

CF["Result"] = {"g_is_valid": "bool", "g_errors_count": "int", "_by_line": "bool", "_csvpath": "obj:CsvPath", "csvpath": "obj:CsvPath"}
CF["CsvPath"].update({"g_completed": "bool", "_run_started_at": "val"})
CF["ResultsManager"] = {"g_results": "objlist[Result]"}
CF["ResultsRegistrar"] = {"results": "objlist[Result]", "g_distributed": "int", "g_all_expected_files": "bool"}
CF["ResultsMetadata"] = {"status": "optstr", "all_valid": "optbool", "all_completed": "optbool", "error_count": "optint", "by_line": "optbool",
                         "all_expected_files": "optbool", "manifest_path": "optstr", "g_time_completed_set": "bool"}

P_RESULT_IS_VALID = "patch = property(lambda self: self.g_is_valid)\n"
P_ERRORS_COUNT = "patch = property(lambda self: self.g_errors_count)\n"
P_COMPLETED = "patch = property(lambda self: self.g_completed)\n"
NATIVE = {"patches": {"csvpath.managers.results.result.Result.is_valid": P_RESULT_IS_VALID,
                      "csvpath.managers.results.result.Result.errors_count": P_ERRORS_COUNT,
                      "csvpath.managers.results.result.Result.csvpath": "patch = property(lambda self: self._csvpath)\n",
                      "csvpath.csvpath.CsvPath.completed": P_COMPLETED,
                      "csvpath.managers.results.results_manager.ResultsManager.get_named_results": "def patch(self, name):\n    return self.g_results\n",
                      "csvpath.managers.results.results_registrar.ResultsRegistrar.manifest": "patch = property(lambda self: {})\n",
                      "csvpath.managers.results.results_registrar.ResultsRegistrar.manifest_path": "patch = property(lambda self: 'manifest.json')\n",
                      "csvpath.managers.results.results_registrar.ResultsRegistrar.all_expected_files": "def patch(self):\n    return self.g_all_expected_files\n",
                      "csvpath.managers.registrar.Registrar.distribute_update": "def patch(self, mdata):\n    self.g_distributed += 1\n",
                      "csvpath.managers.results.results_metadata.ResultsMetadata.from_manifest": "def patch(self, m):\n    pass\n",
                      "csvpath.managers.results.results_metadata.ResultsMetadata.set_time_completed": "def patch(self):\n    self.g_time_completed_set = True\n"},
          "defaults": {}}


def interfaces():
    cs = []
    cs.append(Contract(target=f"{RES}::Result.is_valid", interface=True, types={}, ensures={"verdict": "result == self.g_is_valid"},
                       returns="bool", class_fields=CF, native={"callee_default": True},
                       assumptions=["Result.is_valid is the member csvpath's verdict (own contract Result.is_valid[body])"]))
    cs.append(Contract(target=f"{RES}::Result.errors_count", interface=True, types={}, ensures={"n": "result == self.g_errors_count", "nonneg": "result >= 0"},
                       returns="int", class_fields=CF, assumptions=["Result.errors_count == len(result.errors)"]))
    cs.append(Contract(target=f"{RES}::Result.csvpath", interface=True, types={}, ensures={}, returns="expr:self._csvpath", class_fields=CF))
    cs.append(Contract(target=f"{CP}::CsvPath.completed", interface=True, types={}, ensures={"flag": "result == self.g_completed"},
                       returns="bool", class_fields=CF, assumptions=["CsvPath.completed is scanner.is_last(current line) (C02 is_last contract)"]))
    cs.append(Contract(target=f"{RM}::ResultsManager.get_named_results", interface=True, types={"name": "str"}, ensures={},
                       returns="expr:self.g_results", class_fields=CF, assumptions=["the named results of a run are the list of member Results in group order"]))
    cs.append(Contract(target=f"{RSR}::ResultsRegistrar.manifest", interface=True, types={}, ensures={}, returns="opaque", class_fields=CF))
    cs.append(Contract(target=f"{RSR}::ResultsRegistrar.manifest_path", interface=True, types={}, ensures={}, returns="str", class_fields=CF))
    cs.append(Contract(target=f"{RSR}::ResultsRegistrar.all_expected_files", interface=True, types={}, ensures={"flag": "result == self.g_all_expected_files"},
                       returns="bool", class_fields=CF))
    cs.append(Contract(target="csvpath/managers/registrar.py::Registrar.distribute_update", interface=True, types={"mdata": "val"}, modifies=["self.g_distributed"],
                       ensures={"counted": "self.g_distributed == old(self.g_distributed) + 1"}, returns="none", class_fields=CF,
                       assumptions=["distribute_update hands the metadata to metadata_update (manifest write) and the listeners"]))
    MD = "csvpath/managers/results/results_metadata.py"
    cs.append(Contract(target=f"{MD}::ResultsMetadata.from_manifest", interface=True, types={"m": "val"}, ensures={}, returns="none", class_fields=CF,
                       assumptions=["from_manifest only loads fields register_complete overwrites afterwards or does not touch"]))
    cs.append(Contract(target="csvpath/managers/metadata.py::Metadata.set_time_completed", interface=True, types={}, modifies=["self.g_time_completed_set"],
                       ensures={"set": "self.g_time_completed_set == True"}, returns="none", class_fields=CF))
    return cs


def aggregation_contracts():
    cs = []
    base = dict(class_fields=CF, macros=MACROS, native=NATIVE)
    cs.append(Contract(
        target=f"{RM}::ResultsManager.is_valid", types={"name": "str"},
        ensures={"conjunction_of_members": "result == forall_int(0, len(self.g_results), lambda k: self.g_results[k].g_is_valid)"},
        invariants={0: ["forall_int(0, _i0, lambda k: self.g_results[k].g_is_valid)"]},
        covers={"one_invalid": "result == False and len(self.g_results) == 3", "all_valid": "result == True and len(self.g_results) == 2"},
        returns="bool", property_clauses={"conjunction_of_members": "C04"},
        doc={"conjunction_of_members": "C04: 'results_manager.is_valid(name) ... [is] the conjunction of the members' verdicts'"}, **base))
    cs.append(Contract(
        target=f"{RSR}::ResultsRegistrar.all_valid", types={},
        ensures={"conjunction_of_members": "result == forall_int(0, len(self.results), lambda k: self.results[k]._csvpath._is_valid)"},
        invariants={0: ["forall_int(0, _i0, lambda k: self.results[k]._csvpath._is_valid)"]},
        returns="bool", property_clauses={"conjunction_of_members": "C04,C09"},
        doc={"conjunction_of_members": "C04: 'the run manifest's all_valid [is] the conjunction of the members' verdicts'"}, **base))
    cs.append(Contract(
        target=f"{RSR}::ResultsRegistrar.all_completed", types={},
        ensures={"conjunction_of_members": "result == forall_int(0, len(self.results), lambda k: self.results[k]._csvpath.g_completed)"},
        invariants={0: ["forall_int(0, _i0, lambda k: self.results[k]._csvpath.g_completed)"]},
        returns="bool", property_clauses={"conjunction_of_members": "C09"}, **base))
    cs.append(Contract(
        target=f"{RSR}::ResultsRegistrar.error_count", types={},
        ensures={"sum_of_members": "result == prefix_sum(self.results, 'g_errors_count', len(self.results))"},
        invariants={0: ["ec == prefix_sum(self.results, 'g_errors_count', _i0)"]},
        returns="int", property_clauses={"sum_of_members": "C09"},
        doc={"sum_of_members": "C09: 'the run manifest's ... error_count agree[s] with the in-memory results'"}, **base))
    cs.append(Contract(
        target=f"{RSR}::ResultsRegistrar.register_complete", types={"mdata": "obj:ResultsMetadata"},
        modifies=["mdata.status", "mdata.all_valid", "mdata.all_completed", "mdata.error_count", "mdata.all_expected_files", "mdata.manifest_path",
                  "mdata.by_line", "mdata.g_time_completed_set", "self.g_distributed"],
        ensures={
            "status_complete": "mdata.status == 'complete'",
            "all_valid_is_the_conjunction": "mdata.all_valid == forall_int(0, len(self.results), lambda k: self.results[k]._csvpath._is_valid)",
            "all_completed_is_the_conjunction": "mdata.all_completed == forall_int(0, len(self.results), lambda k: self.results[k]._csvpath.g_completed)",
            "error_count_is_the_sum": "mdata.error_count == prefix_sum(self.results, 'g_errors_count', len(self.results))",
            "distributed_after_filling": "self.g_distributed == old(self.g_distributed) + 1",
        },
        returns="none",
        property_clauses={"status_complete": "C09", "all_valid_is_the_conjunction": "C04,C09", "all_completed_is_the_conjunction": "C09",
                          "error_count_is_the_sum": "C09"},
        doc={"all_valid_is_the_conjunction": "C04: 'the run manifest's all_valid [is] the conjunction of the members' verdicts'"}, **base))
    cs.append(Contract(
        target=f"{RES}::Result.is_valid", variant="body",
        types={"self": "obj:Result", "self._csvpath": "obj:CsvPath", "self._runtime_data": "none"},
        ensures={"run_member_reports_its_csvpath": "implies(self._csvpath._run_started_at is not None, result == self._csvpath._is_valid)"},
        inline=["CsvPath.run_started_at", "CsvPath.is_valid"], returns="bool", class_fields=CF, macros=MACROS,
        property_clauses={"run_member_reports_its_csvpath": "C04"}, native={"skip": True},
        doc={"run_member_reports_its_csvpath": "C04: 'results_manager.is_valid(name) ... the conjunction of the members' verdicts' -- for a member whose csvpath has started; a csvpath "
                                               "that never started (a by-line run over a zero-byte file) is answered False whatever its verdict: recorded KNOWN-FINDING, exercised by bounded_C04"}))
    return cs


def contracts():
    return aggregation_contracts() + interfaces()
