"""C08 -- a csvpath gives the same results alone, in a serial run and breadth-first."""
from . import core, shared, C10
USES = ["shared"]


def contracts():
    return core.select(C10.contracts(), ("CsvPaths.clear_run_coordination",)) + core.select(core.contracts(), ("CsvPath._consider_line",))


def bounded(tier, seed):
    return [{"name": "C08.bounded", "script": "native/bounded_C08.py", "timeout": 3000,
             "scope": "groups of 1-2 members (all ordered pairs) and every ordering of 7 fixed triples (thorough: all ordered triples) over 9 member csvpaths "
                      "(no cross-path signals, references or line-rewriting functions) x 2 files x the six run methods, compared member by member with the "
                      "standalone CsvPath; caller lines of the breadth-first runs against union / intersection"}]


LEVEL = "other"
EXPLANATION = ("Bounded only for the schedule equivalence: the property is a relation between three schedules of the real code and is checked by running them "
               "(alone / serial / breadth-first) on a stated finite set of groups. Proved pieces: the per-line step both schedules call (_consider_line, with its "
               "own clauses) and clear_run_coordination clearing the cross-path signals between runs. The nested generator loop of next_by_line "
               "(try/except around the member loop, tuple-typed member list) is not under contract.")
ASSUMPTIONS = ["members share no mutable state (class-level registries are looked at in C19)"]
