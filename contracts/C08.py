"""C08 -- a csvpath gives the same results alone, in a serial run and breadth-first."""
from . import core, shared, C10
USES = ["shared"]


from pyvc.contract import Contract
from .core import CF, MACROS
CPS = "csvpath/csvpaths.py"
CF["CsvPaths"].update({"g_bl_calls": "int", "g_bl_collect": "val", "g_bl_agree": "val", "g_bl_cwnm": "val", "g_bl_pathsname": "val", "g_bl_filename": "val", "g_bl_lines": "list[val]"})


def by_line_wrappers():
    cs = []
    cs.append(Contract(
        target=f"{CPS}::CsvPaths.next_by_line", interface=True, variant="as_a_list",
        types={"pathsname": "val", "filename": "val", "collect": "val", "if_all_agree": "val", "collect_when_not_matched": "val"},
        modifies=["self.g_bl_calls", "self.g_bl_collect", "self.g_bl_agree", "self.g_bl_cwnm", "self.g_bl_pathsname", "self.g_bl_filename"],
        ensures={"logged": "self.g_bl_calls == old(self.g_bl_calls) + 1 and same(self.g_bl_collect, collect) and same(self.g_bl_agree, if_all_agree) and "
                           "same(self.g_bl_cwnm, collect_when_not_matched) and same(self.g_bl_pathsname, pathsname) and same(self.g_bl_filename, filename)",
                 "lines": "result is self.g_bl_lines"},
        returns="expr:self.g_bl_lines", class_fields=CF,
        assumptions=["next_by_line yields the lines kept by the breadth-first run (union, or intersection with if_all_agree): BOUNDED in C08.bounded; here it is the list of those lines"]))
    same_args = ("self.g_bl_calls == old(self.g_bl_calls) + 1 and same(self.g_bl_agree, if_all_agree) and same(self.g_bl_cwnm, collect_when_not_matched) and "
                 "same(self.g_bl_pathsname, pathsname) and same(self.g_bl_filename, filename)")
    types = {"pathsname": "val", "filename": "val", "if_all_agree": "val", "collect_when_not_matched": "val", "self.g_bl_lines": "list[val]"}
    mods = ["self.g_bl_calls", "self.g_bl_collect", "self.g_bl_agree", "self.g_bl_cwnm", "self.g_bl_pathsname", "self.g_bl_filename"]
    cs.append(Contract(
        target=f"{CPS}::CsvPaths.collect_by_line", types=types, modifies=mods,
        ensures={"one_breadth_first_run_with_the_callers_settings_collecting": same_args + " and self.g_bl_collect is True",
                 "returns_exactly_the_lines_the_run_kept_in_order": "result == self.g_bl_lines"},
        invariants={0: ["lines == self.g_bl_lines[0:_i0]"]},
        list_literals={"lines": "list[val]"}, callee_variants={"CsvPaths.next_by_line": "as_a_list"},
        class_fields=CF, macros=MACROS, returns="list[val]", native={"skip": True},
        property_clauses={"one_breadth_first_run_with_the_callers_settings_collecting": "C08,C07", "returns_exactly_the_lines_the_run_kept_in_order": "C08,C07"},
        doc={"returns_exactly_the_lines_the_run_kept_in_order": "C08: 'the breadth-first methods return to the caller the union (or, with if_all_agree, the intersection) of the members' lines' -- "
                                                                "collect_by_line adds and drops nothing"}))
    cs.append(Contract(
        target=f"{CPS}::CsvPaths.fast_forward_by_line", types=types, modifies=mods,
        ensures={"one_breadth_first_run_with_the_callers_settings_not_collecting": same_args + " and self.g_bl_collect is False"},
        invariants={0: ["True"]}, callee_variants={"CsvPaths.next_by_line": "as_a_list"},
        class_fields=CF, macros=MACROS, returns="none", native={"skip": True},
        property_clauses={"one_breadth_first_run_with_the_callers_settings_not_collecting": "C08,C07"}))
    return cs


def contracts():
    return core.select(C10.contracts(), ("CsvPaths.clear_run_coordination",)) + core.select(core.contracts(), ("CsvPath._consider_line",)) + by_line_wrappers()


def bounded(tier, seed):
    return [{"name": "C08.bounded", "script": "native/bounded_C08.py", "timeout": 3000,
             "scope": "groups of 1-2 members (all ordered pairs) and every ordering of 7 fixed triples (thorough: all ordered triples) over 9 member csvpaths "
                      "(no cross-path signals, references or line-rewriting functions) x 2 files x the six run methods, compared member by member with the "
                      "standalone CsvPath; caller lines of the breadth-first runs against union / intersection"}]


LEVEL = "other"
EXPLANATION = ("Bounded only for the schedule equivalence: the property is a relation between three schedules of the real code and is checked by running them "
               "(alone / serial / breadth-first) on a stated finite set of groups. Proved pieces: the per-line step both schedules call (_consider_line, with its "
               "own clauses), clear_run_coordination clearing the cross-path signals between runs, and the two wrappers collect_by_line / fast_forward_by_line (one breadth-first run with "
               "the caller's settings; exactly the lines it kept, in order). The nested generator loop of next_by_line "
               "(try/except around the member loop, tuple-typed member list) is not under contract.")
ASSUMPTIONS = ["members share no mutable state (class-level registries are looked at in C19)"]
