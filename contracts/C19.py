"""C19 -- results depend only on the csvpath, the file and the configuration."""
import ast
from pyvc.contract import Contract
from . import core, shared
from .core import CF, MACROS
USES = ["shared"]

LM = "csvpath/util/line_monitor.py"
CP = "csvpath/csvpath.py"
FC = "csvpath/managers/files/file_cacher.py"
LC = "csvpath/util/line_counter.py"

LM_FIELDS = ["_physical_end_line_count", "_physical_end_line_number", "_physical_line_count", "_physical_line_number",
             "_data_end_line_count", "_data_end_line_number", "_data_line_count", "_data_line_number"]
CF["LineMonitor"].update({f: "optint" for f in LM_FIELDS})
CF["LineMonitor"].update({"_last_line_stats": "val"})
CF["CsvPath"].update({"g_filename": "str"})
CF["Scanner"].update({"filename": "optstr"})
CF["FileCacher"].update({"g_lm_calls": "int", "g_hdr_calls": "int"})


def contracts():
    cs = []
    same8 = " and ".join(f"same(result.{f}, self.{f})" for f in LM_FIELDS)
    cs.append(Contract(
        target=f"{LM}::LineMonitor.__init__", types={}, modifies=[f"self.{f}" for f in LM_FIELDS] + ["self._last_line_stats"],
        ensures={"all_unset": " and ".join(f"self.{f} is None" for f in LM_FIELDS)},
        class_fields=CF, macros=MACROS, returns="none"))
    cs.append(Contract(
        target=f"{LM}::LineMonitor.copy", types={},
        ensures={"equal_on_all_eight_counters": same8, "a_different_object": "result is not self", "kind": "isinstance(result, LineMonitor)"},
        covers={"unset_counters_stay_unset": "result._data_line_number is None", "zero_is_kept": "result._physical_line_number == 0 and result._physical_end_line_number == 7"},
        class_fields=CF, macros=MACROS, returns="obj:LineMonitor",
        property_clauses={"equal_on_all_eight_counters": "C19", "a_different_object": "C19"},
        doc={"equal_on_all_eight_counters": "C19: 'whether the line-count/header cache is cold or warm' -- a run starts from the cached monitor's values",
             "a_different_object": "C19: 'regardless of what was parsed or run earlier in the same process' -- a run advancing its monitor must not advance the cached one"}))
    # which source of line counts / headers a CsvPath uses: both are the same function of the file name (the agreement of the two sources is bounded, below)
    cs.append(Contract(
        target=f"{FC}::FileCacher.get_new_line_monitor", interface=True, types={"filename": "str"}, modifies=["self.g_lm_calls"],
        ensures={"of_the_file": "result.g_of == filename", "counted": "self.g_lm_calls == old(self.g_lm_calls) + 1"},
        returns="obj:LineMonitor", class_fields=CF,
        assumptions=["FileCacher.get_new_line_monitor(f) is a fresh copy of f's line monitor (copy: proved here; cache round trip: bounded)"]))
    cs.append(Contract(
        target=f"{FC}::FileCacher.get_original_headers", interface=True, types={"filename": "str"}, modifies=["self.g_hdr_calls"],
        ensures={"of_the_file": "same(result, ufun_val('headers_of', filename))", "counted": "self.g_hdr_calls == old(self.g_hdr_calls) + 1"},
        returns="val", class_fields=CF,
        assumptions=["FileCacher.get_original_headers(f) is a fresh copy of f's headers (cache round trip: bounded)"]))
    cs.append(Contract(
        target=f"{CP}::CsvPath.get_total_lines_and_headers", variant="in_a_csvpaths",
        types={"self.csvpaths": "obj:CsvPaths", "self.csvpaths.file_manager": "obj:FileManager", "self.csvpaths.file_manager.cacher": "obj:FileCacher",
               "self.scanner": "obj:Scanner", "self.scanner.filename": "str", "self._headers": "val", "self._line_monitor": "obj:LineMonitor",
               "self.delimiter": "str", "self.quotechar": "str", "self.csvpaths.delimiter": "str", "self.csvpaths.quotechar": "str"},
        # (a csvpath that reads its file in the dialect of its CsvPaths; a predecessor's data.csv read in another dialect goes to its own LineCounter)
        requires=["len(self.scanner.filename) > 0", "self.delimiter == self.csvpaths.delimiter and self.quotechar == self.csvpaths.quotechar"],
        modifies=["self._line_monitor", "self._headers", "self.csvpaths.file_manager.cacher.g_lm_calls", "self.csvpaths.file_manager.cacher.g_hdr_calls"],
        ensures={"line_counts_of_the_file_being_scanned": "self._line_monitor.g_of == self.scanner.filename",
                 "headers_of_the_file_being_scanned": "same(self._headers, ufun_val('headers_of', self.scanner.filename))"},
        class_fields={**CF, "LineMonitor": {**CF["LineMonitor"], "g_of": "str"}}, macros=MACROS, returns="val", native={"skip": True},
        property_clauses={"line_counts_of_the_file_being_scanned": "C19", "headers_of_the_file_being_scanned": "C19"}))
    # the cacher hands out private copies: what one caller does to its copy cannot reach the next caller
    cached = {"filename": "const:f", "self.pathed_lines_and_headers": "rec[f:tuple[obj:LineMonitor,list[str]]]"}
    entry = "self.pathed_lines_and_headers['f']"
    cs.append(Contract(
        target=f"{FC}::FileCacher.get_original_headers", variant="already_cached", types=cached,
        ensures={"equal_to_the_cached_headers": f"result == {entry}[1]", "a_different_list": f"result is not {entry}[1]",
                 "cache_untouched": f"{entry}[1] == old({entry}[1])"},
        class_fields=CF, macros=MACROS, returns="list[str]", native={"skip": True},
        property_clauses={"equal_to_the_cached_headers": "C19", "a_different_list": "C19", "cache_untouched": "C19"},
        doc={"a_different_list": "C19: 'regardless of what was parsed or run earlier in the same process' -- append()/reset_headers() on one CsvPath's headers must not change the next CsvPath's"}))
    same8c = " and ".join(f"same(result.{f}, {entry}[0].{f})" for f in LM_FIELDS)
    cs.append(Contract(
        target=f"{FC}::FileCacher.get_new_line_monitor", variant="already_cached", types=cached,
        ensures={"equal_on_all_eight_counters": same8c, "a_different_object": f"result is not {entry}[0]"},
        class_fields=CF, macros=MACROS, returns="obj:LineMonitor", native={"skip": True},
        property_clauses={"equal_on_all_eight_counters": "C19", "a_different_object": "C19"}))
    return cs


# ---------------------------------------------------------------------------------------------------------------------------------
# frame scan: process-global state.  Every write to class-level / module-level mutable state, every `global`, every process-wide
# switch (warnings filter, os.environ, os.chdir, random.seed, sys.path) in the package must be on this list.
ALLOWED_GLOBAL_WRITERS = {
    ("csvpath/matching/functions/function_factory.py", "add_function", "write cls.NOT_MY_FUNCTION"):
        "registers a user's external function under its name: same name -> same class, idempotent",
    ("csvpath/util/file_readers.py", "register_data", "write DataFileReader.DATA"):
        "test/data injection hook, only called by users",
    ("csvpath/util/log_utility.py", "logger", "write LogUtility.LOGGERS"):
        "logger cache keyed by component name; a hit returns the same logger (level re-applied from config)",
    ("csvpath/matching/productions/expression.py", "check_valid", "warnings.filterwarnings"):
        "installs the same ('error') filter on every parse: idempotent after the first parse",
}
MUTATORS = {"append", "extend", "add", "update", "pop", "remove", "clear", "insert", "setdefault", "popitem", "discard"}


def scans(facts):
    classes = {}
    for file, tree in facts.module_tree.items():
        for c in ast.walk(tree):
            if isinstance(c, ast.ClassDef):
                attrs = set()
                for s in c.body:
                    if isinstance(s, ast.Assign):
                        attrs |= {t.id for t in s.targets if isinstance(t, ast.Name)}
                    elif isinstance(s, ast.AnnAssign) and isinstance(s.target, ast.Name):
                        attrs.add(s.target.id)
                classes.setdefault(c.name, set()).update(attrs)
    found = set()
    for file, tree in facts.module_tree.items():
        modvars = {t.id for s in tree.body if isinstance(s, ast.Assign) for t in s.targets if isinstance(t, ast.Name)}
        for fn in ast.walk(tree):
            if not isinstance(fn, (ast.FunctionDef, ast.AsyncFunctionDef)):
                continue
            globs = set()
            for node in ast.walk(fn):
                if isinstance(node, ast.Global):
                    globs |= set(node.names)

            def cls_target(e):
                while isinstance(e, ast.Subscript):
                    e = e.value
                if isinstance(e, ast.Attribute) and isinstance(e.value, ast.Name):
                    if e.value.id in classes and e.attr in classes[e.value.id]:
                        return f"{e.value.id}.{e.attr}"
                    if e.value.id == "cls":
                        return f"cls.{e.attr}"
                    if e.value.id == "os" and e.attr == "environ":
                        return "os.environ"
                    if e.value.id == "sys" and e.attr in ("path", "modules", "argv"):
                        return f"sys.{e.attr}"
                if isinstance(e, ast.Name) and (e.id in globs):
                    return f"global {e.id}"
                return None
            for node in ast.walk(fn):
                tg = []
                if isinstance(node, ast.Assign):
                    tg = node.targets
                elif isinstance(node, (ast.AugAssign, ast.AnnAssign)):
                    tg = [node.target]
                for x in tg:
                    for y in (x.elts if isinstance(x, ast.Tuple) else [x]):
                        b = cls_target(y)
                        if b:
                            found.add((file, fn.name, "write " + b))
                if isinstance(node, ast.Call) and isinstance(node.func, ast.Attribute):
                    if node.func.attr in MUTATORS:
                        e = node.func.value
                        b = cls_target(e)
                        if b is None and isinstance(e, ast.Name) and e.id in modvars and e.id.isupper():
                            b = f"module {e.id}"
                        if b:
                            found.add((file, fn.name, "write " + b))
                    if isinstance(node.func.value, ast.Name):
                        recv, meth = node.func.value.id, node.func.attr
                        if (recv, meth) in (("warnings", "filterwarnings"), ("warnings", "simplefilter"), ("os", "chdir"), ("os", "putenv"), ("random", "seed"),
                                            ("locale", "setlocale"), ("os", "umask")):
                            found.add((file, fn.name, f"{recv}.{meth}"))
    extra = sorted(found - set(ALLOWED_GLOBAL_WRITERS))
    # call-site scan: the header cache is written and read back in ONE dialect (the csv module's defaults on both sides)
    from . import shared as _sh
    rd = _sh.call_sites(facts, "csvpath/util/cache.py::Cache.cached_text", "csv.reader")
    wr = _sh.call_sites(facts, "csvpath/managers/files/file_cacher.py::FileCacher._cache_lines_and_headers", "csv.writer")
    rkw = [_sh.kw_source(c) for c in (rd or [])]
    wkw = [{k: v for k, v in _sh.kw_source(c).items() if k != "lineterminator"} for c in (wr or [])]
    same_dialect = bool(rd) and bool(wr) and all(k == {} for k in rkw) and all(k == {} for k in wkw)
    dialect = {"name": "header_cache_is_read_back_in_the_dialect_it_is_written_in", "advisory": True, "ok": same_dialect, "sites": len(rd or []) + len(wr or []),
               "detail": [ast.unparse(c) for c in (rd or []) + (wr or [])] or "csv.reader / csv.writer call not found in Cache.cached_text / FileCacher._cache_lines_and_headers",
               "text": "Cache.cached_text reads the cached headers with csv.reader(file) and FileCacher._cache_lines_and_headers writes them with csv.writer(buf): the csv module's defaults "
                       "on both sides (C19: a warm cache gives the headers a cold one does, whatever delimiter the CsvPaths is configured with)"}
    return [dialect, {"name": "global_state_writers", "ok": not extra, "detail": [f"{f}: {fn}: {what}" for f, fn, what in extra], "sites": len(found),
             "text": "every write to class-level / module-level mutable state or to a process-wide switch in the package is one of the "
                     f"{len(ALLOWED_GLOBAL_WRITERS)} known, idempotent writers (C19: a result must not depend on what ran earlier in the process)"}]


def bounded(tier, seed):
    return [{"name": "C19.bounded", "script": "native/bounded_C19.py", "timeout": 3000,
             "scope": "12 (csvpath, file) jobs over 4 files (headers with quotes, spaces, delimiters; blank lines; empty cells); every job run first in a fresh "
                      "process = baseline; histories of 2..4 (thorough 2..6) jobs in one process, each job compared with its baseline; CsvPaths cold cache vs "
                      "warm cache (new instance, populated cache directory) vs a bare CsvPath; repeated runs; mutation of the copies a cacher hands out"}]


LEVEL = "other"
EXPLANATION = ("Proved: LineMonitor.copy returns a different object equal on all eight counters (None and 0 kept apart); CsvPath.get_total_lines_and_headers asks the "
               "cacher exactly for the file being scanned. Frame scan (syntactic, whole package): the only writers of process-global state are the four known ones. "
               "Bounded (not proved): job results are independent of the history of the process, of a cold or warm cache and of direct vs CsvPaths creation, over the "
               "stated job set. Equality of a job's result with its fresh-process twin for ALL histories is a relation between two process histories and is not "
               "expressible as a function contract (DESIGN 7).")
