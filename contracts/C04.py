"""C04 -- the validity verdict is False exactly when the csvpath failed the file."""
from . import core, shared, control, C05, managers
USES = ["shared"]


def contracts():
    c05 = core.select(C05.error_contracts(), ("ErrorHandler._handle_if", "ErrorCommsManager.do_i_fail", "CsvPath.collect_error[own_list]"))
    cr = core.select(core.contracts(), ("Matcher.matches", "CsvPath._consider_line"))
    ct = core.select(control.contracts(), ("Fail._decide_match", "FailAll._decide_match", "Failed._decide_match", "Stopper._stop_me", "Stop._decide_match"))
    return c05 + cr + ct + managers.contracts()



def bounded(tier, seed):
    return [{"name": "C04.bounded", "script": "native/bounded_C04.py", "timeout": 3000, "scope": "single CsvPath: fail()/fail_and_stop() firing at every line (and never) before/after a valid()/failed() observer, scans * and 1*; an error under 17 policies with/without 'fail'; named-paths groups of 2-3 members (all ordered pairs, a third of the triples; thorough all) x {collect_paths, collect_by_line}: results_manager.is_valid and manifest all_valid"}]

LEVEL = "proof"
EXPLANATION = ("Every function that can change or report the verdict is under contract: Fail/FailAll/Stopper._stop_me set it False exactly when "
               "fired, ErrorHandler._handle_if exactly under 'fail', Matcher.matches and _consider_line are monotone, Failed reports the current "
               "verdict; the writer scan lists every assignment to is_valid/_is_valid in /repo and requires each to be in a function under contract.")


def scans(facts):
    """C04 'once False it never returns to True': every assignment to is_valid/_is_valid in the package assigns the constant False,
    except the constructor (True) and the property setter itself (whose callers are covered by the same rule)."""
    import ast
    bad, sites = [], 0
    for file, tree in facts.module_tree.items():
        scopes = [(c, f) for c in ast.walk(tree) if isinstance(c, ast.ClassDef) for f in c.body if isinstance(f, ast.FunctionDef)]
        scopes += [(tree, f) for f in tree.body if isinstance(f, ast.FunctionDef)]
        for cls, fn in scopes:
            if True:
                for node in ast.walk(fn):
                    tgts = []
                    if isinstance(node, ast.Assign):
                        tgts, val = node.targets, node.value
                    elif isinstance(node, ast.AugAssign):
                        tgts, val = [node.target], None
                    elif isinstance(node, ast.AnnAssign) and node.value is not None:
                        tgts, val = [node.target], node.value
                    for t in tgts:
                        if isinstance(t, ast.Attribute) and t.attr in ("is_valid", "_is_valid"):
                            sites += 1
                            ok = isinstance(val, ast.Constant) and val.value is False
                            if fn.name == "__init__" and isinstance(cls, ast.ClassDef) and cls.name == "CsvPath":
                                ok = True
                            if fn.name == "is_valid" and any(isinstance(d, ast.Attribute) and d.attr == "setter" for d in fn.decorator_list):
                                ok = isinstance(val, ast.Name)
                            if not ok:
                                bad.append(f"{file}:{node.lineno} in {getattr(cls, 'name', '<module>')}.{fn.name}: {ast.unparse(node)}")
    # each site is visited once per enclosing scope walk; de-duplicate
    bad = sorted(set(bad))
    return [{"name": "monotone_writers", "ok": not bad, "detail": bad, "sites": sites,
             "text": "every write of is_valid/_is_valid outside CsvPath.__init__ assigns the constant False (C04: never returns to True)"}]
