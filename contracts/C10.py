"""C10 -- every run gets its own run directory and never touches an earlier run's results."""
import ast
from pyvc.contract import Contract
from . import core, shared
from .core import CF, MACROS
USES = ["shared"]

RS = "csvpath/managers/results/result_serializer.py"
RMGR = "csvpath/managers/results/results_manager.py"
CPS = "csvpath/csvpaths.py"

CF["CsvPaths"].update({"_current_run_time": "val", "_run_time_str": "optstr"})
CF["ResultSerializer"] = {"base_dir": "str"}


def contracts():
    cs = []
    cs.append(Contract(
        target=f"{CPS}::CsvPaths.clear_run_coordination", types={},
        modifies=["self._stop_all", "self._fail_all", "self._skip_all", "self._advance_all", "self._current_run_time", "self._run_time_str"],
        ensures={"forgets_the_run_directory": "self._run_time_str is None and self._current_run_time is None",
                 "clears_the_cross_path_signals": "not self._stop_all and not self._fail_all and not self._skip_all and self._advance_all == 0"},
        class_fields=CF, macros=MACROS, returns="none",
        property_clauses={"forgets_the_run_directory": "C10,C18", "clears_the_cross_path_signals": "C08"},
        doc={"forgets_the_run_directory": "C10: 'Each named-paths run, whether from a new or a reused CsvPaths instance ... writes under ... a run directory no earlier run used'"}))
    cs.append(Contract(
        target=f"{RS}::ResultSerializer.get_run_dir", variant="formatted_time",
        types={"paths_name": "str", "run_time": "str"},
        requires=["len(paths_name) > 0"],
        ensures={
            "fresh_directory": "not fs_exists(result)",
            "under_its_own_named_paths_name": "result == path_join(path_join(self.base_dir, ufun_str('deref', old(paths_name))), run_time) or "
                                              "exists_int(lambda k: k >= 0 and result == path_join(path_join(self.base_dir, ufun_str('deref', old(paths_name))), run_time) + '.' + str_of(k))",
        },
        invariants={0: ["i >= 0", "adir == run_dir + '.' + str_of(i)",
                        "run_dir == path_join(path_join(self.base_dir, ufun_str('deref', old(paths_name))), run_time)"]},
        class_fields=CF, macros=MACROS, returns="str",
        property_clauses={"fresh_directory": "C10", "under_its_own_named_paths_name": "C10"},
        doc={"fresh_directory": "C10: '... a run directory no earlier run used ... even within the same second'"},
        native={"skip": True},
        assumptions=["os.path.exists is a function of the path while get_run_dir runs; os.makedirs of the parent creates nothing the loop asks about"]))
    cs.append(Contract(
        target=f"{RS}::ResultSerializer._deref_paths_name", interface=True, types={"paths_name": "str"},
        ensures={"deref": "result == ufun_str('deref', paths_name)"}, returns="str", class_fields=CF,
        assumptions=["_deref_paths_name strips '$', datatype and '#id' from a reference (string slicing; bounded in C12)"]))
    # ---- the serializer writes a member's files under the run directory the run fixed at its start, nowhere else
    CF["Result"] = {**CF.get("Result", {}), "_run_dir": "str", "_run_time": "val", "_paths_name": "str", "_file_name": "str", "run_index": "int", "_unmatched": "val",
                    "_errors": "list[val]", "_printouts": "val", "g_identity_or_index": "str", "g_lines": "val", "_csvpath": "obj:CsvPath"}
    CF["ResultSerializer"].update({"g_save_calls": "int", "g_saved_run_dir": "str", "g_saved_identity": "str", "g_saved_paths_name": "str", "result": "val"})
    cs.append(Contract(target=f"{RS}::ResultSerializer._save", interface=True, variant="logged",
                       types={"metadata": "val", "runtime_data": "val", "errors": "val", "variables": "val", "lines": "val", "printouts": "val", "paths_name": "str",
                              "file_name": "val", "identity": "str", "run_time": "val", "run_dir": "str", "run_index": "val", "unmatched": "val"},
                       modifies=["self.g_save_calls", "self.g_saved_run_dir", "self.g_saved_identity", "self.g_saved_paths_name"],
                       ensures={"logged": "self.g_save_calls == old(self.g_save_calls) + 1 and self.g_saved_run_dir == run_dir and self.g_saved_identity == identity and "
                                          "self.g_saved_paths_name == paths_name"},
                       returns="none", class_fields=CF, assumptions=["ResultSerializer._save writes the member's files under run_dir/identity (own contract in C09: _save[json_files], get_instance_dir)"]))
    cs.append(Contract(target="csvpath/matching/util/runtime_data_collector.py::RuntimeDataCollector.collect", interface=True,
                       types={"csvpath": "val", "runtime": "val", "local": "val"}, returns="none", class_fields=CF,
                       assumptions=["RuntimeDataCollector.collect fills the runtime-data dict (counters, headers, timings) and touches nothing else"]))
    cs.append(Contract(target=f"{RS}::ResultSerializer.get_run_dir_name_from_datetime", interface=True, types={"dt": "val"}, returns="str",
                       ensures={"name": "result == ufun_str('run_dir_name', dt)"}, class_fields=CF,
                       assumptions=["get_run_dir_name_from_datetime formats the run's start time (strftime; its format string is checked by the C10 frame scans)"]))
    cs.append(Contract(target="csvpath/managers/results/result.py::Result.identity_or_index", interface=True, types={}, returns="str",
                       ensures={"id": "result == self.g_identity_or_index"}, class_fields=CF, assumptions=["Result.identity_or_index is the csvpath's identity, or its index in the group"]))
    cs.append(Contract(target="csvpath/managers/results/result.py::Result.lines", interface=True, types={}, returns="val", ensures={}, class_fields=CF,
                       assumptions=["Result.lines is the member's line spooler or list"]))
    cs.append(Contract(target="csvpath/managers/results/result.py::Result.variables", interface=True, types={}, returns="val", ensures={}, class_fields=CF,
                       assumptions=["Result.variables is the csvpath's variables dict"]))
    cs.append(Contract(
        target=f"{RS}::ResultSerializer.save_result", types={"result": "obj:Result", "result._csvpath": "obj:CsvPath", "result._csvpath.metadata": "val"},
        modifies=["self.result", "self.g_save_calls", "self.g_saved_run_dir", "self.g_saved_identity", "self.g_saved_paths_name"],
        ensures={"one_save_under_the_runs_own_directory": "self.g_save_calls == old(self.g_save_calls) + 1 and self.g_saved_run_dir == result._run_dir",
                 "in_the_members_own_subdirectory": "self.g_saved_identity == result.g_identity_or_index and self.g_saved_paths_name == result._paths_name"},
        callee_variants={"ResultSerializer._save": "logged"}, inline=["Result.get_printouts"],
        class_fields=CF, macros=MACROS, returns="none", native={"skip": True},
        property_clauses={"one_save_under_the_runs_own_directory": "C10,C09", "in_the_members_own_subdirectory": "C10,C09"},
        doc={"one_save_under_the_runs_own_directory": "C10: 'Each named-paths run ... writes under ... a run directory no earlier run used' -- the directory get_run_dir chose at the start "
                                                      "of the run (Result.run_dir), not one recomputed from the clock or the names at save time"}))
    return cs


def _strftime_formats(facts):
    """format strings given to strftime / strptime in the two functions C10 depends on, read from the current source"""
    out = {}
    for target in (f"{RS}::ResultSerializer.get_run_dir_name_from_datetime", f"{RMGR}::ResultsManager._find_in_dir_names"):
        u = facts.unit(target)
        fmts = []
        if u is not None:
            consts = {}
            for node in ast.walk(u.node):
                if isinstance(node, ast.Assign) and len(node.targets) == 1 and isinstance(node.targets[0], ast.Name) and isinstance(node.value, ast.Constant) and isinstance(node.value.value, str):
                    consts[node.targets[0].id] = node.value.value
                if isinstance(node, ast.Call) and isinstance(node.func, ast.Attribute) and node.func.attr == "strftime" and node.args and isinstance(node.args[0], ast.Constant):
                    fmts.append(node.args[0].value)
            if target.endswith("_find_in_dir_names"):
                fmts = [v for v in consts.values() if "%" in v]
        out[target] = fmts
    return out


FIELDS = {"%Y": ("year", 4), "%m": ("month", 2), "%d": ("day", 2), "%H": ("hour", 2), "%M": ("minute", 2), "%S": ("second", 2),
          "%I": ("hour12", 2), "%y": ("year2", 2), "%j": ("yday", 3)}


def scans(facts):
    """obligations generated from the format strings in the current source (directive semantics of strftime are [A]):
       the run-directory name is strictly monotone in the timestamp, and the reader parses what the writer writes"""
    import z3, re
    res = []
    f = _strftime_formats(facts)
    wf = f.get(f"{RS}::ResultSerializer.get_run_dir_name_from_datetime") or []
    rf = f.get(f"{RMGR}::ResultsManager._find_in_dir_names") or []
    if len(wf) != 1:
        return [{"name": "run_dir_name_format_found", "ok": False, "detail": f"expected one strftime format in get_run_dir_name_from_datetime, found {wf}",
                 "text": "the run directory name is produced by one strftime call"}]
    fmt = wf[0]
    dirs = re.findall(r"%[A-Za-z]", fmt)
    unknown = [d for d in dirs if d not in FIELDS]
    if unknown:
        return [{"name": "order_preserving", "ok": False, "detail": f"directives {unknown} are not modelled", "text": fmt}]

    def mk(prefix):
        Y, mo, d, H, M, S = [z3.Int(f"{prefix}_{n}") for n in ("Y", "m", "d", "H", "M", "S")]
        rng = [Y >= 1000, Y <= 9999, mo >= 1, mo <= 12, d >= 1, d <= 31, H >= 0, H <= 23, M >= 0, M <= 59, S >= 0, S <= 59]
        vals = {"year": Y, "month": mo, "day": d, "hour": H, "minute": M, "second": S,
                "hour12": z3.If(H % 12 == 0, 12, H % 12), "year2": Y % 100, "yday": (mo - 1) * 31 + d}
        return (Y, mo, d, H, M, S), rng, [vals[FIELDS[x][0]] for x in dirs]

    def lex_lt(a, b):
        out = z3.BoolVal(False)
        for x, y in reversed(list(zip(a, b))):
            out = z3.Or(x < y, z3.And(x == y, out))
        return out
    t1, r1, k1 = mk("a")
    t2, r2, k2 = mk("b")
    s = z3.Solver()
    s.set("timeout", 20000)
    s.add(*r1, *r2, lex_lt(list(t1), list(t2)), z3.Not(lex_lt(k1, k2)))
    r = s.check()
    detail = None
    if r == z3.sat:
        m = s.model()
        detail = {"earlier": [m.eval(x, model_completion=True).as_long() for x in t1], "later": [m.eval(x, model_completion=True).as_long() for x in t2], "format": fmt}
    res.append({"name": "order_preserving", "ok": r == z3.unsat, "detail": detail or str(r), "sites": 1,
                "text": f"for the format {fmt!r} read from the source: t1 < t2 (to the second) implies name(t1) < name(t2) as fixed-width digit fields",
                "native": {"kind": "run_dir_names", "earlier": (detail or {}).get("earlier"), "later": (detail or {}).get("later")}})
    ok = all(x.replace(".%f", "") == fmt for x in rf) and len(rf) >= 1
    res.append({"name": "reader_parses_what_the_writer_writes", "ok": ok, "detail": {"written": fmt, "parsed": rf}, "sites": len(rf),
                "text": "the strptime formats of _find_in_dir_names are the strftime format of get_run_dir_name_from_datetime (plus the .N collision suffix)"})
    return res


def bounded(tier, seed):
    return [{"name": "C10.bounded", "script": "native/bounded_C10.py", "timeout": 3000,
             "scope": "all run sequences of length <=2, every length-3 sequence of one group under collect_paths, and a stride sample of the other length-3 "
                      "sequences (thorough: all of length <=2, a 1-in-4 slice of length 3, a 1-in-400 slice of length 4, every length-4 history of one group under collect_paths) over {2 groups} x {new, reused instance} x {collect_paths, fast_forward_by_line} x "
                      "{same second, +1 s, 12:59->13:00, across midnight} with a scripted clock"}]


LEVEL = "other"
EXPLANATION = ("Proved: get_run_dir returns a path for which os.path.exists is False, under base/<named-paths name>/ (while loop with invariant, file system as an "
               "uninterpreted predicate); clear_run_coordination forgets the run directory; the run-directory name format read from the source is strictly "
               "monotone in the timestamp and is the format the :last/:first reader parses (VCs over the directive fields). Bounded: run sequences on the real "
               "CsvPaths with a scripted clock.")
ASSUMPTIONS = ["strftime/strptime directive semantics: fixed-width zero-padded decimal fields", "os.path.exists as a pure predicate during get_run_dir"]
