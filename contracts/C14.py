"""C14 -- assignment qualifiers decide the vote and the write per the documented table.

The top-level clauses (D1..D7 of DESIGN §6/C14) are written from the property statement and
docs/assignment.md / docs/qualifiers.md, over the abstract view
    y    = the right-hand value on this line           (child interface: g_value)
    cur  = the variable's current value                (Matcher.get_variable interface: g_current)
    rest = do all other components of the line match   (Qualified.line_matches interface: g_rest_matches)
    write log of Matcher.set_variable                  (g_writes, g_wname, g_wvalue, g_wtracking)
Don't-cares (the documents do not determine them; the check must not demand more than they say):
  * the VOTE when `latch` is present and another qualifier (notnone/increase/decrease/onchange) blocks on the same line;
  * increase/decrease with a falsy non-None y (0, "") -- described nowhere;
  * whether an assignment of the value the variable already holds performs a store write (unobservable).
"""
from pyvc.contract import Contract, Lemma
from . import shared
from .shared import CLASS_FIELDS, MACROS as SHARED_MACROS

EQ = "csvpath/matching/productions/equality.py"
QUAL = "csvpath/matching/productions/qualified.py"
USES = ["shared"]

NATIVE = {"patches": shared.NATIVE_PATCHES, "spec_funs": shared.SPEC_FUNS}

MACROS = dict(SHARED_MACROS)
MACROS.update({
    # helper-level blocking exactly as the code tests it
    "h_blocks": (["notnone", "increase", "decrease", "cur", "v"],
                 "(notnone and v is None) or "
                 "(increase and (not truthy(v) or (cur is not None and cur >= v))) or "
                 "(decrease and (not truthy(v) or (cur is not None and cur <= v)))"),
    "h_typeerror": (["notnone", "increase", "decrease", "cur", "v"],
                    "not (notnone and v is None) and (increase or decrease) and truthy(v) and cur is not None and not comparable(cur, v)"),
    # ---- the documented relation (determinate part)
    "dc_value": (["increase", "decrease", "y"], "(increase or decrease) and y is not None and not truthy(y)"),
    "d_blocked": (["notnone", "increase", "decrease", "onchange", "y", "cur"],
                  "(notnone and y is None) or "
                  "(increase and (y is None or (cur is not None and cur >= y))) or "
                  "(decrease and (y is None or (cur is not None and cur <= y))) or "
                  "(onchange and cur == y)"),
    "d_in_scope": (["increase", "decrease", "y", "cur"],
                   "not dc_value(increase, decrease, y) and "
                   "(not (increase or decrease) or y is None or cur is None or comparable(cur, y))"),
})

IMPL_ARGS = ("rec[onchange:bool,latch:bool,onmatch:bool,asbool:bool,nocontrib:bool,notnone:bool,increase:bool,decrease:bool,"
             "noqualifiers:bool,count:bool,new_value:val,name:str,tracking:optstr,current_value:val,line_matches:none]")

DOC_CLAUSES = {
    # D1
    "D1_onmatch_gates": "implies(OM and not REST, no_write() and result == NC)",
    # D2/D3/D5: a blocking qualifier means no write ...
    "D235_blocked_no_write": "implies((not OM or REST) and SCOPE and BLOCKED, no_write())",
    # ... and a negative vote (vote is a don't-care when latch is also present)
    "D235_blocked_votes_negative": "implies((not OM or REST) and SCOPE and BLOCKED and not LATCH and not NC, result == False)",
    # D4: latch alone blocks silently: no write, positive vote
    "D4_latch_keeps_first": "implies((not OM or REST) and SCOPE and LATCH and CUR is not None, no_write())",
    # D7 (+D3 first set, D5 changed): nothing blocks -> the value is written (when it differs from the current one)
    "D7_writes": "implies((not OM or REST) and SCOPE and not BLOCKED and not (LATCH and CUR is not None) and not (CUR == Y), "
                 "wrote(NAME, Y, TRACKING))",
    "D_at_most_one_write": "no_write() or wrote(NAME, Y, TRACKING)",
    # D4/D6/D7 vote: positive, replaced by the truth of y under asbool
    "D467_positive_vote": "implies((not OM or REST) and SCOPE and not BLOCKED and not NC, "
                          "result == (ufun_bool('asbool', Y) if AB else True))",
    # D6
    "D6_nocontrib_neutral": "implies(NC, result == True)",
}


def doc_clauses(subst):
    out = {}
    for k, v in DOC_CLAUSES.items():
        for a, b in subst.items():
            v = v.replace(a, b)
        out[k] = v
    return out


DOCS = {
    "D1_onmatch_gates": "C14: 'onmatch gates everything on the rest of the line matching'; assignment.md: onmatch -> 'If match True otherwise False'",
    "D235_blocked_no_write": "C14: 'notnone, increase/decrease, and latch/onchange decide the write'",
    "D235_blocked_votes_negative": "C14: '... and a negative vote when they block (latch never votes negative)'",
    "D4_latch_keeps_first": "qualifiers.md: latch 'indicates that the variable will only be set one time'",
    "D7_writes": "assignment.md table: 'x = y == True' (plain assignment writes and matches)",
    "D467_positive_vote": "C14: 'asbool replaces a positive vote by the truth of y'",
    "D6_nocontrib_neutral": "C14: 'nocontrib makes the vote neutral' (AND mode: neutral is True)",
}


def contracts():
    cs = []
    common = dict(class_fields=CLASS_FIELDS, macros=MACROS, native=NATIVE)
    inl_and = ["Matchable.default_match"]

    # ---------------------------------------------------------------- _set_variable_if (helper level, exact)
    cs.append(Contract(
        target=f"{EQ}::Equality._set_variable_if",
        types={"ret": "bool", "name": "str", "current_value": "val", "value": "val", "tracking": "optstr",
               "notnone": "bool", "increase": "bool", "decrease": "bool"},
        requires=[],
        modifies=["self.matcher.g_writes", "self.matcher.g_wname", "self.matcher.g_wvalue", "self.matcher.g_wtracking"],
        raises={"TypeError": {"when": "h_typeerror(notnone, increase, decrease, current_value, value)", "exact": True}},
        ensures={
            "blocks": "implies(h_blocks(notnone, increase, decrease, current_value, value), result == (not ret) and no_write())",
            "writes": "implies(not h_blocks(notnone, increase, decrease, current_value, value), "
                      "result == ret and wrote(name, value, tracking))",
        },
        ensures_exc={"no_write_on_raise": "no_write()"},
        covers={"blocked_by_increase": "increase and current_value == 2 and value == 2 and result == (not ret)",
                "written": "self.matcher.g_writes == old(self.matcher.g_writes) + 1"},
        inline=inl_and, returns="bool",
        property_clauses={"blocks": "C14,C03", "writes": "C14,C03"}, **common))

    # ---------------------------------------------------------------- _latch_and_onchange (helper level, exact)
    cs.append(Contract(
        target=f"{EQ}::Equality._latch_and_onchange",
        types={"ret": "bool", "name": "str", "current_value": "val", "new_value": "val", "tracking": "optstr",
               "latch": "bool", "onchange": "bool", "notnone": "bool", "increase": "bool", "decrease": "bool",
               "self.matcher._AND": "bool"},
        requires=["self.matcher._AND == True"],
        modifies=["self.matcher.g_writes", "self.matcher.g_wname", "self.matcher.g_wvalue", "self.matcher.g_wtracking"],
        raises={"TypeError": {"when": "not (current_value == new_value) and (current_value is None or not latch) and "
                                      "h_typeerror(notnone, increase, decrease, current_value, new_value)", "exact": True}},
        ensures={
            "changed_and_free": "implies(not (current_value == new_value) and (current_value is None or not latch), "
                                "(h_blocks(notnone, increase, decrease, current_value, new_value) and result == False and no_write()) or "
                                "(not h_blocks(notnone, increase, decrease, current_value, new_value) and result == True and "
                                " wrote(name, new_value, tracking)))",
            "latched": "implies(not (current_value == new_value) and current_value is not None and latch, result == ret and no_write())",
            "unchanged_value": "implies(current_value == new_value, no_write() and result == (False if onchange else ret))",
        },
        ensures_exc={"no_write_on_raise": "no_write()"},
        inline=inl_and, returns="bool",
        property_clauses={"changed_and_free": "C14", "latched": "C14", "unchanged_value": "C14"}, **common))

    # ---------------------------------------------------------------- _do_assignment_new_impl: the documented table
    sub = {"OM": "args['onmatch']", "REST": "self.g_rest_matches", "NC": "args['nocontrib']", "AB": "args['asbool']",
           "LATCH": "args['latch']", "CUR": "args['current_value']", "Y": "args['new_value']", "NAME": "name", "TRACKING": "tracking",
           "SCOPE": "d_in_scope(args['increase'], args['decrease'], args['new_value'], args['current_value'])",
           "BLOCKED": "d_blocked(args['notnone'], args['increase'], args['decrease'], args['onchange'], args['new_value'], args['current_value'])"}
    cs.append(Contract(
        target=f"{EQ}::Equality._do_assignment_new_impl",
        types={"name": "str", "tracking": "optstr", "args": IMPL_ARGS, "self.matcher._AND": "bool"},
        requires=["self.matcher._AND == True"],
        modifies=["self.matcher.g_writes", "self.matcher.g_wname", "self.matcher.g_wvalue", "self.matcher.g_wtracking",
                  "self.g_line_matches_calls"],
        raises={"TypeError": {"when": "(args['increase'] or args['decrease']) and not comparable(args['current_value'], args['new_value'])",
                              "exact": False}},
        ensures=doc_clauses(sub),
        covers={"latch_blocks_positive": "args['latch'] and args['current_value'] == 1 and args['new_value'] == 2 and result == True and no_write()",
                "increase_blocks": "args['increase'] and not args['latch'] and args['current_value'] == 2 and args['new_value'] == 2 and result == False",
                "onmatch_unmet": "args['onmatch'] and not self.g_rest_matches and result == False"},
        inline=inl_and + ["Equality._test_friendly_line_matches"], returns="bool",
        property_clauses={k: "C14" for k in DOC_CLAUSES}, doc=DOCS, **common))

    # ---------------------------------------------------------------- _do_assignment: gathers the flags from the left-hand variable
    q = "self.children[0]._qualifiers"
    sub2 = {"OM": f"('onmatch' in {q} or (self.children[1].name in ['count', 'has_matches'] and len(self.children[1].children) == 0))",
            "REST": "self.g_rest_matches", "NC": f"('nocontrib' in {q})", "AB": f"('asbool' in {q})", "LATCH": f"('latch' in {q})",
            "CUR": "self.matcher.g_current", "Y": "self.children[1].g_value", "NAME": "self.children[0].name",
            "TRACKING": "result_tracking()",
            "SCOPE": f"d_in_scope('increase' in {q}, 'decrease' in {q}, self.children[1].g_value, self.matcher.g_current)",
            "BLOCKED": f"d_blocked('notnone' in {q}, 'increase' in {q}, 'decrease' in {q}, 'onchange' in {q}, self.children[1].g_value, self.matcher.g_current)"}
    m2 = dict(MACROS)
    m2["result_tracking"] = ([], "self.matcher.g_wtracking")   # tracking is pinned by first_non_term_qualifier's own contract
    ens = doc_clauses(sub2)
    # in _do_assignment the tracking value is whatever first_non_term_qualifier returns: state only name and value here
    ens["D7_writes"] = ens["D7_writes"].replace("wrote(self.children[0].name, self.children[1].g_value, result_tracking())",
                                                "wrote(self.children[0].name, self.children[1].g_value, self.matcher.g_wtracking)")
    ens["D_at_most_one_write"] = "no_write() or wrote(self.children[0].name, self.children[1].g_value, self.matcher.g_wtracking)"
    ens["reads_right_once"] = "self.children[1].g_to_value_calls == old(self.children[1].g_to_value_calls) + 1"
    cs.append(Contract(
        target=f"{EQ}::Equality._do_assignment",
        types={"self.children": "fixed[obj:Variable,obj:Matchable]", "self.children.0.name": "str", "self.children.1.name": "optstr",
               "self.children.1.children": "list[val]", "self._qualifiers": "list[str]", "self.matcher._AND": "bool"},
        requires=["self.matcher._AND == True", "len(self._qualifiers) == 0"],
        modifies=["self.matcher.g_writes", "self.matcher.g_wname", "self.matcher.g_wvalue", "self.matcher.g_wtracking",
                  "self.g_line_matches_calls", "self.children.1.g_to_value_calls"],
        raises={"TypeError": {"when": f"('increase' in {q} or 'decrease' in {q}) and not comparable(self.matcher.g_current, self.children[1].g_value)",
                              "exact": False}},
        ensures=ens,
        inline=inl_and + ["Equality.left", "Equality.right", "Qualified.onchange", "Qualified.latch", "Qualified.onmatch", "Qualified.asbool",
                          "Qualified.nocontrib", "Qualified.notnone", "Qualified.increase", "Qualified.decrease",
                          "Qualified.has_known_qualifiers"],
        returns="bool", macros=m2, class_fields=CLASS_FIELDS, native=NATIVE, opaque=["d_blocked", "d_in_scope"],
        property_clauses={k: "C14" for k in ens}, doc=DOCS))

    # ---------------------------------------------------------------- first_non_term_qualifier
    cs.append(Contract(
        target=f"{QUAL}::Qualified.first_non_term_qualifier",
        types={"self": "obj:Variable", "self._qualifiers": "list[str]", "default": "none"},
        ensures={
            "none_iff_all_known": "(result is None) == forall_int(0, len(self._qualifiers), lambda j: known(self._qualifiers[j]))",
            "first_unknown": "implies(result is not None, exists_int(0, len(self._qualifiers), lambda j: self._qualifiers[j] == result and "
                             "not known(result) and forall_int(0, j, lambda k: known(self._qualifiers[k]))))",
        },
        invariants={0: ["forall_int(0, _i0, lambda k: known(self._qualifiers[k]))"]},
        macros={**MACROS, "known": (["s"], "s in ['onmatch', 'onchange', 'asbool', 'nocontrib', 'latch', 'increase', 'decrease', 'notnone', 'distinct', 'once']")},
        class_fields=CLASS_FIELDS, returns="optstr", native={"int_window": [0, 8]},
        property_clauses={"none_iff_all_known": "C14,C03", "first_unknown": "C14,C03"},
        doc={"first_unknown": "docs/qualifiers.md: the first qualifier that is not a well-known one is the tracking value"}))
    return cs



def bounded(tier, seed):
    return [{"name": "C14.bounded", "script": "native/bounded_C14.py", "timeout": 3000,
             "scope": "all 256 qualifier subsets x sequences of 3 values of y from {absent, 1, 2, 3} (+ true/false without increase/decrease) x {rest matches, does not}: "
                      "quick a seeded 1-in-12 slice of the sequences per subset (4362 runs), thorough all 52224, each a real csvpath over a 3-line file"}]

LEVEL = "proof"
EXPLANATION = ("The documented assignment table is stated as postconditions D1-D7 on the real Equality._do_assignment_new_impl and "
               "Equality._do_assignment (all 256 qualifier subsets, all values y/cur, symbolically), proved modularly from exact "
               "contracts on _set_variable_if and _latch_and_onchange; collaborators (child value, variable store, onmatch look-ahead) are "
               "[A] interface contracts with ghost fields; every clause is also run on the real functions on sampled pre-states.")
ASSUMPTIONS = ["AND logic mode (the property restricts onmatch to AND mode)",
               "don't-cares listed in contracts/C14.py docstring are not checked"]
