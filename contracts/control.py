"""Contracts on the control / validity functions: fail, fail_all, failed/valid, stop, fail_and_stop, skip, advance, last
(C04 and C13), and Expression.matches (C01/C05)."""
from pyvc.contract import Contract
from . import shared, core
from .core import CF, MACROS

FAIL = "csvpath/matching/functions/validity/fail.py"
FAILED = "csvpath/matching/functions/validity/failed.py"
STOP = "csvpath/matching/functions/lines/stop.py"
ADV = "csvpath/matching/functions/lines/advance.py"
LAST = "csvpath/matching/functions/lines/last.py"
EXPR = "csvpath/matching/productions/expression.py"
MATCHABLE = "csvpath/matching/productions/matchable.py"
MATCHER = "csvpath/matching/matcher.py"

CF.setdefault("Matchable", {}).update({"g_raises": "bool"})
CF["CsvPaths"] = {"_fail_all": "bool", "_stop_all": "bool", "_skip_all": "bool", "_advance_all": "int"}
CF["CsvPath"].update({"csvpaths": "obj:CsvPaths"})
CF["Matcher"].update({"g_set_has_happened": "int"})

P_MATCHES_MAY_RAISE = ("def patch(self, *, skip=None):\n    self.g_matches_calls += 1\n    if self.g_raises:\n        raise ValueError('child failed')\n"
                       "    return self.g_match\n")
P_TO_VALUE = shared.P_TO_VALUE
P_SET_HAS_HAPPENED = "def patch(self):\n    self.matcher.g_set_has_happened += 1\n"

NATIVE = {"patches": {"csvpath.matching.productions.matchable.Matchable.matches": P_MATCHES_MAY_RAISE,
                      "csvpath.matching.productions.matchable.Matchable.to_value": P_TO_VALUE,
                      "csvpath.matching.matcher.Matcher._what": shared.P_WHAT,
                      "csvpath.matching.functions.function.Function.to_value": P_TO_VALUE,
                      "csvpath.matching.matcher.Matcher.to_json": "def patch(self, e):\n    return 'json'\n",
                      "csvpath.matching.productions.qualified.Qualified._set_has_happened": P_SET_HAS_HAPPENED},
          "defaults": {"Matchable": {"children": [], "qualified_name": "stub", "_qualifiers": [], "name": "stub", "value": None, "match": None},
                       "CsvPath": {"metadata": {}}}}

INL = ["Matchable.default_match", "CsvPath.is_valid", "CsvPath.is_valid.setter", "CsvPath.stop", "CsvPath.line_monitor",
       "LineMonitor.physical_line_number", "CsvPaths.fail_all", "CsvPaths.stop_all", "CsvPaths.skip_all", "CsvPaths.advance_all",
       "CsvPath.advance_count", "CsvPath.advance_count.setter", "CsvPath.is_frozen", "CsvPath.is_frozen.setter",
       "Qualified.once", "Qualified.qualifiers"]


def interfaces():
    cs = []
    cs.append(Contract(
        target=f"{MATCHABLE}::Matchable.matches", interface=True, variant="may_raise", types={"skip": "val"},
        modifies=["self.g_matches_calls"],
        raises={"Exception": {"when": "self.g_raises", "exact": True}},
        ensures={"memoised": "same(result, self.g_match)", "counted": "self.g_matches_calls == old(self.g_matches_calls) + 1"},
        returns="optbool", class_fields=CF, native={"callee_default": True},
        assumptions=["a child's matches() either raises or returns its vote for the line"]))
    cs.append(Contract(
        target="csvpath/matching/productions/qualified.py::Qualified._set_has_happened", interface=True, types={},
        modifies=["self.matcher.g_set_has_happened"],
        ensures={"counted": "self.matcher.g_set_has_happened == old(self.matcher.g_set_has_happened) + 1"},
        returns="none", class_fields=CF, assumptions=["Qualified._set_has_happened records that a `once` component has fired (a store write)"]))
    cs.append(Contract(
        target="csvpath/matching/functions/function.py::Function.to_value", interface=True, types={"skip": "val"},
        modifies=["self.g_to_value_calls"],
        ensures={"memoised": "same(result, self.g_value)", "counted": "self.g_to_value_calls == old(self.g_to_value_calls) + 1"},
        returns="val", class_fields=CF, assumptions=["Function.to_value() returns the function's value for the line (own contract: Function.to_value[body])"]))
    cs.append(Contract(
        target=f"{MATCHER}::Matcher.to_json", interface=True, types={"e": "val"}, ensures={}, returns="str", class_fields=CF,
        assumptions=["Matcher.to_json renders a component for the error record and has no other effect"]))
    return cs


def fail_contracts():
    cs = []
    base = dict(class_fields=CF, macros=MACROS, native=NATIVE, inline=INL, returns="none")
    cs.append(Contract(
        target=f"{FAIL}::Fail._decide_match", types={"skip": "val"},
        modifies=["self.match", "self.matcher.csvpath._is_valid"],
        ensures={"invalidates": "self.matcher.csvpath._is_valid == False", "votes_default": "self.match == self.matcher._AND"},
        property_clauses={"invalidates": "C04", "votes_default": "C04,C01"},
        doc={"invalidates": "C04: 'is_valid becomes False exactly when fail() ... is executed on some line'"}, **base))
    cs.append(Contract(
        target=f"{FAIL}::FailAll._decide_match", types={"skip": "val", "self.matcher.csvpath.csvpaths": "obj:CsvPaths"},
        modifies=["self.match", "self.matcher.csvpath._is_valid", "self.matcher.csvpath.csvpaths._fail_all"],
        ensures={"invalidates": "self.matcher.csvpath._is_valid == False", "signals_all": "self.matcher.csvpath.csvpaths._fail_all == True",
                 "votes_default": "self.match == self.matcher._AND"},
        property_clauses={"invalidates": "C04", "signals_all": "C04"}, **base))
    cs.append(Contract(
        target=f"{FAILED}::Failed._decide_match", types={"skip": "val", "self.name": "str"},
        requires=["self.name == 'failed' or self.name == 'valid'"],
        modifies=["self.match"],
        ensures={"reports_current_verdict": "self.match == ((not self.matcher.csvpath._is_valid) if self.name == 'failed' else self.matcher.csvpath._is_valid)",
                 "verdict_untouched": "unchanged(self.matcher.csvpath._is_valid)"},
        property_clauses={"reports_current_verdict": "C04"},
        doc={"reports_current_verdict": "C04: 'failed()/valid() report the verdict as of the current line'"}, **base))
    return cs


def stop_contracts():
    cs = []
    base = dict(class_fields=CF, macros=MACROS, native=NATIVE, inline=INL)
    fired = "(len(self.children) != 1 or self.children[0].g_match is True)"
    cs.append(Contract(
        target=f"{STOP}::Stopper._stop_me",
        types={"skip": "val", "self.children": "objlist[Matchable]", "self.name": "str", "self.matcher.csvpath._line_monitor": "obj:LineMonitor",
               "self.matcher.csvpath._line_monitor._physical_line_number": "optint"},
        requires=["forall_int(0, len(self.children), lambda k: not self.children[k].g_raises)"],
        modifies=["self.matcher.csvpath.stopped", "self.matcher.csvpath._is_valid", "self.children[*].g_matches_calls", "self.children"],
        ensures={"stops_iff_fired": "self.matcher.csvpath.stopped == (old(self.matcher.csvpath.stopped) or %s)" % fired,
                 "fail_and_stop_invalidates_iff_fired": "self.matcher.csvpath._is_valid == (old(self.matcher.csvpath._is_valid) and not (%s and self.name == 'fail_and_stop'))" % fired},
        covers={"conditional_not_fired": "len(self.children) == 1 and not self.matcher.csvpath.stopped",
                "fail_and_stop": "self.name == 'fail_and_stop' and old(self.matcher.csvpath._is_valid) and not self.matcher.csvpath._is_valid"},
        returns="none",
        property_clauses={"stops_iff_fired": "C13", "fail_and_stop_invalidates_iff_fired": "C04"},
        doc={"stops_iff_fired": "stop.md: 'stops the scan immediately when an inclosed value is true'",
             "fail_and_stop_invalidates_iff_fired": "C04: 'is_valid becomes False exactly when ... fail_and_stop() is executed'"}, **base))
    cs.append(Contract(
        target=f"{STOP}::Stop._decide_match", types={"skip": "val", "self.children": "objlist[Matchable]", "self.name": "str"},
        requires=["forall_int(0, len(self.children), lambda k: not self.children[k].g_raises)"],
        modifies=["self.match", "self.matcher.csvpath.stopped", "self.matcher.csvpath._is_valid", "self.children"],
        ensures={"votes_default": "self.match == self.matcher._AND",
                 "stops_iff_fired": "self.matcher.csvpath.stopped == (old(self.matcher.csvpath.stopped) or %s)" % fired},
        returns="none", property_clauses={"votes_default": "C13", "stops_iff_fired": "C13"},
        doc={"votes_default": "stop.md: 'Stop always returns True' (the default match)"}, **base))
    fired_skip = "(len(self.children) != 1 or self.children[0].g_match is True)"
    cs.append(Contract(
        target=f"{STOP}::Skipper._skip_me",
        types={"skip": "val", "self.children": "objlist[Matchable]", "self._qualifiers": "list[str]",
               "self.matcher.csvpath._line_monitor": "obj:LineMonitor", "self.matcher.csvpath._line_monitor._physical_line_number": "optint"},
        requires=["forall_int(0, len(self.children), lambda k: not self.children[k].g_raises)"],
        modifies=["self.matcher.skip", "self.children", "self.matcher.g_set_has_happened"],
        ensures={"skips_iff_fired": "self.matcher.skip == (old(self.matcher.skip) or %s)" % fired_skip,
                 "once_is_recorded": "self.matcher.g_set_has_happened == old(self.matcher.g_set_has_happened) + (1 if (%s and 'once' in self._qualifiers) else 0)" % fired_skip},
        returns="none", property_clauses={"skips_iff_fired": "C13"},
        doc={"skips_iff_fired": "C13: 'when skip() fires the line is not matched and no later component of it runs'"}, **base))
    return cs


def advance_contracts():
    base = dict(class_fields=CF, macros=MACROS, native=NATIVE, inline=INL)
    return [Contract(
        target=f"{ADV}::Advance._decide_match",
        types={"skip": "val", "self.children": "objlist[Matchable]"},
        requires=["len(self.children) >= 1", "tag(self.children[0].g_value, 'int')"],
        modifies=["self.match", "self.matcher.csvpath._advance", "self.children", "self.g_to_value_calls"],
        ensures={"sets_count": "self.matcher.csvpath._advance == self.children[0].g_value",
                 "votes_default": "self.match == self.matcher._AND"},
        returns="none", property_clauses={"sets_count": "C13"},
        doc={"sets_count": "advance.md: advance(n) sets the number of lines to pass over to n"}, **base)]


def last_contracts():
    from . import C02
    base = dict(class_fields=CF, native=NATIVE)
    c = Contract(
        target=f"{LAST}::Last._decide_match",
        types={"skip": "val", "self.children": "objlist[Matchable]", "self.matcher.csvpath._line_monitor": "obj:LineMonitor",
               "self.matcher.csvpath.scanner": "obj:Scanner", "self.matcher.csvpath.scanner.csvpath": "obj",
               "self.matcher.csvpath.scanner.csvpath.line_monitor": "obj",
               "self.matcher.csvpath.scanner.csvpath.line_monitor.physical_end_line_number": "optint"},
        requires=["self.matcher.csvpath._line_monitor._physical_line_number is not None and self.matcher.csvpath._line_monitor._physical_line_number >= 0",
                  "forall_int(0, len(self.children), lambda k: not self.children[k].g_raises)",
                  # scanner well formed (C02)
                  "(self.matcher.csvpath.scanner.from_line is None or self.matcher.csvpath.scanner.from_line >= 0) and "
                  "(self.matcher.csvpath.scanner.to_line is None or self.matcher.csvpath.scanner.to_line >= 0) and ("
                  "(self.matcher.csvpath.scanner.all_lines and self.matcher.csvpath.scanner.to_line is None and len(self.matcher.csvpath.scanner.these) == 0) or "
                  "(not self.matcher.csvpath.scanner.all_lines and self.matcher.csvpath.scanner.from_line is not None and self.matcher.csvpath.scanner.to_line is not None and len(self.matcher.csvpath.scanner.these) == 0) or "
                  "(not self.matcher.csvpath.scanner.all_lines and self.matcher.csvpath.scanner.from_line is None and self.matcher.csvpath.scanner.to_line is None))",
                  # the scanner's view of the file end is the line monitor's
                  "same(self.matcher.csvpath.scanner.csvpath.line_monitor.physical_end_line_number, self.matcher.csvpath._line_monitor._physical_end_line_number)"],
        modifies=["self.match", "self.matcher.csvpath._freeze_path", "self.children"],
        ensures={
            "last_iff_file_end_or_scan_end": "self.match == (file_end() or scan_end())",
            "child_runs_only_on_last": "implies(len(self.children) == 1, self.children[0].g_matches_calls == old(self.children[0].g_matches_calls) + (1 if self.match else 0))",
        },
        covers={"file_end_beyond_window": "self.match == True and file_end() and not scan_end()",
                "scan_end": "self.match == True and scan_end() and not file_end()"},
        macros={**C02.MACROS, **MACROS,
                "LM": ([], "self.matcher.csvpath._line_monitor"),
                "SC": ([], "self.matcher.csvpath.scanner"),
                "file_end": ([], "self.matcher.csvpath._line_monitor._physical_end_line_number == self.matcher.csvpath._line_monitor._physical_line_number"),
                "scan_end": ([], "(self.matcher.csvpath._line_monitor._physical_line_number == self.matcher.csvpath._line_monitor._physical_end_line_number) "
                                 "if self.matcher.csvpath.scanner.all_lines else "
                                 "((self.matcher.csvpath._line_monitor._physical_line_number == (self.matcher.csvpath.scanner.from_line if self.matcher.csvpath.scanner.from_line >= self.matcher.csvpath.scanner.to_line else self.matcher.csvpath.scanner.to_line)) "
                                 " if self.matcher.csvpath.scanner.to_line is not None else "
                                 " (len(self.matcher.csvpath.scanner.these) > 0 and self.matcher.csvpath._line_monitor._physical_line_number == max(self.matcher.csvpath.scanner.these)))")},
        inline=INL + ["LineMonitor.is_last_line"], returns="none",
        property_clauses={"last_iff_file_end_or_scan_end": "C13", "child_runs_only_on_last": "C13"},
        doc={"last_iff_file_end_or_scan_end": "C13: 'last() is true on exactly the file's final line or the scan's final line'; last.md: 'last row in the file and/or the last row to be scanned'"},
        **base)
    return [c]


def expression_matches():
    base = dict(class_fields=CF, macros=MACROS, native=NATIVE)
    n = "len(self.children)"
    first_raiser = "exists_int(0, %s, lambda k: self.children[k].g_raises)" % n
    return [Contract(
        target=f"{EXPR}::Expression.matches", variant="body",
        types={"skip": "none", "self.children": "objlist[Matchable]", "self.errors": "list[val]", "self.match": "optbool"},
        requires=["self.match is None", "len(self.errors) == 0"],
        modifies=["self.match", "self.errors", "self.children"],
        ensures={
            "conjunction_of_children": "implies(not %s, result == forall_int(0, %s, lambda k: truthy(self.children[k].g_match)) and len(self.errors) == 0)" % (first_raiser, n),
            "error_means_no_match": "implies(%s and not (self.matcher.csvpath.modes.validation_mode._match_validation_errors is True), result == False)" % first_raiser,
            "error_is_kept_for_the_handler": "implies(%s, len(self.errors) == 1)" % first_raiser,
            "children_asked_in_order_until_error": "forall_int(0, %s, lambda j: implies(forall_int(0, j + 1, lambda k: not self.children[k].g_raises), "
                                                   "self.children[j].g_matches_calls == old(self.children[j].g_matches_calls) + 1))" % n,
            "no_child_asked_after_an_error": "forall_int(0, %s, lambda j: implies(exists_int(0, j, lambda k: self.children[k].g_raises), "
                                             "self.children[j].g_matches_calls == old(self.children[j].g_matches_calls)))" % n,
        },
        invariants={0: [
            "ret == forall_int(0, _i0, lambda k: truthy(self.children[k].g_match))",
            "forall_int(0, _i0, lambda k: not self.children[k].g_raises)",
            "forall_int(0, _i0, lambda k: self.children[k].g_matches_calls == old(self.children[k].g_matches_calls) + 1)",
            "forall_int(lambda k: implies(k >= _i0, self.children[k].g_matches_calls == old(self.children[k].g_matches_calls)))",
            "len(self.errors) == 0", "self.match is None",
            "forall_int(lambda k: self.children[k].g_raises == old(self.children[k].g_raises) and same(self.children[k].g_match, old(self.children[k].g_match)))",
        ]},
        loop_havoc={0: ["self.children[*].g_matches_calls"]},
        covers={"trapped": "len(self.errors) == 1 and result == False", "matched": "result == True and len(self.children) == 2"},
        inline=core_inline_props(), returns="optbool",
        property_clauses={"conjunction_of_children": "C01", "error_means_no_match": "C05,C01", "error_is_kept_for_the_handler": "C05",
                          "children_asked_in_order_until_error": "C01", "no_child_asked_after_an_error": "C01", "no_unexpected_exception": "C05"},
        doc={"error_means_no_match": "C05: 'When evaluating a match component raises ..., the line does not match (unless validation-mode says match)'",
             "no_unexpected_exception": "C05: Expression.matches traps every exception below it"},
        **base)]


def core_inline_props():
    return ["CsvPath.match_validation_errors", "CsvPath.raise_validation_errors"]


def contracts():
    return (fail_contracts() + stop_contracts() + advance_contracts() + last_contracts() + expression_matches() + interfaces())
