"""C05 -- errors in match components are handled exactly as the error policy says.

Policy is a symbolic list of strings; the four validation-mode overrides are symbolic Optional[bool]:
the 2^6 x 3^4 case split of the property is done by the solver, not enumerated.
"""
from pyvc.contract import Contract, Lemma
from . import shared
from .shared import CLASS_FIELDS, MACROS as SHARED_MACROS

ERR = "csvpath/util/error.py"
VM = "csvpath/modes/validation_mode.py"
CP = "csvpath/csvpath.py"
EXPR = "csvpath/matching/productions/expression.py"
USES = ["shared"]

OVR = "self._csvpath.modes.validation_mode"
MACROS = dict(SHARED_MACROS)
MACROS.update({
    # effective flag = the csvpath's validation-mode override when set, else membership in the configured policy
    "eff": (["ovr", "word", "policy"], "(ovr == True) if ovr is not None else (word in policy)"),
    "do_raise": ([], "eff(self._ecm._csvpath.modes.validation_mode._raise_validation_errors, 'raise', self._ecm._policy)"),
    "do_print": ([], "eff(self._ecm._csvpath.modes.validation_mode._print_validation_errors, 'print', self._ecm._policy)"),
    "do_stop": ([], "eff(self._ecm._csvpath.modes.validation_mode._stop_on_validation_errors, 'stop', self._ecm._policy)"),
    "do_fail": ([], "eff(self._ecm._csvpath.modes.validation_mode._fail_on_validation_errors, 'fail', self._ecm._policy)"),
})

INLINE_PROPS = ["CsvPath.raise_validation_errors", "CsvPath.print_validation_errors", "CsvPath.stop_on_validation_errors",
                "CsvPath.fail_on_validation_errors", "CsvPath.match_validation_errors", "CsvPath.is_valid.setter", "CsvPath.is_valid"]

NATIVE = {"patches": {**shared.CSVPATH_PRINT_PATCH}, "construct": ["Error"]}


def error_contracts():
    cs = []
    common = dict(class_fields=CLASS_FIELDS, macros=MACROS)
    # ---------------------------------------------------------------- ErrorCommsManager.do_i_*
    for flag, fld, word in [("raise", "_raise_validation_errors", "raise"), ("print", "_print_validation_errors", "print"),
                            ("stop", "_stop_on_validation_errors", "stop"), ("fail", "_fail_on_validation_errors", "fail")]:
        cs.append(Contract(
            target=f"{ERR}::ErrorCommsManager.do_i_{flag}",
            types={},
            ensures={"override_else_policy": f"result == eff({OVR}.{fld}, '{word}', self._policy)",
                     "is_bool": "result is True or result is False"},
            covers={"override_wins_over_policy": f"{OVR}.{fld} is False and '{word}' in self._policy and result == False",
                    "policy_used": f"{OVR}.{fld} is None and '{word}' in self._policy and result == True"},
            inline=INLINE_PROPS, returns="bool", pure=True,
            property_clauses={"override_else_policy": "C05,C04"},
            doc={"override_else_policy": "C05: 'A csvpath's validation-mode comment overrides the corresponding flags for that csvpath only'"},
            **common))
    # ---------------------------------------------------------------- ValidationMode.set_*
    for name, fld, word in [("set_raise_validation_errors", "_raise_validation_errors", "raise"),
                            ("set_print_validation_errors", "_print_validation_errors", "print"),
                            ("set_stop_validation_errors", "_stop_on_validation_errors", "stop"),
                            ("set_fail_validation_errors", "_fail_on_validation_errors", "fail"),
                            ("set_match_validation_errors", "_match_validation_errors", "match")]:
        cs.append(Contract(
            target=f"{VM}::ValidationMode.{name}",
            types={"veh": "optstr"},
            modifies=[f"self.{fld}"],
            ensures={"parses": f"same(self.{fld}, (False if (veh is not None and 'no-{word}' in veh) else "
                               f"(True if (veh is not None and '{word}' in veh) else None)))"},
            covers={"no_wins": f"self.{fld} is False", "yes": f"self.{fld} is True", "unset": f"self.{fld} is None"},
            returns="none", property_clauses={"parses": "C05"},
            doc={"parses": f"docs: validation-mode '{word}' / 'no-{word}' set the override, neither leaves the policy in force"},
            **common))
    # ---------------------------------------------------------------- CsvPath.collect_error
    cs.append(Contract(
        target=f"{CP}::CsvPath.collect_error", variant="own_list",
        types={"error": "obj:Error", "self._error_collector": "none", "self._errors": "list[val]"},
        modifies=["self._errors"],
        ensures={"appends": "self._errors == old(self._errors) + [error]"},
        returns="none", property_clauses={"appends": "C05,C18"}, native={"callee_default": True, "construct": ["Error"]}, **common))
    # ---------------------------------------------------------------- ErrorHandler._handle_if
    eff_after = ("self._error_collector._errors == (old(self._error_collector._errors) + [error] if 'collect' in policy "
                 "else old(self._error_collector._errors))")
    effects = {
        "collect_iff_policy": eff_after,
        "fail_iff_policy": "self._csvpath._is_valid == (old(self._csvpath._is_valid) and not do_fail())",
        "stop_iff_policy": "self._csvpath.stopped == (old(self._csvpath.stopped) or do_stop())",
        "print_iff_policy": "self._csvpath.g_printed == (old(self._csvpath.g_printed) + [str_of(error.error)] if do_print() "
                            "else old(self._csvpath.g_printed))",
    }
    cs.append(Contract(
        target=f"{ERR}::ErrorHandler._handle_if",
        types={"policy": "list[str]", "error": "obj:Error", "self._csvpath": "obj:CsvPath", "self._csvpaths": "none",
               "self._error_collector": "obj:CsvPath", "self._error_collector._error_collector": "none",
               "self._error_collector._errors": "list[val]", "self._ecm": "obj:ErrorCommsManager"},
        requires=["self._ecm._policy == policy"],
        may_alias=[("self._error_collector", "self._csvpath")],
        modifies=["self._csvpath._is_valid", "self._csvpath.stopped", "self._csvpath.g_printed", "self._error_collector._errors"],
        raises={"MatchException": {"when": "do_raise()", "exact": True}},
        ensures=dict(effects),
        ensures_exc={k + "_before_raise": v for k, v in effects.items()},
        covers={"quiet_policy_handled": "'quiet' in policy and 'collect' in policy and len(self._error_collector._errors) == len(old(self._error_collector._errors)) + 1",
                "fails": "old(self._csvpath._is_valid) and not self._csvpath._is_valid"},
        inline=INLINE_PROPS + ["ErrorHandler.logger"], returns="none",
        extra_attrs={"Error": ["exception_class", "match"]},
        native=NATIVE,
        property_clauses={**{k: "C05,C04" for k in effects}, **{k + "_before_raise": "C05,C18" for k in effects},
                          "raises:MatchException.must": "C05", "raises:MatchException.only_when": "C05", "no_unexpected_exception": "C05"},
        doc={"collect_iff_policy": "C05: 'an error record (with line number) is collected iff collect'",
             "fail_iff_policy": "C05: 'is_valid becomes False iff fail'; C04: 'once False it never returns to True'",
             "stop_iff_policy": "C05: 'the run stops at that line iff stop'",
             "print_iff_policy": "C05: 'the message is sent to the printers iff print'"},
        assumptions=["the requires 'the ErrorCommsManager's policy snapshot equals the policy passed in' is no longer assumed: it is proved at the call site in "
                     "ErrorHandler.handle_error[for_a_csvpath], whose own requires is proved where Expression.handle_errors_if[body] makes the handler and calls it "
                     "(constructors of ErrorHandler / ErrorCommsManager under contract); still assumed: a csvpath HAS a config object (CsvPath.config creates one lazily)",
                     "the handler's _csvpath and its ErrorCommsManager's _csvpath are treated as separate objects: _handle_if writes nothing the manager reads (frame-checked)"],
        **common))
    return cs


def contracts():
    # every trapped error reaches the handler whatever ends the line (Matcher.matches), and every exception below an expression is trapped (Expression.matches)
    from . import core, control
    extra = core.select(core.contracts(), ("Matcher.matches",))
    from . import C18
    return error_contracts() + extra + control.expression_matches() + control.interfaces() + clear_errors_contracts() + C18.build_contract() + handler_chain_contracts()


def handler_chain_contracts():
    """the policy an ErrorHandler acts on is the csvpath's configured policy at the time the handler is made: constructors and handle_error under
    contract, so that the requires of _handle_if ('the manager's policy snapshot is the policy passed in') is proved at its call site"""
    cf = {**CLASS_FIELDS, "CsvPath": {**CLASS_FIELDS["CsvPath"], "_config": "obj:Config"}, "Config": {"_csvpath_errors_policy": "list[str]"},
          "ErrorHandler": {"_csvpath": "obj:CsvPath", "_csvpaths": "none", "_ecm": "obj:ErrorCommsManager", "_error_collector": "obj:CsvPath", "_logger": "val"}}
    POL = "csvpath._config._csvpath_errors_policy"
    inl = ["CsvPath.config", "Config.csvpath_errors_policy"]
    cs = []
    cs.append(Contract(
        target=f"{ERR}::ErrorCommsManager.__init__", variant="for_a_csvpath", types={"csvpath": "obj:CsvPath", "csvpaths": "none"},
        modifies=["self._csvpath", "self._policy"],
        ensures={"acts_for_that_csvpath": "self._csvpath is csvpath", "takes_the_configured_policy": f"self._policy == {POL}"},
        inline=inl, class_fields=cf, macros=MACROS, returns="none", native={"skip": True},
        property_clauses={"takes_the_configured_policy": "C05"}))
    cs.append(Contract(
        target=f"{ERR}::ErrorHandler.__init__", variant="for_a_csvpath", types={"csvpath": "obj:CsvPath", "csvpaths": "none", "error_collector": "obj:CsvPath"},
        modifies=["self._csvpath", "self._csvpaths", "self._error_collector", "self._ecm", "self._logger"],
        ensures={"handles_for_that_csvpath": "self._csvpath is csvpath", "and_for_no_csvpaths": "self._csvpaths is None", "its_manager_acts_for_that_csvpath": "self._ecm._csvpath is csvpath",
                 "collects_into_the_given_collector": "self._error_collector is error_collector",
                 "its_manager_holds_the_configured_policy": f"self._ecm._policy == {POL}"},
        callee_variants={"ErrorCommsManager.__init__": "for_a_csvpath"},
        inline=inl, class_fields=cf, macros=MACROS, returns="none", native={"skip": True},
        property_clauses={"its_manager_holds_the_configured_policy": "C05", "collects_into_the_given_collector": "C05"}))
    SP = "self._csvpath._config._csvpath_errors_policy"
    cs.append(Contract(
        target=f"{ERR}::ErrorHandler.handle_error", variant="for_a_csvpath",
        types={"ex": "obj", "ex.json": "val", "ex.datum": "val", "ex.message": "val", "ex.trace": "val", "ex.source": "val",
               "self._csvpath": "obj:CsvPath", "self._csvpaths": "none", "self._error_collector": "obj:CsvPath", "self._error_collector._error_collector": "none",
               "self._error_collector._errors": "list[val]", "self._ecm": "obj:ErrorCommsManager",
               "self._csvpath._line_monitor": "obj:LineMonitor", "self._csvpath._line_monitor._physical_line_number": "int",
               "self._csvpath.scanner": "obj:Scanner", "self._csvpath.match": "val"},
        requires=[f"self._ecm._policy == {SP}", "self._csvpath._line_monitor._physical_line_number >= 0"],
        may_alias=[("self._error_collector", "self._csvpath")],
        modifies=["self._csvpath._is_valid", "self._csvpath.stopped", "self._csvpath.g_printed", "self._error_collector._errors"],
        raises={"MatchException": {"when": "do_raise()", "exact": True}},
        ensures={"acts_on_the_configured_policy_fail": "self._csvpath._is_valid == (old(self._csvpath._is_valid) and not do_fail())",
                 "acts_on_the_configured_policy_stop": "self._csvpath.stopped == (old(self._csvpath.stopped) or do_stop())",
                 "one_record_iff_collect": f"len(self._error_collector._errors) == len(old(self._error_collector._errors)) + (1 if 'collect' in {SP} else 0)"},
        covers={"fails_under_a_policy_with_fail": f"'fail' in {SP} and old(self._csvpath._is_valid) and not self._csvpath._is_valid"},
        inline=INLINE_PROPS + inl + ["ErrorHandler.logger"], class_fields={**cf, "LineMonitor": {"_physical_line_number": "optint"}, "Scanner": {"filename": "optstr"}},
        macros=MACROS, returns="none", native={"skip": True},
        property_clauses={"acts_on_the_configured_policy_fail": "C05,C04", "acts_on_the_configured_policy_stop": "C05", "one_record_iff_collect": "C05",
                          "raises:MatchException.must": "C05", "raises:MatchException.only_when": "C05"},
        doc={"acts_on_the_configured_policy_fail": "C05: 'exactly the configured error policy decides' -- the policy _handle_if acts on is the csvpath's configured one"}))
    cs.append(Contract(
        target="csvpath/matching/productions/expression.py::Expression.handle_errors_if", variant="body",
        types={"self.errors": "objlist[MatchException]", "self.matcher": "obj:Matcher", "self.matcher.csvpath": "obj:CsvPath",
               "self.matcher.csvpath._error_collector": "none", "self.matcher.csvpath._errors": "list[val]",
               "self.matcher.csvpath._line_monitor": "obj:LineMonitor", "self.matcher.csvpath._line_monitor._physical_line_number": "int",
               "self.matcher.csvpath.scanner": "obj:Scanner", "self.matcher.csvpath.match": "val"},
        requires=["self.matcher.csvpath._line_monitor._physical_line_number >= 0"],
        modifies=["self.errors", "self.matcher.csvpath._is_valid", "self.matcher.csvpath.stopped", "self.matcher.csvpath.g_printed", "self.matcher.csvpath._errors"],
        raises={"MatchException": {"when": "True", "exact": False}},
        ensures={"the_queue_is_emptied": "len(self.errors) == 0",
                 "one_record_per_trapped_error_iff_collect": "len(self.matcher.csvpath._errors) == len(old(self.matcher.csvpath._errors)) + "
                                                             "(len(old(self.errors)) if 'collect' in self.matcher.csvpath._config._csvpath_errors_policy else 0)"},
        invariants={0: ["len(self.matcher.csvpath._errors) == len(old(self.matcher.csvpath._errors)) + (_i0 if 'collect' in self.matcher.csvpath._config._csvpath_errors_policy else 0)",
                        "self.matcher.csvpath._line_monitor._physical_line_number >= 0"]},
        loop_havoc={0: ["self.matcher.csvpath._is_valid", "self.matcher.csvpath.stopped", "self.matcher.csvpath.g_printed", "self.matcher.csvpath._errors"]},
        callee_variants={"ErrorHandler.__init__": "for_a_csvpath", "ErrorHandler.handle_error": "for_a_csvpath"},
        inline=inl, class_fields={**cf, "LineMonitor": {"_physical_line_number": "optint"}, "Scanner": {"filename": "optstr"},
                                  "MatchException": {"json": "val", "datum": "val", "message": "val", "trace": "val", "source": "val"}},
        macros=MACROS, returns="none", native={"skip": True},
        property_clauses={"the_queue_is_emptied": "C05", "one_record_per_trapped_error_iff_collect": "C05"}))
    return cs


def clear_errors_contracts():
    """Matcher.clear_errors is an [A] interface for Matcher.matches; here its body is under contract: every expression is asked to hand over its
    trapped errors, whatever state the run is in"""
    from . import core
    cf = core.CF
    cf.setdefault("Expression", {}).update({"g_handle_errors_calls": "int"})
    n = "len(self.expressions)"
    cnt = lambda k: f"self.expressions[{k}][0].g_handle_errors_calls"
    return [
        Contract(target="csvpath/matching/productions/expression.py::Expression.handle_errors_if", interface=True, types={},
                 modifies=["self.g_handle_errors_calls"], ensures={"counted": "self.g_handle_errors_calls == old(self.g_handle_errors_calls) + 1"},
                 returns="none", class_fields=cf,
                 assumptions=["Expression.handle_errors_if() hands each error the expression trapped on this line to ErrorHandler.handle_error (whose _handle_if is under contract) and empties the queue"]),
        Contract(target="csvpath/matching/matcher.py::Matcher.clear_errors", variant="body",
                 types={"self.expressions": "pairlist[Expression]", "self.csvpath": "obj:CsvPath"},
                 modifies=["self.expressions[*].g_handle_errors_calls", "self.expressions"],
                 ensures={"every_expression_hands_over_its_errors": f"forall_int(0, {n}, lambda k: {cnt('k')} == old({cnt('k')}) + 1)"},
                 invariants={0: [f"forall_int(0, _i0, lambda k: {cnt('k')} == old({cnt('k')}) + 1)",
                                 f"forall_int(lambda k: implies(k >= _i0, {cnt('k')} == old({cnt('k')})))"]},
                 loop_havoc={0: ["self.expressions[*].g_handle_errors_calls"]},
                 covers={"also_when_the_run_has_been_stopped_on_this_line": f"self.csvpath.stopped and {n} == 2 and {cnt(1)} == old({cnt(1)}) + 1"},
                 class_fields=cf, macros=MACROS, returns="none",
                 native={"defaults": core.NATIVE_CORE["defaults"],
                         "patches": {"csvpath.matching.productions.expression.Expression.handle_errors_if": "def patch(self):\n    self.g_handle_errors_calls += 1\n"}},
                 property_clauses={"every_expression_hands_over_its_errors": "C05"},
                 doc={"every_expression_hands_over_its_errors": "C05: 'When a match component raises ... exactly the configured error policy decides' -- no trapped error is dropped because of the state of the run"})]



def bounded(tier, seed):
    return [{"name": "C05.bounded", "script": "native/bounded_C05.py", "timeout": 3000, "scope": "all 63 non-empty policy subsets x 4 error kinds x offending line first/middle/last (thorough every position) x 7 validation-mode overrides (quick: a fifth of the overridden cases)"}]

LEVEL = "proof"
EXPLANATION = ("The five observable effects of error handling are postconditions (normal and exceptional exits) on the real "
               "ErrorHandler._handle_if for a symbolic policy list and symbolic validation-mode overrides; ErrorCommsManager.do_i_* and "
               "ValidationMode.set_* are proved against the override-else-policy rule; attribute safety makes a missing attribute "
               "(the historic 'quiet' defect) a failed no_unexpected_exception obligation. The way from a trapped error to _handle_if is under contract "
               "link by link: Matcher.matches calls clear_errors on every exit, clear_errors asks every expression (whatever the state of the run), "
               "Expression.handle_errors_if empties its queue through a handler made for this csvpath, ErrorHandler.handle_error builds the record "
               "(with the physical line, 0 included) and calls _handle_if with the csvpath's configured policy.")
ASSUMPTIONS = ["CsvPath.print is an [A] interface contract here (its loop over printers is under contract in C16)"]
