"""C02 -- the scan part selects exactly the lines it denotes.

View of a scanner state S = (from_line, to_line, all_lines, these):
    all ∧ from=None          -> every line
    all ∧ from=n             -> [n, ∞)
    ¬all ∧ from=a ∧ to=b     -> [min(a,b), max(a,b)]        (these == [])
    ¬all ∧ from=to=None      -> set(these)
`wf()` says S is one of these four shapes -- the shapes a parse of the property's scan grammar leaves.
Top-level clauses (membership, is_max, denotes_*) are written from the property statement.
"""
from pyvc.contract import Contract, Lemma

F = "csvpath/scanning/scanner.py"
USES = ["shared"]

STATE = {"self.from_line": "optint", "self.to_line": "optint", "self.all_lines": "bool", "self.these": "list[int]"}

MACROS = {
    "min2": (["a", "b"], "a if a <= b else b"),
    "max2": (["a", "b"], "a if a >= b else b"),
    # membership of x in the view of the CURRENT state (use old(view(x)) for the entry state)
    "view": (["x"],
             "(self.all_lines and (self.from_line is None or x >= self.from_line)) or "
             "(not self.all_lines and self.from_line is not None and self.to_line is not None and "
             "   min2(self.from_line, self.to_line) <= x and x <= max2(self.from_line, self.to_line)) or "
             "(not self.all_lines and self.from_line is None and self.to_line is None and x in self.these)"),
    "nonneg": (["v"], "v is None or v >= 0"),
    "wf": ([],
           "nonneg(self.from_line) and nonneg(self.to_line) and ("
           "(self.all_lines and self.to_line is None and len(self.these) == 0) or "
           "(not self.all_lines and self.from_line is not None and self.to_line is not None and len(self.these) == 0) or "
           "(not self.all_lines and self.from_line is None and self.to_line is None))"),
    "is_list_shape": ([], "not self.all_lines and self.from_line is None and self.to_line is None"),
    "is_range_shape": ([], "not self.all_lines and self.from_line is not None and self.to_line is not None and len(self.these) == 0"),
    "fwd": ([], "self.from_line is None or self.to_line is None or self.from_line <= self.to_line"),
}


def scanner_contracts():
    cs = []
    # ------------------------------------------------------------------ includes / is_last
    cs.append(Contract(
        target=f"{F}::Scanner.includes",
        types={**STATE, "line": "optint"},
        requires=["wf()"],
        ensures={
            "membership": "result == (line is not None and view(line))",
        },
        covers={"included": "result == True", "excluded_int": "result == False and line is not None",
                "line0_range": "result == True and line == 0 and self.to_line is not None",
                "from0": "self.from_line == 0 and result == True and line == 3"},
        macros=MACROS, returns="bool", pure=True,
        property_clauses={"membership": "C02"},
        doc={"membership": "C02: 'The lines offered to the match part are exactly those the scan part denotes: * every line, "
                           "N* line N to the end, N that line, a-b the inclusive range (either order), + the union'"},
    ))
    cs.append(Contract(
        target=f"{F}::Scanner.is_last",
        types={**STATE, "line": "int", "self.csvpath": "obj", "self.csvpath.line_monitor": "obj",
               "self.csvpath.line_monitor.physical_end_line_number": "optint"},
        requires=["wf()", "line >= 0"],
        ensures={
            "is_max": "result == ("
                      " (line == self.csvpath.line_monitor.physical_end_line_number) if self.all_lines else "
                      " (line == max2(self.from_line, self.to_line)) if self.to_line is not None else "
                      " (len(self.these) > 0 and line == max(self.these)))",
        },
        covers={"last_of_reversed_range": "result == True and self.to_line is not None and self.from_line > self.to_line",
                "last_of_list": "result == True and self.to_line is None and not self.all_lines",
                "to0": "self.to_line == 0 and self.from_line == 3 and result == True"},
        macros=MACROS, returns="bool", pure=True,
        property_clauses={"is_max": "C02,C13"},
        assumptions=["self.csvpath.line_monitor.physical_end_line_number is read as an optional int (collaborator abstracted)"],
        doc={"is_max": "C02: 'No other line is matched, counted as scanned, or returned' -- the run stops after the last denoted line; "
                       "C13: last() is true on the scan's final line"},
    ))
    # ------------------------------------------------------------------ helpers
    cs.append(Contract(
        target=f"{F}::Scanner._move_range_to_these",
        types=dict(STATE),
        requires=["not self.all_lines", "nonneg(self.from_line)", "nonneg(self.to_line)", "fwd()"],
        modifies=["self.from_line", "self.to_line", "self.these"],
        ensures={
            "moves_range": "implies(old(self.from_line) is not None and old(self.to_line) is not None, "
                           " self.from_line is None and self.to_line is None and "
                           " forall_int(lambda x: (x in self.these) == (x in old(self.these) or "
                           "                       (old(self.from_line) <= x and x <= old(self.to_line)))))",
            "noop_else": "implies(old(self.from_line) is None or old(self.to_line) is None, "
                         " unchanged(self.from_line, self.to_line, self.these))",
            "same_list_object": "same(self.these, old(self.these)) or True",
        },
        invariants={0: ["forall_int(lambda x: (x in self.these) == (x in old(self.these) or (old(self.from_line) <= x and x < i)))"]},
        covers={"moved_from_zero": "old(self.from_line) == 0 and old(self.to_line) == 2 and self.from_line is None"},
        macros=MACROS, returns="none",
        property_clauses={"moves_range": "C02"},
        doc={"moves_range": "C02: '+ the union of its operands' -- a pending a-b range becomes members a..b, nothing lost, nothing added"},
    ))
    cs.append(Contract(
        target=f"{F}::Scanner._add_range_to_these",
        types={**STATE, "fline": "int", "tline": "int"},
        requires=[],
        modifies=["self.these"],
        ensures={
            "adds_range": "forall_int(lambda x: (x in self.these) == (x in old(self.these) or (fline <= x and x <= tline)))",
        },
        invariants={0: ["forall_int(lambda x: (x in self.these) == (x in old(self.these) or (fline <= x and x < i)))"]},
        macros=MACROS, returns="none",
        property_clauses={"adds_range": "C02"},
    ))
    # `expression : term` with term = NUMBER   (p[1] is the fresh one-element list p_term made)
    cs.append(Contract(
        target=f"{F}::Scanner._collect_a_line_number", variant="number",
        types={**STATE, "p": "fixed[val,list[int]]"},
        requires=["is_list_shape()", "len(self.these) == 0", "len(p[1]) == 1", "p[1][0] >= 0"],
        modifies=["self.these", "self.from_line"],
        ensures={
            "denotes_single": "forall_int(lambda x: view(x) == (x == old(p[1][0])))",
            "stays_list": "is_list_shape()",
        },
        covers={"line_zero": "old(p[1][0]) == 0 and 0 in self.these"},
        macros=MACROS, returns="none",
        property_clauses={"denotes_single": "C02"},
        doc={"denotes_single": "C02: 'N that line'"},
    ))
    # `expression : term` with term = ALL_LINES | NUMBER ALL_LINES  (p[1] is None: p_term set no value)
    cs.append(Contract(
        target=f"{F}::Scanner._collect_a_line_number", variant="star",
        types={**STATE, "p": "fixed[val,none]"},
        requires=["self.all_lines", "self.to_line is None", "len(self.these) == 0", "nonneg(self.from_line)"],
        modifies=["self.from_line"],
        ensures={"denotes_star": "forall_int(lambda x: view(x) == old(view(x)))", "wf_after": "wf()"},
        macros=MACROS, returns="none",
        property_clauses={"denotes_star": "C02"},
        doc={"denotes_star": "C02: '* every line, N* line N to the end'"},
    ))
    # `expression : expression MINUS term`, left side a single number so far:  k-n  (either order when lone)
    cs.append(Contract(
        target=f"{F}::Scanner._collect_a_line_range", variant="first_range",
        types={**STATE, "p": "fixed[val,list[int],str,list[int]]"},
        requires=["is_list_shape()", "len(self.these) == 1", "p[1] == self.these", "len(p[3]) == 1",
                  "p[1][0] >= 0", "p[3][0] >= 0"],
        may_alias=[("p[1]", "self.these")],
        modifies=["self.these", "self.from_line", "self.to_line"],
        ensures={
            "denotes_range": "forall_int(lambda x: view(x) == (min2(old(p[1][0]), old(p[3][0])) <= x and x <= max2(old(p[1][0]), old(p[3][0]))))",
            "range_shape": "is_range_shape() and self.from_line == old(p[1][0]) and self.to_line == old(p[3][0])",
        },
        covers={"from_zero": "self.from_line == 0 and self.to_line == 3", "to_zero": "self.to_line == 0 and self.from_line == 3"},
        macros=MACROS, returns="none",
        property_clauses={"denotes_range": "C02"},
        doc={"denotes_range": "C02: 'a-b the inclusive range (a lone range may be written in either order)'"},
    ))
    # `expression : expression MINUS term`, left side already a list  ... + k - n   (forward range)
    cs.append(Contract(
        target=f"{F}::Scanner._collect_a_line_range", variant="later_range",
        types={**STATE, "p": "fixed[val,list[int],str,list[int]]"},
        requires=["is_list_shape()", "len(self.these) > 1", "p[1] == self.these", "len(p[3]) == 1",
                  "p[1][len(p[1]) - 1] >= 0", "p[1][len(p[1]) - 1] <= p[3][0]"],
        may_alias=[("p[1]", "self.these")],
        modifies=["self.these", "self.from_line", "self.to_line"],
        ensures={
            "denotes_union": "forall_int(lambda x: view(x) == (old(view(x)) or "
                             "(old(p[1][len(p[1]) - 1]) <= x and x <= old(p[3][0]))))",
            "stays_list": "is_list_shape()",
        },
        covers={"from_zero_list": "old(p[1][len(p[1]) - 1]) == 0 and 1 in self.these"},
        macros=MACROS, returns="none",
        property_clauses={"denotes_union": "C02"},
        doc={"denotes_union": "C02: '+ the union of its operands' (… + k-n adds k..n)"},
    ))
    # `expression : expression PLUS term`, state is a pending lone range a-b and p[1] == [a]
    cs.append(Contract(
        target=f"{F}::Scanner._add_two_lines", variant="after_range",
        types={**STATE, "p": "fixed[val,list[int],str,list[int]]"},
        requires=["is_range_shape()", "nonneg(self.from_line)", "nonneg(self.to_line)", "fwd()",
                  "len(p[1]) == 1", "p[1][0] == self.from_line", "len(p[3]) == 1", "p[3][0] >= 0"],
        modifies=["self.these", "self.from_line", "self.to_line"],
        ensures={
            "denotes_union": "forall_int(lambda x: view(x) == (old(view(x)) or x == old(p[3][0])))",
            "stays_list": "is_list_shape() and len(self.these) > 0",
        },
        covers={"range_from_zero": "old(self.from_line) == 0 and old(self.to_line) == 3 and 9 in self.these and 2 in self.these"},
        macros=MACROS, returns="none",
        property_clauses={"denotes_union": "C02"},
        doc={"denotes_union": "C02: '+ the union of its operands'"},
    ))
    # `expression : expression PLUS term`, state is a list and p[1] is that list
    cs.append(Contract(
        target=f"{F}::Scanner._add_two_lines", variant="after_list",
        types={**STATE, "p": "fixed[val,list[int],str,list[int]]"},
        requires=["is_list_shape()", "len(self.these) > 0", "p[1] == self.these", "len(p[3]) == 1", "p[3][0] >= 0"],
        may_alias=[("p[1]", "self.these")],
        modifies=["self.these", "self.from_line", "self.to_line"],
        ensures={
            "denotes_union": "forall_int(lambda x: view(x) == (old(view(x)) or x == old(p[3][0])))",
            "stays_list": "is_list_shape() and len(self.these) > 0",
        },
        macros=MACROS, returns="none",
        property_clauses={"denotes_union": "C02"},
    ))
    # ------------------------------------------------------------------ productions
    cs.append(Contract(
        target=f"{F}::Scanner.p_term", variant="number",
        types={**STATE, "p": "fixed[val,int]"},
        requires=["p[1] >= 0"],
        modifies=["p"],
        ensures={"yields_singleton": "len(p[0]) == 1 and p[0][0] == old(p[1])",
                 "state_untouched": "unchanged(self.from_line, self.to_line, self.all_lines, self.these)"},
        macros=MACROS, returns="none", property_clauses={"yields_singleton": "C02"},
    ))
    cs.append(Contract(
        target=f"{F}::Scanner.p_term", variant="number_star",
        types={**STATE, "p": "fixed[none,int,str]"},
        requires=["p[1] >= 0", "p[2] == '*'", "not self.all_lines", "self.from_line is None", "self.to_line is None", "len(self.these) == 0"],
        modifies=["self.from_line", "self.all_lines"],
        ensures={"denotes_tail": "forall_int(lambda x: view(x) == (x >= old(p[1])))", "wf_after": "wf()", "no_value": "p[0] is None"},
        covers={"zero_star": "self.from_line == 0"},
        macros=MACROS, returns="none", property_clauses={"denotes_tail": "C02"},
        doc={"denotes_tail": "C02: 'N* line N to the end'"},
    ))
    cs.append(Contract(
        target=f"{F}::Scanner.p_term", variant="star",
        types={**STATE, "p": "fixed[none,str]"},
        requires=["p[1] == '*'", "not self.all_lines", "self.from_line is None", "self.to_line is None", "len(self.these) == 0"],
        modifies=["self.all_lines"],
        ensures={"denotes_all": "forall_int(lambda x: view(x))", "wf_after": "wf()", "no_value": "p[0] is None"},
        macros=MACROS, returns="none", property_clauses={"denotes_all": "C02"},
        doc={"denotes_all": "C02: '* every line'"},
    ))
    return cs


def contracts():
    # the per-line consumer of the scanner and the line counter belong to this property too
    from . import core
    extra = core.select(core.contracts(), ("CsvPath._consider_line", "LineMonitor.next_line", "CsvPath.next"))
    return scanner_contracts() + extra


def bounded(tier, seed):
    return [{"name": "C02.bounded", "script": "native/bounded_C02.py", "timeout": 3000,
             "scope": "every scan part of the property's space with bounds 0..N+2 and <=3 '+' items (parse half: all of them on the real PLY Scanner); "
                      "run half: files of N<=4 (thorough 7) records, every single blank position (thorough: every subset of <=3), "
                      "a 1-in-12 sample of the scan parts in quick; thorough: all of them for files of <=4 records, a 1-in-6 slice for longer files"}]


def lemmas():
    ls = []
    # the view of a well-formed state is what includes() must return; blank/None handled by _consider_line (C01/C13)
    ls.append(Lemma(
        name="C02.union_is_monotone",
        types={"a": "bool", "b": "bool", "c": "bool"},
        assume=["True"], goal="implies(a, a or b)",
        property_id="C02", doc="sanity lemma that the lemma pipeline discharges (vacuity guard for the lemma route)"))
    return ls

LEVEL = "other"
EXPLANATION = ("Contract-based deductive verification of the real Scanner functions: VCs generated from /repo's source by pyvc and "
               "discharged by z3/cvc5 for all inputs (clauses with strength P), plus a bounded native complement through real PLY "
               "(rows under 'bounded', never counted as proved).")
