"""C20 -- data and values flow between csvpaths as declared."""
from pyvc.contract import Contract
from . import core, shared, managers
from .core import CF, MACROS
USES = ["shared"]

REF = "csvpath/matching/productions/reference.py"
RM = "csvpath/managers/results/results_manager.py"

CF["Reference"].update({"g_ref_name": "str", "g_ref_paths_name": "str"})
CF["ResultsManager"].update({"g_vars": "dict[str,val]"})
CF["CsvPaths"].update({"results_manager": "obj:ResultsManager"})

NATIVE = {"patches": {
    "csvpath.matching.productions.reference.Reference._get_reference":
        "def patch(self):\n    return {'name': self.g_ref_name, 'tracking': None, 'paths_name': self.g_ref_paths_name, 'data_type': 'variables'}\n",
    "csvpath.managers.results.results_manager.ResultsManager.get_variables": "def patch(self, name):\n    return self.g_vars\n",
    "csvpath.managers.results.results_manager.ResultsManager.get_named_results": "def patch(self, name):\n    return self.g_results\n"}}


def contracts():
    cs = []
    cs.append(Contract(
        target=f"{REF}::Reference._get_reference", interface=True, types={},
        ensures={"name": "result['name'] == self.g_ref_name", "paths": "result['paths_name'] == self.g_ref_paths_name"},
        returns="rec[name:str,tracking:none,paths_name:str,data_type:str]", class_fields=CF,
        assumptions=["Reference._get_reference splits '$paths.variables.name' into its parts (ReferenceParser; string slicing) -- untracked-variable variant"]))
    cs.append(Contract(
        target=f"{RM}::ResultsManager.get_variables", interface=True, types={"name": "str"},
        ensures={"merged": "same(result, self.g_vars)"}, returns="dict[str,val]", class_fields=CF,
        assumptions=["ResultsManager.get_variables(name) is the merge of the variables of the group's most recent results"]))
    cs.append(Contract(
        target=f"{REF}::Reference._variable_value", variant="untracked",
        types={"self.matcher.csvpath.csvpaths": "obj:CsvPaths"},
        raises={"DataException": {"when": "not (self.g_ref_name in self.matcher.csvpath.csvpaths.results_manager.g_vars)", "exact": True}},
        ensures={"final_value_whatever_it_is": "same(result, self.matcher.csvpath.csvpaths.results_manager.g_vars[self.g_ref_name])"},
        covers={"falsy_value_is_a_value": "result == 0", "none_is_a_value": "result is None"},
        class_fields=CF, macros=MACROS, returns="val", native=NATIVE,
        property_clauses={"final_value_whatever_it_is": "C20", "raises:DataException.only_when": "C20", "raises:DataException.must": "C20"},
        doc={"final_value_whatever_it_is": "C20: 'A variable reference $name.variables.v evaluates to the final value the named group's most recent run left in v'"}))
    cs.append(Contract(
        target=f"{RM}::ResultsManager.get_last_named_result", types={"name": "str", "before": "val"},
        ensures={"last_added_or_none": "(result is None) == (len(self.g_results) == 0)",
                 "is_the_last": "implies(len(self.g_results) > 0, same(result, self.g_results[len(self.g_results) - 1]))"},
        class_fields=CF, macros=MACROS, returns="val", native={"patches": NATIVE["patches"], "skip": True},
        property_clauses={"last_added_or_none": "C20", "is_the_last": "C20"},
        doc={"is_the_last": "C20: 'a member with source-mode: preceding reads exactly the lines its predecessor collected'"}))
    return cs + managers.interfaces() + load_contracts()


CPS = "csvpath/csvpaths.py"
CF["CsvPath"].update({"g_identity": "str", "g_preceding": "bool", "g_last_parsed": "str", "g_parse_calls": "int", "metadata": "dict[str,val]"})
CF["Result"] = {**CF.get("Result", {}), "g_data_file_path": "str", "g_len": "int"}
CF["ResultsManager"].update({"g_pred": "obj:Result"})


def load_contracts():
    cs = []

    def iface(target, types, ensures=None, modifies=None, returns="none", raises=None, why="", variant=""):
        cs.append(Contract(target=target, interface=True, variant=variant, types=types, ensures=ensures or {}, modifies=modifies or [], returns=returns, raises=raises or {},
                           class_fields=CF, assumptions=[why]))
    iface("csvpath/util/metadata_parser.py::MetadataParser.extract_metadata", {"instance": "val", "csvpath": "str"}, returns="str",
          ensures={"strips_the_outer_comment": "result == ufun_str('without_outer_comment', csvpath)"}, why="MetadataParser.extract_metadata returns the csvpath without its outer comment (C15)")
    iface("csvpath/csvpath.py::CsvPath.identity", {}, returns="str", ensures={"id": "result == self.g_identity"}, why="CsvPath.identity is the id/name metadata field (C12)")
    iface("csvpath/csvpath.py::CsvPath.update_settings_from_metadata", {}, why="update_settings_from_metadata reads the mode settings (C15); g_preceding is its source-mode result")
    iface("csvpath/csvpath.py::CsvPath.data_from_preceding", {}, returns="bool", ensures={"mode": "result == self.g_preceding"}, why="CsvPath.data_from_preceding is source-mode == preceding (C15)")
    iface(f"{RM}::ResultsManager.data_file_for_reference", {"refstr": "val", "not_name": "val"}, returns="str",
          ensures={"ref": "result == ufun_str('data_file_for_reference', refstr)"}, why="data_file_for_reference resolves a results reference to a member's data.csv (bounded, C20.B)")
    iface(f"{RM}::ResultsManager.get_last_named_result", {"name": "val", "before": "val"}, returns="expr:self.g_pred", variant="found",
          ensures={"the_predecessor": "result is self.g_pred"}, why="get_last_named_result returns the predecessor's Result (own contract: get_last_named_result)")
    iface(f"{RM}::ResultsManager.get_last_named_result", {"name": "val", "before": "val"}, returns="none", variant="none_found",
          why="get_last_named_result returns None when no earlier member has a result")
    iface("csvpath/managers/results/result.py::Result.__len__", {}, returns="int", ensures={"n": "result == self.g_len and result >= 0"},
          why="len(result) is the number of lines the member collected (0 for an empty result, which makes the object falsy)")
    iface("csvpath/managers/results/result.py::Result.data_file_path", {}, returns="str", ensures={"p": "result == self.g_data_file_path"},
          why="Result.data_file_path is <instance dir>/data.csv (C09)")
    iface("csvpath/csvpath.py::CsvPath.parse", {"csvpath": "str", "disposably": "val"}, modifies=["self.g_last_parsed", "self.g_parse_calls"], returns="val",
          ensures={"parsed": "self.g_last_parsed == csvpath and self.g_parse_calls == old(self.g_parse_calls) + 1"}, raises={"Exception": {"when": "True", "exact": False}},
          why="CsvPath.parse(text) parses text (C17); the text handed to it is logged in g_last_parsed / g_parse_calls")
    HAS_BRACKET = "'[' in ufun_str('without_outer_comment', path)"
    match_part = "ufun_str('without_outer_comment', path)[ufun_str('without_outer_comment', path).find('['):]"
    types = {"csvpath": "obj:CsvPath", "path": "str", "file": "str", "pathsname": "str", "filename": "str", "by_line": "bool", "self.results_manager": "obj:ResultsManager",
             "csvpath.metadata": "dict[str,val]", "csvpath.g_last_parsed": "str", "csvpath.g_parse_calls": "int", "csvpath.delimiter": "str", "csvpath.quotechar": "str"}
    common = dict(class_fields=CF, macros=MACROS, returns="none", native={"skip": True}, stub_new=["MetadataParser"], inline=["CsvPaths._read_as_saved"])
    AS_SAVED = "csvpath.delimiter == ',' and csvpath.quotechar == '\"'"
    cs.append(Contract(
        target=f"{CPS}::CsvPaths._load_csvpath", variant="preceding_with_a_predecessor", types=types,
        requires=["csvpath.g_preceding", "not filename.startswith('$')", "not pathsname.startswith('$')", HAS_BRACKET],
        modifies=["csvpath.g_last_parsed", "csvpath.g_parse_calls", "csvpath.metadata", "csvpath.delimiter", "csvpath.quotechar"],
        raises={"CsvPathsException": {"when": "by_line", "exact": True}, "Exception": {"when": "True", "exact": False}},
        ensures={"reads_it_in_the_dialect_data_csv_is_written_in": AS_SAVED,
                 "reads_the_predecessors_data_file": "csvpath.g_parse_calls >= old(csvpath.g_parse_calls) + 1 and "
                                                     "csvpath.g_last_parsed == '$' + self.results_manager.g_pred.g_data_file_path + %s" % match_part,
                 "says_so_in_the_metadata": "'source-mode-source' in csvpath.metadata and same(csvpath.metadata['source-mode-source'], self.results_manager.g_pred.g_data_file_path)"},
        covers={"an_empty_predecessor_is_still_the_predecessor": "self.results_manager.g_pred.g_len == 0 and csvpath.g_parse_calls == old(csvpath.g_parse_calls) + 1"},
        callee_variants={"ResultsManager.get_last_named_result": "found"},
        property_clauses={"reads_the_predecessors_data_file": "C20", "says_so_in_the_metadata": "C20", "raises:CsvPathsException.must": "C20",
                          "reads_it_in_the_dialect_data_csv_is_written_in": "C20"},
        doc={"reads_the_predecessors_data_file": "C20: 'a member with source-mode: preceding reads exactly the lines its predecessor collected'"}, **common))
    cs.append(Contract(
        target=f"{CPS}::CsvPaths._load_csvpath", variant="origin_mode", types=types,
        requires=["not csvpath.g_preceding", "not filename.startswith('$')", HAS_BRACKET],
        modifies=["csvpath.g_last_parsed", "csvpath.g_parse_calls", "csvpath.metadata"], raises={"Exception": {"when": "True", "exact": False}},
        ensures={"reads_the_named_file": "csvpath.g_parse_calls >= old(csvpath.g_parse_calls) + 1 and csvpath.g_last_parsed == '$' + file + %s" % match_part,
                 "metadata_does_not_claim_a_predecessor": "('source-mode-source' in csvpath.metadata) == ('source-mode-source' in old(csvpath.metadata))",
                 "reads_it_in_its_own_dialect": "csvpath.delimiter == old(csvpath.delimiter) and csvpath.quotechar == old(csvpath.quotechar)"},
        callee_variants={"ResultsManager.get_last_named_result": "found"},
        property_clauses={"reads_the_named_file": "C20", "metadata_does_not_claim_a_predecessor": "C20", "reads_it_in_its_own_dialect": "C20"}, **common))
    cs.append(Contract(
        target=f"{CPS}::CsvPaths._load_csvpath", variant="results_reference_as_file", types=types,
        requires=["not csvpath.g_preceding", "filename.startswith('$')", HAS_BRACKET],
        modifies=["csvpath.g_last_parsed", "csvpath.g_parse_calls", "csvpath.metadata", "csvpath.delimiter", "csvpath.quotechar"], raises={"Exception": {"when": "True", "exact": False}},
        ensures={"reads_the_referenced_members_data_file": "csvpath.g_last_parsed == '$' + ufun_str('data_file_for_reference', filename) + %s" % match_part,
                 "reads_it_in_the_dialect_data_csv_is_written_in": AS_SAVED},
        callee_variants={"ResultsManager.get_last_named_result": "found"},
        property_clauses={"reads_the_referenced_members_data_file": "C20", "reads_it_in_the_dialect_data_csv_is_written_in": "C20"}, **common))
    # ---- the data file a member leaves for its successor: <its instance directory>/data.csv
    cs.append(Contract(target="csvpath/managers/results/result.py::Result.instance_dir", interface=True, variant="as_a_ghost", types={}, ensures={}, returns="expr:self.g_instance_dir",
                       class_fields={**CF, "Result": {**CF.get("Result", {}), "g_instance_dir": "str"}},
                       assumptions=["Result.instance_dir is <run dir>/<identity or index> (get_instance_dir: own contract in C09)"]))
    cs.append(Contract(
        target="csvpath/managers/results/result.py::Result.data_file_path", variant="body", types={},
        ensures={"data_csv_in_the_members_own_instance_directory": "result == path_join(self.g_instance_dir, 'data.csv')"},
        callee_variants={"Result.instance_dir": "as_a_ghost"},
        class_fields={**CF, "Result": {**CF.get("Result", {}), "g_instance_dir": "str"}}, macros=MACROS, returns="str", native={"skip": True},
        property_clauses={"data_csv_in_the_members_own_instance_directory": "C20,C09"},
        doc={"data_csv_in_the_members_own_instance_directory": "C20: 'reads exactly the lines its predecessor collected (its data.csv)'"}))
    # ---- which run directory a results reference names
    for fn, last in (("_find_last", "True"), ("_find_first", "False")):
        cs.append(Contract(target=f"{RM}::ResultsManager.{fn}", interface=True, types={"filename": "str", "instance": "str"},
                           ensures={"resolved_now": f"same(result, ufun_val('run_dir_for_prefix', filename, instance, {last}))"}, returns="optstr", class_fields=CF,
                           assumptions=[f"ResultsManager.{fn}(dir, prefix) is the {'latest' if last == 'True' else 'earliest'} run directory of dir whose name starts with prefix, "
                                        "looked up in the directory as it is at the time of the call (os.listdir + _find_in_dir_names: C10, bounded)"]))
    colon = "instance.find(':')"
    cs.append(Contract(
        target=f"{RM}::ResultsManager._find_instance", types={"filename": "str", "instance": "str"},
        raises={"InputException": {"when": f"{colon} != -1 and (not fs_exists(filename) or (instance[{colon}:] != ':last' and instance[{colon}:] != ':first'))", "exact": True}},
        ensures={"an_exact_run_directory_name_is_returned_as_it_is": f"implies({colon} == -1, result == instance)",
                 "last_is_resolved_in_that_directory_at_the_time_of_the_call": f"implies({colon} != -1 and instance[{colon}:] == ':last', "
                                                                               f"same(result, ufun_val('run_dir_for_prefix', filename, instance[0:{colon}], True)))",
                 "first_is_resolved_in_that_directory_at_the_time_of_the_call": f"implies({colon} != -1 and instance[{colon}:] == ':first', "
                                                                                f"same(result, ufun_val('run_dir_for_prefix', filename, instance[0:{colon}], False)))"},
        covers={"exact": "result == '2031-05-17_10-00-10'", "last": "instance == '2031:last'"},
        class_fields=CF, macros=MACROS, returns="optstr", native={"skip": True},
        property_clauses={"an_exact_run_directory_name_is_returned_as_it_is": "C20", "last_is_resolved_in_that_directory_at_the_time_of_the_call": "C20,C10",
                          "first_is_resolved_in_that_directory_at_the_time_of_the_call": "C20,C10"},
        doc={"an_exact_run_directory_name_is_returned_as_it_is": "C20: 'a results reference used as a file name replays exactly the referenced member's data.csv' -- the caller joins the "
                                                                 "returned name onto archive/<group>; returning a joined path doubles it under a relative archive path (fix 2b87a91)"}))
    # ---- the data file a results reference names (exact run directory name)
    cf2 = {**CF, "ReferenceParser": {"_root_major": "str", "_datatype": "str", "g_name_one": "str", "g_name_three": "str"}, "Config": {**CF.get("Config", {}), "_archive_path": "str"},
           "CsvPaths": {**CF.get("CsvPaths", {}), "_config": "obj:Config"}}
    cs.append(Contract(target="csvpath/util/reference_parser.py::ReferenceParser.__init__", interface=True, variant="parsed", types={"string": "str"},
                       modifies=["self._root_major", "self._datatype", "self.g_name_one", "self.g_name_three"],
                       ensures={"root": "self._root_major == ufun_str('ref_root', string)", "datatype": "self._datatype == ufun_str('ref_datatype', string)",
                                "names": "self.g_name_one == ufun_str('ref_name_one', string) and self.g_name_three == ufun_str('ref_name_three', string)"},
                       returns="none", class_fields=cf2,
                       assumptions=["ReferenceParser(text) splits $root.datatype.name_one.name_two.name_three (functions of the text: ufun ref_*; the parser itself is not under contract) "
                                    "-- data_file_for_reference is only called with a reference that has three names"]))
    for prop, g in (("name_one", "g_name_one"), ("name_three", "g_name_three")):
        cs.append(Contract(target=f"csvpath/util/reference_parser.py::ReferenceParser.{prop}", interface=True, types={}, ensures={}, returns=f"expr:self.{g}", class_fields=cf2,
                           assumptions=[f"ReferenceParser.{prop} is the corresponding dot-separated name of the reference text (abstract view {g}; scalar ghosts instead of the names list)"]))
    base, R, N1, N3 = "self._csvpaths._config._archive_path", "ufun_str('ref_root', refstr)", "ufun_str('ref_name_one', refstr)", "ufun_str('ref_name_three', refstr)"
    run_dir = f"path_join(path_join({base}, {R}), {N1})"
    cs.append(Contract(
        target=f"{RM}::ResultsManager.data_file_for_reference", variant="exact_run_directory",
        types={"refstr": "str", "self._csvpaths": "obj:CsvPaths", "self._csvpaths._config": "obj:Config", "self._csvpaths._config._archive_path": "str"},
        requires=[f"{N1}.find(':') == -1"],
        raises={"InputException": {"when": f"ufun_str('ref_datatype', refstr) != 'results' or not fs_exists(path_join({base}, {R})) or not fs_exists({run_dir}) or "
                                           f"not fs_exists(path_join({run_dir}, {N3})) or not fs_exists(path_join(path_join({run_dir}, {N3}), 'data.csv'))", "exact": True}},
        ensures={"names_data_csv_of_that_member_in_that_run_of_that_group": f"result == path_join(path_join({run_dir}, {N3}), 'data.csv')"},
        callee_variants={"ReferenceParser.__init__": "parsed"},
        inline=["CsvPaths.config", "Config.archive_path", "ReferenceParser.root_major", "ReferenceParser.datatype", "ResultsManager.csvpaths"],
        class_fields=cf2, macros=MACROS, returns="str", native={"skip": True},
        property_clauses={"names_data_csv_of_that_member_in_that_run_of_that_group": "C20", "raises:InputException.must": "C20", "raises:InputException.only_when": "C20"},
        doc={"names_data_csv_of_that_member_in_that_run_of_that_group": "C20: 'a results reference used as a file name replays exactly the referenced member's data.csv': "
                                                                        "$group.results.<run directory>.<member> is <archive>/<group>/<run directory>/<member>/data.csv"}))
    return cs


def bounded(tier, seed):
    return [{"name": "C20.bounded", "script": "native/bounded_C20.py",
             "scope": "A: chains of 2-3 filters out of 5 (every third permutation in quick, all in thorough) x source-mode preceding from every suffix x 3 files, "
                      "collect_paths, plus every 4th chain over a semicolon-delimited file read by CsvPaths(delimiter=';'); B: variable references to falsy / string / "
                      "tracked final values and header references (plain, padded and empty cells) after 1-3 producer runs, results reference as file name by "
                      ":last, :first and exact run directory name"}]


LEVEL = "other"
EXPLANATION = ("Proved: Reference._variable_value returns the stored final value whatever it is (0, False, '' included) and raises exactly when the variable is "
               "unknown; get_last_named_result returns the last added result. Bounded: source-mode preceding chains and references on the real CsvPaths. "
               "Proved too: CsvPaths._load_csvpath hands CsvPath.parse exactly '$' + <the predecessor's data.csv> + <match part> in source-mode preceding (and says so in the metadata), "
               "'$' + <named file> otherwise, '$' + <referenced member's data.csv> for a results reference; breadth-first + preceding raises; a data.csv is read in the "
               "dialect it is written in; ResultsManager._find_instance returns an exact run directory name unchanged and resolves :last/:first in the given "
               "directory at the time of the call.")
