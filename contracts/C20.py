"""C20 -- data and values flow between csvpaths as declared."""
from pyvc.contract import Contract
from . import core, shared, managers
from .core import CF, MACROS
USES = ["shared"]

REF = "csvpath/matching/productions/reference.py"
RM = "csvpath/managers/results/results_manager.py"

CF["Reference"].update({"g_ref_name": "str", "g_ref_paths_name": "str"})
CF["ResultsManager"].update({"g_vars": "dict[str,val]"})
CF["CsvPaths"].update({"results_manager": "obj:ResultsManager"})

NATIVE = {"patches": {
    "csvpath.matching.productions.reference.Reference._get_reference":
        "def patch(self):\n    return {'name': self.g_ref_name, 'tracking': None, 'paths_name': self.g_ref_paths_name, 'data_type': 'variables'}\n",
    "csvpath.managers.results.results_manager.ResultsManager.get_variables": "def patch(self, name):\n    return self.g_vars\n",
    "csvpath.managers.results.results_manager.ResultsManager.get_named_results": "def patch(self, name):\n    return self.g_results\n"}}


def contracts():
    cs = []
    cs.append(Contract(
        target=f"{REF}::Reference._get_reference", interface=True, types={},
        ensures={"name": "result['name'] == self.g_ref_name", "paths": "result['paths_name'] == self.g_ref_paths_name"},
        returns="rec[name:str,tracking:none,paths_name:str,data_type:str]", class_fields=CF,
        assumptions=["Reference._get_reference splits '$paths.variables.name' into its parts (ReferenceParser; string slicing) -- untracked-variable variant"]))
    cs.append(Contract(
        target=f"{RM}::ResultsManager.get_variables", interface=True, types={"name": "str"},
        ensures={"merged": "same(result, self.g_vars)"}, returns="dict[str,val]", class_fields=CF,
        assumptions=["ResultsManager.get_variables(name) is the merge of the variables of the group's most recent results"]))
    cs.append(Contract(
        target=f"{REF}::Reference._variable_value", variant="untracked",
        types={"self.matcher.csvpath.csvpaths": "obj:CsvPaths"},
        raises={"DataException": {"when": "not (self.g_ref_name in self.matcher.csvpath.csvpaths.results_manager.g_vars)", "exact": True}},
        ensures={"final_value_whatever_it_is": "same(result, self.matcher.csvpath.csvpaths.results_manager.g_vars[self.g_ref_name])"},
        covers={"falsy_value_is_a_value": "result == 0", "none_is_a_value": "result is None"},
        class_fields=CF, macros=MACROS, returns="val", native=NATIVE,
        property_clauses={"final_value_whatever_it_is": "C20", "raises:DataException.only_when": "C20", "raises:DataException.must": "C20"},
        doc={"final_value_whatever_it_is": "C20: 'A variable reference $name.variables.v evaluates to the final value the named group's most recent run left in v'"}))
    cs.append(Contract(
        target=f"{RM}::ResultsManager.get_last_named_result", types={"name": "str", "before": "val"},
        ensures={"last_added_or_none": "(result is None) == (len(self.g_results) == 0)",
                 "is_the_last": "implies(len(self.g_results) > 0, same(result, self.g_results[len(self.g_results) - 1]))"},
        class_fields=CF, macros=MACROS, returns="val", native={"patches": NATIVE["patches"], "skip": True},
        property_clauses={"last_added_or_none": "C20", "is_the_last": "C20"},
        doc={"is_the_last": "C20: 'a member with source-mode: preceding reads exactly the lines its predecessor collected'"}))
    return cs + managers.interfaces()


def bounded(tier, seed):
    return [{"name": "C20.bounded", "script": "native/bounded_C20.py",
             "scope": "A: chains of 2-3 filters out of 5 (every third permutation in quick, all in thorough) x source-mode preceding from every suffix x 3 files, "
                      "collect_paths; B: variable references to falsy / string / tracked final values after 1-3 producer runs, results reference as file name"}]


LEVEL = "other"
EXPLANATION = ("Proved: Reference._variable_value returns the stored final value whatever it is (0, False, '' included) and raises exactly when the variable is "
               "unknown; get_last_named_result returns the last added result. Bounded: source-mode preceding chains and references on the real CsvPaths. "
               "_load_csvpath's source-mode branch is covered only by the bounded chains.")
