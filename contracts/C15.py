"""C15 -- comment mode settings take effect; matched and unmatched partition the file."""
from pyvc.contract import Contract
from . import core, shared
from .core import CF, MACROS
USES = ["shared"]

MODES = "csvpath/modes"
CF["ModeController"].update({"g_meta": "dict[str,val]"})
for _cls in ("ReturnMode", "RunMode", "LogicMode", "UnmatchedMode", "SourceMode", "ExplainMode", "PrintMode"):
    CF.setdefault(_cls, {}).setdefault("controller", "obj:ModeController")

P_GET = "def patch(self, mode):\n    return self.g_meta.get(mode)\n"
NATIVE = {"patches": {"csvpath.modes.mode_controller.ModeController.get": P_GET}}


def mode_contracts():
    cs = []
    cs.append(Contract(
        target=f"{MODES}/mode_controller.py::ModeController.get", interface=True, types={"mode": "str"},
        ensures={"reads_metadata": "same(result, self.g_meta.get(mode))"}, returns="optstr", class_fields=CF,
        assumptions=["ModeController.get(mode) returns csvpath.metadata.get(mode) for the ten known mode names (abstract view g_meta)"]))
    base = dict(class_fields=CF, macros=MACROS, native=NATIVE)
    M = "self.controller.g_meta.get"
    cs.append(Contract(
        target=f"{MODES}/return_mode.py::ReturnMode.value", types={"self._return_mode": "none"},
        requires=[f"tag({M}('return-mode'), 'none') or tag({M}('return-mode'), 'str')"],
        modifies=["self._return_mode"],
        raises={"InputException": {"when": f"{M}('return-mode') is not None and strip({M}('return-mode')) != 'matches' and strip({M}('return-mode')) != 'no-matches'", "exact": True}},
        ensures={"documented_values": f"result == ({M}('return-mode') is not None and strip({M}('return-mode')) == 'no-matches')"},
        covers={"no_matches": "result == True", "default": f"result == False and {M}('return-mode') is None"},
        returns="bool", property_clauses={"documented_values": "C15"},
        doc={"documented_values": "docs/comments.md: return-mode 'no-matches' returns the lines that do not match; 'matches' (default) those that do"}, **base))
    cs.append(Contract(
        target=f"{MODES}/run_mode.py::RunMode.value", types={"self._run_mode": "none"},
        requires=[f"tag({M}('run-mode'), 'none') or tag({M}('run-mode'), 'str')"],
        modifies=["self._run_mode"],
        raises={"InputException": {"when": f"{M}('run-mode') is not None and strip({M}('run-mode')) != 'run' and strip({M}('run-mode')) != 'no-run'", "exact": True}},
        ensures={"documented_values": f"result == (not ({M}('run-mode') is not None and strip({M}('run-mode')) == 'no-run'))"},
        covers={"no_run": "result == False"},
        returns="bool", property_clauses={"documented_values": "C15"},
        doc={"documented_values": "docs/comments.md: run-mode 'no-run' disables the csvpath; 'run' is the default"}, **base))
    cs.append(Contract(
        target=f"{MODES}/unmatched_mode.py::UnmatchedMode.value", types={"self._unmatched_mode": "none"},
        requires=[f"tag({M}('unmatched-mode'), 'none') or tag({M}('unmatched-mode'), 'str')"],
        modifies=["self._unmatched_mode"],
        ensures={"documented_values": f"result == ({M}('unmatched-mode') is not None and not ('no-keep' in {M}('unmatched-mode')))"},
        covers={"keep": f"result == True and {M}('unmatched-mode') == 'keep'"},
        returns="bool", property_clauses={"documented_values": "C15"},
        doc={"documented_values": "docs/comments.md: unmatched-mode 'keep' keeps the unmatched lines; default and 'no-keep' do not"}, **base))
    cs.append(Contract(
        target=f"{MODES}/source_mode.py::SourceMode.value", types={"self._source_mode": "none"},
        requires=[f"tag({M}('source-mode'), 'none') or tag({M}('source-mode'), 'str')"],
        modifies=["self._source_mode"],
        ensures={"documented_values": f"result == ({M}('source-mode') is not None and {M}('source-mode') == 'preceding')"},
        returns="bool", property_clauses={"documented_values": "C15,C20"},
        doc={"documented_values": "docs: source-mode 'preceding' makes the csvpath read its predecessor's data"}, **base))
    PR = "self.controller.csvpath.printers"
    pm = f"strip(str_of({M}('print-mode')))"
    so = lambda x: f"isinstance({x}, StdOutPrinter)"
    n0 = f"len(old({PR}))"
    cs.append(Contract(
        target=f"{MODES}/print_mode.py::PrintMode.update_printers",
        requires=[f"tag({M}('print-mode'), 'none') or tag({M}('print-mode'), 'str')"],
        modifies=[PR],
        raises={"InputException": {"when": f"{pm} != 'no-default' and {pm} != 'default'", "exact": True}},
        ensures={
            "no_default_removes_the_first_standard_out_printer_and_nothing_else":
                f"implies({pm} == 'no-default', "
                f"(forall_int(0, {n0}, lambda j: not {so(f'old({PR})[j]')}) and {PR} == old({PR})) or "
                f"exists_int(0, {n0}, lambda k: {so(f'old({PR})[k]')} and forall_int(0, k, lambda j: not {so(f'old({PR})[j]')}) and "
                f"{PR} == old({PR})[0:k] + old({PR})[k + 1:]))",
            "default_keeps_the_list_when_it_has_a_standard_out_printer":
                f"implies({pm} == 'default' and exists_int(0, {n0}, lambda k: {so(f'old({PR})[k]')}), {PR} == old({PR}))",
            "default_appends_one_standard_out_printer_when_there_is_none":
                f"implies({pm} == 'default' and forall_int(0, {n0}, lambda j: not {so(f'old({PR})[j]')}), "
                f"len({PR}) == {n0} + 1 and {PR}[0:{n0}] == old({PR}) and {so(f'{PR}[{n0}]')})"},
        invariants={0: [f"remove == -1", f"forall_int(0, _i0, lambda j: not {so(f'{PR}[j]')})", f"{PR} == old({PR})"],
                    1: [f"done == False", f"forall_int(0, _i1, lambda j: not {so(f'{PR}[j]')})", f"{PR} == old({PR})"]},
        covers={"removes_one": f"len({PR}) == {n0} - 1", "adds_one": f"len({PR}) == {n0} + 1",
                "no_default_without_a_standard_out_printer": f"{pm} == 'no-default' and {n0} > 0 and {PR} == old({PR})"},
        types={PR: "list[val]"},
        returns="none", property_clauses={"no_default_removes_the_first_standard_out_printer_and_nothing_else": "C15",
                                          "default_keeps_the_list_when_it_has_a_standard_out_printer": "C15",
                                          "default_appends_one_standard_out_printer_when_there_is_none": "C15"},
        doc={"no_default_removes_the_first_standard_out_printer_and_nothing_else": "C15: 'print-mode no-default removes standard-out printing only'"},
        inline=["StdOutPrinter.__init__"],
        class_fields=CF, macros=MACROS,
        native={"patches": NATIVE["patches"], "spec_names": {"StdOutPrinter": "csvpath.util.printer.StdOutPrinter", "TestPrinter": "csvpath.util.printer.TestPrinter"},
                "examples": [{"self.controller.g_meta": {"print-mode": mode}, PR: [{"new": k} for k in kinds]}
                             for mode in ("no-default", "default", " no-default ")
                             for kinds in ([], ["StdOutPrinter"], ["TestPrinter"], ["TestPrinter", "StdOutPrinter"], ["StdOutPrinter", "TestPrinter", "StdOutPrinter"],
                                           ["TestPrinter", "TestPrinter"], ["TestPrinter", "StdOutPrinter", "TestPrinter"])]}))
    return cs


def contracts():
    return core.select(core.contracts(), ("CsvPath._consider_line", "CsvPath.next")) + mode_contracts()


LEVEL = "other"
EXPLANATION = ("The inversion and partition clauses are postconditions of the real _consider_line and next (proved, unbounded); mode getters are "
               "proved against the documented strings; PrintMode.update_printers is proved to remove exactly the first standard-out printer under "
               "no-default and to leave every other printer in place (two loops with invariants, isinstance as an uninterpreted predicate of the "
               "printer's identity); the comment scanner (character state machine) is checked natively over a stated finite scope (bounded, not "
               "counted as proved).")


def bounded(tier, seed):
    return [{"name": "C15.bounded", "script": "native/bounded_C15.py",
             "scope": "A: comments of <=2 'key: value' fields over 4 keys x 4 values x 3 free texts x 3 csvpath bodies; "
                      "B: all printer lists of length <=4 over {StdOutPrinter, TestPrinter} x {default, no-default}; "
                      "C: 4 files (<=5 records, blanks) x 3 scans x 5 match parts x {default, no-matches, no-run, unmatched keep}"}]
