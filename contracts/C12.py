"""C12 -- named-paths groups round-trip and select by identity."""
from pyvc.contract import Contract
from . import core, shared
from .core import CF, MACROS
USES = ["shared"]

PM = "csvpath/managers/paths/paths_manager.py"
PR = "csvpath/managers/paths/paths_registrar.py"
CP = "csvpath/csvpath.py"

CF["IdPath"].update({"t0": "optstr", "t1": "str"})
CF["PathsManager"].update({"g_idpaths": "objlist[IdPath]"})
CF["PathsManifestEntry"].update({"fingerprint": "optstr"})
CF["PathsRegistrar"].update({"g_manifest": "objlist[PathsManifestEntry]"})
CF["PathsMetadata"].update({"manifest_path": "str", "fingerprint": "optstr", "archive_name": "optstr", "named_paths_name": "optstr", "named_paths_home": "optstr",
                             "group_file_path": "optstr", "named_paths": "val", "named_paths_identities": "val", "named_paths_count": "optint", "time_string": "optstr",
                             "time_started": "none", "time_completed": "none", "uuid_string": "optstr"})
P_IDPATHS = "def patch(self, nps, paths=None):\n    return [(r.t0, r.t1) for r in self.g_idpaths]\n"
NATIVE = {"patches": {"csvpath.managers.paths.paths_manager.PathsManager.get_identified_paths_in": P_IDPATHS}, "int_window": [0, 7]}

n = "len(self.g_idpaths)"
first = "forall_int(0, {k}, lambda j: not (self.g_idpaths[j].t0 == identity))"


def contracts():
    cs = []
    cs.append(Contract(target=f"{PM}::PathsManager.get_identified_paths_in", interface=True, types={"nps": "val", "paths": "val"}, ensures={},
                       returns="expr:self.g_idpaths", class_fields=CF,
                       assumptions=["get_identified_paths_in(name) is the group's members in stored order, each paired with the identity its outer comment gives it "
                                    "(its body is under contract below, variant given_paths: one fresh CsvPath per member; MetadataParser: bounded in C15; CsvPath.identity: own contract)"]))
    # ---- get_identified_paths_in itself (the [A] interface above is what its callers see; this is its body)
    CF["CsvPath"].update({"g_pristine": "bool", "g_id_text": "optstr"})
    cs.append(Contract(target=f"{CP}::CsvPath.__init__", interface=True, variant="bare", types={}, modifies=["self.g_pristine"],
                       ensures={"pristine": "self.g_pristine == True"}, returns="none", class_fields=CF,
                       assumptions=["CsvPath() starts with empty metadata (no identity)"]))
    cs.append(Contract(target="csvpath/util/metadata_parser.py::MetadataParser.extract_metadata", interface=True, variant="names_the_instance",
                       types={"instance": "obj:CsvPath", "csvpath": "str"}, requires=["instance.g_pristine"],
                       modifies=["instance.g_pristine", "instance.g_id_text"],
                       ensures={"used": "instance.g_pristine == False", "identity_from_this_text_only": "same(instance.g_id_text, ufun_val('identity_in', csvpath))"},
                       returns="str", class_fields=CF,
                       assumptions=["MetadataParser.extract_metadata(instance, text) on an instance with EMPTY metadata leaves it with the identity text's own outer comment gives "
                                    "(a function of the text alone: ufun identity_in); on a used instance fields of earlier texts would remain, hence the requires (MetadataParser: bounded in C15)"]))
    cs.append(Contract(target=f"{CP}::CsvPath.identity", interface=True, variant="as_a_ghost", types={}, ensures={}, returns="expr:self.g_id_text", class_fields=CF,
                       assumptions=["CsvPath.identity reads the id/name metadata field (own contract: CsvPath.identity, precedence id>Id>ID>name>Name>NAME)"]))
    cs.append(Contract(
        target=f"{PM}::PathsManager.get_identified_paths_in", variant="given_paths", types={"nps": "str", "paths": "list[str]"},
        list_literals={"idps": "objlist[IdPath]"}, stub_new=["MetadataParser"],
        callee_variants={"CsvPath.__init__": "bare", "MetadataParser.extract_metadata": "names_the_instance", "CsvPath.identity": "as_a_ghost"},
        ensures={"one_pair_per_member_in_stored_order": "len(result) == len(paths) and forall_int(0, len(paths), lambda k: result[k].t1 == paths[k])",
                 "each_paired_with_the_identity_its_own_comment_gives_it": "forall_int(0, len(paths), lambda k: same(result[k].t0, ufun_val('identity_in', paths[k])))"},
        invariants={0: ["len(idps) == _i0", "forall_int(0, _i0, lambda j: idps[j].t1 == paths[j])",
                        "forall_int(0, _i0, lambda j: same(idps[j].t0, ufun_val('identity_in', paths[j])))"]},
        # (c is made inside the loop; naming its ghost fields here means that a version which makes it once, before the loop, is havocked at the loop head
        #  and fails the requires of extract_metadata instead of leaving the subset)
        loop_havoc={0: ["idps", "c.g_pristine", "c.g_id_text"]},
        class_fields=CF, macros=MACROS, returns="objlist[IdPath]", native={"skip": True},
        property_clauses={"one_pair_per_member_in_stored_order": "C12", "each_paired_with_the_identity_its_own_comment_gives_it": "C12"},
        doc={"each_paired_with_the_identity_its_own_comment_gives_it": "C12: ''name#id' and '$name.csvpaths.id' return exactly the member with that identity' -- a member's identity comes from its own comment, never from a neighbour's"}))
    cs.append(Contract(
        target=f"{PM}::PathsManager._find_one", types={"npn": "str", "identity": "str"},
        raises={"InputException": {"when": "forall_int(0, %s, lambda j: not (self.g_idpaths[j].t0 == identity))" % n, "exact": True}},
        ensures={"exactly_the_member_with_that_identity": "exists_int(0, %s, lambda k: self.g_idpaths[k].t0 == identity and result == self.g_idpaths[k].t1 and "
                                                          "forall_int(0, k, lambda j: not (self.g_idpaths[j].t0 == identity)))" % n},
        invariants={0: ["forall_int(0, _i0, lambda j: not (self.g_idpaths[j].t0 == identity))"]},
        class_fields=CF, macros=MACROS, returns="str", native=NATIVE,
        property_clauses={"exactly_the_member_with_that_identity": "C12", "raises:InputException.must": "C12", "raises:InputException.only_when": "C12"},
        doc={"exactly_the_member_with_that_identity": "C12: ''name#id' and '$name.csvpaths.id' return exactly the member with that identity'"}))
    cs.append(Contract(
        target=f"{PM}::PathsManager._get_from", types={"npn": "str", "identity": "str"},
        list_literals={"ps": "alist[str]"},
        ensures={"suffix_starting_at_the_member": "forall_int(0, %s, lambda k: implies(self.g_idpaths[k].t0 == identity and forall_int(0, k, lambda j: not (self.g_idpaths[j].t0 == identity)), "
                                                  "len(result) == %s - k and forall_int(0, len(result), lambda a: result[a] == self.g_idpaths[k + a].t1)))" % (n, n),
                 "nothing_when_absent": "implies(forall_int(0, %s, lambda j: not (self.g_idpaths[j].t0 == identity)), len(result) == 0)" % n},
        invariants={0: ["(len(ps) == 0 and forall_int(0, _i0, lambda j: not (self.g_idpaths[j].t0 == identity))) or "
                        "exists_int(0, _i0, lambda k: self.g_idpaths[k].t0 == identity and forall_int(0, k, lambda j: not (self.g_idpaths[j].t0 == identity)) and "
                        "len(ps) == _i0 - k and forall_int(0, len(ps), lambda a: ps[a] == self.g_idpaths[k + a].t1))"]},
        loop_havoc={0: ["ps"]},
        class_fields=CF, macros=MACROS, returns="alist[str]", native=NATIVE,
        property_clauses={"suffix_starting_at_the_member": "C12", "nothing_when_absent": "C12"},
        doc={"suffix_starting_at_the_member": "C12: '':from'/':to' the suffix/prefix of the group starting/ending at it'"}))
    cs.append(Contract(
        target=f"{PM}::PathsManager._get_to", types={"npn": "str", "identity": "str"},
        list_literals={"ps": "alist[str]"},
        ensures={"prefix_ending_at_the_member": "forall_int(0, %s, lambda k: implies(self.g_idpaths[k].t0 == identity and forall_int(0, k, lambda j: not (self.g_idpaths[j].t0 == identity)), "
                                                "len(result) == k + 1 and forall_int(0, len(result), lambda a: result[a] == self.g_idpaths[a].t1)))" % n},
        invariants={0: ["len(ps) == _i0", "forall_int(0, _i0, lambda a: ps[a] == self.g_idpaths[a].t1)", "forall_int(0, _i0, lambda j: not (self.g_idpaths[j].t0 == identity))"]},
        loop_havoc={0: ["ps"]},
        class_fields=CF, macros=MACROS, returns="alist[str]", native=NATIVE,
        property_clauses={"prefix_ending_at_the_member": "C12"}))
    md = "self.metadata"
    cs.append(Contract(
        target=f"{CP}::CsvPath.identity", types={"self.metadata": "dict[str,val]"},
        ensures={"precedence_id_Id_ID_name_Name_NAME": f"same(result, ({md}['id'] if 'id' in {md} else ({md}['Id'] if 'Id' in {md} else ({md}['ID'] if 'ID' in {md} else "
                                                       f"({md}['name'] if 'name' in {md} else ({md}['Name'] if 'Name' in {md} else ({md}['NAME'] if 'NAME' in {md} else '')))))))"},
        covers={"id_beats_name": "'id' in self.metadata and 'name' in self.metadata and result == self.metadata['id']"},
        class_fields=CF, macros=MACROS, returns="val", native={"skip": True},
        property_clauses={"precedence_id_Id_ID_name_Name_NAME": "C12,C09"},
        doc={"precedence_id_Id_ID_name_Name_NAME": "C12 anchor: 'CsvPath.identity precedence id>Id>ID>name>Name>NAME'"}))
    # PathsRegistrar.metadata_update: one manifest entry per change of content, none for an identical re-add
    last = "self.g_manifest[len(self.g_manifest) - 1]"
    changed = f"(len(self.g_manifest) == 0 or not ({last}.fingerprint == mdata.fingerprint))"
    for prop in ("time_string", "uuid_string", "time_started_string", "time_completed_string"):
        cs.append(Contract(target=f"csvpath/managers/metadata.py::Metadata.{prop}", interface=True, types={}, ensures={}, returns="optstr", class_fields=CF,
                           assumptions=["Metadata.*_string render timestamps/uuid for the manifest and have no other effect"]))
    for prop in ("time_started", "time_completed"):
        cs.append(Contract(target=f"csvpath/managers/metadata.py::Metadata.{prop}", interface=True, types={}, ensures={}, returns="val", class_fields=CF))
    cs.append(Contract(target=f"{PR}::PathsRegistrar.get_manifest", interface=True, types={"mpath": "str"}, ensures={}, returns="expr:self.g_manifest", class_fields=CF,
                       assumptions=["get_manifest returns the group's manifest entries, oldest first (json.load)"]))
    cs.append(Contract(
        target=f"{PR}::PathsRegistrar.metadata_update", types={"mdata": "obj:PathsMetadata"},
        modifies=["self.g_manifest"],
        ensures={"one_entry_per_change_none_for_identical_readd": f"effects_count('json.dump') == (1 if old({changed}) else 0)",
                 "entry_carries_the_fingerprint": f"implies(old({changed}), len(self.g_manifest) == old(len(self.g_manifest)) + 1 and "
                                                  f"{last}.fingerprint == mdata.fingerprint)"},
        covers={"back_to_older_content_is_a_change": "old(len(self.g_manifest)) == 2 and old(self.g_manifest[0].fingerprint) == mdata.fingerprint and effects_count('json.dump') == 1"},
        class_fields=CF, macros=MACROS, returns="none", native={"skip": True},
        property_clauses={"one_entry_per_change_none_for_identical_readd": "C12", "entry_carries_the_fingerprint": "C12"},
        doc={"one_entry_per_change_none_for_identical_readd": "C12: 'The group's manifest gains one entry, fingerprinting the stored group file, per change of content and none for an identical re-add'"}))
    return cs


LEVEL = "other"
EXPLANATION = ("Proved: _find_one / _get_from / _get_to select exactly the member, the suffix and the prefix by first matching identity (loops with invariants over "
               "an unbounded member list), get_identified_paths_in pairs every member, in stored order, with the identity of its OWN comment (a fresh CsvPath per member), "
               "CsvPath.identity's precedence, and PathsRegistrar.metadata_update writing one manifest entry per change of the LAST "
               "fingerprint. Bounded: add / re-add / replace / remove / new-instance sequences and round trips on the real PathsManager.")


def bounded(tier, seed):
    return [{"name": "C12.bounded", "script": "native/bounded_C12.py", "timeout": 3000,
             "scope": "all operation sequences of length <=2 and 500 seeded sequences of length 3 (thorough: all of length <=4) over {add one of 5 lists, remove, "
                      "new instance} x 2 group names; lists of 1-4 csvpaths out of 8 texts (outer/inner comments, newlines, id/Id/ID/name identities or none)"}]
