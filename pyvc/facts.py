"""Class and function facts read from /repo's current source text (ast only, never imported).

Every run re-parses the working tree.  For each class: module file, bases (resolved
through the module's imports), C3 MRO, methods (FunctionDef + decorator kinds), class-level
names, and the set of instance attributes assigned as ``self.X = ...`` anywhere in the
class body (the attribute-safety universe of DESIGN §2.3).
"""
from __future__ import annotations
import ast, hashlib, os
from dataclasses import dataclass, field

REPO = os.environ.get("VERIF_REPO", "/repo")
PKG = "csvpath"


@dataclass
class FuncUnit:
    file: str            # path relative to REPO
    qualname: str        # Class.method or function
    node: ast.FunctionDef
    source: str
    sha: str
    lineno: int
    end_lineno: int
    kind: str            # 'method' | 'property' | 'setter' | 'classmethod' | 'staticmethod' | 'function'
    cls: "ClassFacts|None" = None


@dataclass
class ClassFacts:
    name: str
    file: str
    node: ast.ClassDef
    base_names: list
    bases: list = field(default_factory=list)      # resolved ClassFacts
    methods: dict = field(default_factory=dict)     # name -> FuncUnit (getter for properties)
    setters: dict = field(default_factory=dict)     # name -> FuncUnit
    class_attrs: dict = field(default_factory=dict) # name -> ast value node
    inst_attrs: set = field(default_factory=set)
    mro: list = field(default_factory=list)

    @property
    def key(self):
        return f"{self.file}::{self.name}"


class Facts:
    def __init__(self, repo=REPO):
        self.repo = repo
        self.classes_by_key = {}
        self.classes_by_name = {}
        self.module_imports = {}   # file -> {localname: (module, name)}
        self.module_funcs = {}     # file -> {name: FuncUnit}
        self.module_src = {}
        self.module_tree = {}
        self._load()

    # ------------------------------------------------------------------
    def _load(self):
        root = os.path.join(self.repo, PKG)
        for dp, dn, fn in os.walk(root):
            dn.sort()
            for f in sorted(fn):
                if not f.endswith(".py"):
                    continue
                full = os.path.join(dp, f)
                rel = os.path.relpath(full, self.repo)
                try:
                    src = open(full, encoding="utf-8").read()
                    tree = ast.parse(src)
                except SyntaxError as e:   # the tree under test may be broken
                    raise RuntimeError(f"cannot parse {rel}: {e}")
                self.module_src[rel] = src
                self.module_tree[rel] = tree
                self._scan_module(rel, src, tree)
        for cf in self.classes_by_key.values():
            cf.bases = [b for b in (self._resolve_class(cf.file, n) for n in cf.base_names) if b]
        for cf in self.classes_by_key.values():
            cf.mro = self._c3(cf)

    def _scan_module(self, rel, src, tree):
        imports = {}
        funcs = {}
        for node in tree.body:
            if isinstance(node, ast.ImportFrom):
                for a in node.names:
                    imports[a.asname or a.name] = (node.module, node.level, a.name)
            elif isinstance(node, ast.Import):
                for a in node.names:
                    imports[(a.asname or a.name).split(".")[0]] = (a.name, 0, None)
            elif isinstance(node, ast.FunctionDef):
                funcs[node.name] = self._unit(rel, src, node, node.name, "function", None)
            elif isinstance(node, ast.ClassDef):
                self._scan_class(rel, src, node)
        self.module_imports[rel] = imports
        self.module_funcs[rel] = funcs

    def _unit(self, rel, src, node, qual, kind, cls):
        seg = ast.get_source_segment(src, node) or ""
        return FuncUnit(rel, qual, node, seg, hashlib.sha256(seg.encode()).hexdigest()[:16],
                        node.lineno, node.end_lineno, kind, cls)

    def _scan_class(self, rel, src, node):
        bases = []
        for b in node.bases:
            if isinstance(b, ast.Name):
                bases.append(b.id)
            elif isinstance(b, ast.Attribute):
                bases.append(b.attr)
        cf = ClassFacts(node.name, rel, node, bases)
        for item in node.body:
            if isinstance(item, ast.FunctionDef):
                kind = "method"
                for d in item.decorator_list:
                    if isinstance(d, ast.Name) and d.id in ("property", "classmethod", "staticmethod"):
                        kind = d.id if kind == "method" else kind
                    elif isinstance(d, ast.Attribute) and d.attr == "setter":
                        kind = "setter"
                u = self._unit(rel, src, item, f"{node.name}.{item.name}", kind, cf)
                if kind == "setter":
                    cf.setters[item.name] = u
                else:
                    cf.methods[item.name] = u
                for sub in ast.walk(item):
                    tgts = []
                    if isinstance(sub, ast.Assign):
                        tgts = sub.targets
                    elif isinstance(sub, (ast.AugAssign, ast.AnnAssign)):
                        tgts = [sub.target]
                    for t in tgts:
                        for tt in (t.elts if isinstance(t, ast.Tuple) else [t]):
                            if isinstance(tt, ast.Attribute) and isinstance(tt.value, ast.Name) and tt.value.id == "self":
                                # an annotation without a value does not create the attribute
                                if isinstance(sub, ast.AnnAssign) and sub.value is None:
                                    continue
                                cf.inst_attrs.add(tt.attr)
            elif isinstance(item, ast.Assign):
                for t in item.targets:
                    if isinstance(t, ast.Name):
                        cf.class_attrs[t.id] = item.value
            elif isinstance(item, ast.AnnAssign) and isinstance(item.target, ast.Name) and item.value is not None:
                cf.class_attrs[item.target.id] = item.value
        self.classes_by_key[cf.key] = cf
        self.classes_by_name.setdefault(cf.name, []).append(cf)

    def _resolve_class(self, file, name):
        # same module first
        k = f"{file}::{name}"
        if k in self.classes_by_key:
            return self.classes_by_key[k]
        imp = self.module_imports.get(file, {}).get(name)
        cands = self.classes_by_name.get(name, [])
        if imp and cands:
            mod, level, orig = imp
            if mod:
                tail = mod.replace(".", "/")
                for c in cands:
                    if c.file[:-3].endswith(tail) or c.file[:-3].endswith(tail + "/__init__"):
                        return c
        if len(cands) >= 1:
            return cands[0]
        return None

    def _c3(self, cf):
        def merge(seqs):
            res = []
            seqs = [list(s) for s in seqs if s]
            while seqs:
                for s in seqs:
                    h = s[0]
                    if not any(h in t[1:] for t in seqs):
                        break
                else:
                    # inconsistent; fall back to depth-first
                    h = seqs[0][0]
                res.append(h)
                seqs = [[x for x in s if x is not h] for s in seqs]
                seqs = [s for s in seqs if s]
            return res
        seen = {}
        def lin(c):
            if c.key in seen:
                return seen[c.key]
            seen[c.key] = [c]
            r = [c] + merge([lin(b) for b in c.bases] + [list(c.bases)])
            seen[c.key] = r
            return r
        return lin(cf)

    # ------------------------------------------------------------------
    def cls(self, name_or_key, hint_file=None):
        if "::" in name_or_key:
            return self.classes_by_key.get(name_or_key)
        if hint_file:
            c = self._resolve_class(hint_file, name_or_key)
            if c:
                return c
        c = self.classes_by_name.get(name_or_key)
        return c[0] if c else None

    def lookup(self, cf, attr):
        """('method'|'property'|'classmethod'|'staticmethod', FuncUnit) | ('classattr', node) | ('inst', None) | None"""
        for c in cf.mro:
            if attr in c.methods:
                u = c.methods[attr]
                return (u.kind, u)
            if attr in c.class_attrs:
                return ("classattr", c.class_attrs[attr], c)
        for c in cf.mro:
            if attr in c.inst_attrs:
                return ("inst", None)
        return None

    def setter(self, cf, attr):
        for c in cf.mro:
            if attr in c.setters:
                return c.setters[attr]
            if attr in c.methods and c.methods[attr].kind == "property":
                return None
        return None

    def is_subclass(self, cf, other_name):
        return any(c.name == other_name for c in cf.mro)

    def unit(self, target):
        """target: 'csvpath/x/y.py::Class.method' or 'csvpath/x/y.py::func'"""
        file, qual = target.split("::")
        if "." in qual:
            cn, mn = qual.split(".", 1)
            cf = self.classes_by_key.get(f"{file}::{cn}")
            if cf is None:
                return None
            if mn.endswith(".setter"):
                return cf.setters.get(mn[:-7])
            return cf.methods.get(mn)
        return self.module_funcs.get(file, {}).get(qual)


# exception hierarchy of the builtins the target code uses
BUILTIN_EXC = {
    "BaseException": None, "Exception": "BaseException", "TypeError": "Exception", "ValueError": "Exception",
    "AttributeError": "Exception", "LookupError": "Exception", "IndexError": "LookupError",
    "KeyError": "LookupError", "ZeroDivisionError": "ArithmeticError", "ArithmeticError": "Exception",
    "OSError": "Exception", "FileNotFoundError": "OSError", "IOError": "Exception", "StopIteration": "Exception",
    "RuntimeError": "Exception", "NotImplementedError": "RuntimeError", "AssertionError": "Exception",
    "OverflowError": "ArithmeticError", "UnicodeDecodeError": "ValueError",
}


def exc_is_a(facts: Facts, raised: str, catcher: str) -> bool:
    """is exception class `raised` caught by `except catcher`?"""
    if raised == catcher:
        return True
    n = raised
    seen = set()
    while n is not None and n not in seen:
        seen.add(n)
        if n == catcher:
            return True
        if n in BUILTIN_EXC:
            n = BUILTIN_EXC[n]
            continue
        cf = facts.cls(n)
        if cf is None:
            return catcher in ("Exception", "BaseException")
        for c in cf.mro:
            if c.name == catcher:
                return True
        # find first builtin base
        nxt = None
        for c in cf.mro:
            for b in c.base_names:
                if b in BUILTIN_EXC:
                    nxt = b
                    break
            if nxt:
                break
        n = nxt if nxt else "Exception"
    return False
