"""Discharge obligations: z3 5.1 (python API) first, /usr/bin/z3 4.8.12 and /usr/bin/cvc5 on unknowns
(thorough: all three, disagreement = checker error).  Obligations travel as SMT-LIB 2 text."""
from __future__ import annotations
import os, subprocess, tempfile, time, json, re
import multiprocessing as mp
import z3

Z3_OLD = "/usr/bin/z3"
CVC5 = "/usr/bin/cvc5"


def to_smt2(pc, goal, expect_sat=False):
    s = z3.Solver()
    for c in pc:
        s.add(c)
    s.add(goal if expect_sat else z3.Not(goal))
    return s.to_smt2()


def _model_value(v):
    """z3 model value -> JSON-able python"""
    try:
        if z3.is_int_value(v):
            return v.as_long()
        if z3.is_true(v):
            return True
        if z3.is_false(v):
            return False
        if z3.is_string_value(v):
            return v.as_string()
        if z3.is_rational_value(v):
            return {"real": str(v)}
        if z3.is_seq(v):
            out = []

            def walk(t):
                d = t.decl().kind()
                if d == z3.Z3_OP_SEQ_CONCAT:
                    for c in t.children():
                        walk(c)
                elif d == z3.Z3_OP_SEQ_UNIT:
                    out.append(_model_value(t.arg(0)))
                elif d == z3.Z3_OP_SEQ_EMPTY:
                    pass
                else:
                    out.append({"?": str(t)})
            walk(v)
            return out
        if z3.is_app(v) and v.sort().kind() == z3.Z3_DATATYPE_SORT:
            n = v.decl().name()
            if n == "NoneV":
                return None
            if n in ("BoolV", "IntV", "StrV"):
                return _model_value(v.arg(0))
            if n == "RealV":
                return {"real": str(v.arg(0))}
            if n == "OpaqueV":
                return {"opaque": _model_value(v.arg(0))}
        if z3.is_array(v) or z3.is_as_array(v):
            return {"array": str(v)[:400]}
    except Exception as e:   # pragma: no cover
        return {"?": f"{e}"}
    return {"?": str(v)[:200]}


def _check_api(smt2, timeout_ms, inputs):
    ctx = z3.Context()
    t0 = time.time()
    has_q = "(forall " in smt2 or "(exists " in smt2
    try:
        if has_q:
            # phase 1: E-matching only (patterns), no model-based instantiation: proves or gives up quickly
            s = z3.Solver(ctx=ctx)
            s.set("timeout", min(timeout_ms, 6000))
            s.set("smt.mbqi", False)
            s.set("smt.auto_config", False)
            s.from_string(smt2)
            r = s.check()
            if r == z3.unsat:
                return {"result": "unsat", "seconds": round(time.time() - t0, 4), "backend": "z3-5.1-api(ematching)"}
        s = z3.Solver(ctx=ctx)
        s.set("timeout", timeout_ms)
        s.from_string(smt2)
        r = s.check()
    except z3.Z3Exception as e:
        return {"result": "error", "reason": str(e)[:300], "seconds": time.time() - t0, "backend": "z3-5.1-api"}
    out = {"result": str(r), "seconds": round(time.time() - t0, 4), "backend": "z3-5.1-api"}
    if r == z3.sat:
        m = s.model()
        vals = {}
        decls = {d.name(): d for d in m.decls()}
        for name in inputs:
            d = decls.get(name)
            if d is None or d.arity() != 0:
                continue
            if "[*]." in name:
                # field array of an object list: read the first len elements
                base = name.split("[*].")[0]
                ld = decls.get(base + "!len")
                n = 0
                if ld is not None:
                    try:
                        n = m[ld].as_long()
                    except Exception:
                        n = 0
                arr = d()
                vals[name] = [_model_value(m.eval(z3.Select(arr, z3.IntVal(i, ctx)), model_completion=True)) for i in range(max(0, min(n, 8)))]
            else:
                vals[name] = _model_value(m[d])
        out["model"] = vals
    elif r == z3.unknown:
        out["reason"] = s.reason_unknown()
    return out


def _check_cli(smt2, which, timeout_s):
    t0 = time.time()
    with tempfile.NamedTemporaryFile("w", suffix=".smt2", delete=False) as f:
        text = smt2
        if which == "cvc5":
            text = "(set-logic ALL)\n" + smt2
        f.write(text)
        path = f.name
    try:
        if which == "z3old":
            cmd = [Z3_OLD, f"-T:{int(timeout_s)}", path]
        else:
            cmd = [CVC5, "--strings-exp", f"--tlimit={int(timeout_s * 1000)}", path]
        p = subprocess.run(cmd, stdout=subprocess.PIPE, stderr=subprocess.STDOUT, text=True, timeout=timeout_s + 10)
        first = (p.stdout.strip().splitlines() or ["error"])[0].strip()
        res = first if first in ("sat", "unsat", "unknown") else ("unknown" if "timeout" in p.stdout.lower() or "interrupted" in p.stdout.lower() else "error")
        return {"result": res, "seconds": round(time.time() - t0, 4), "backend": {"z3old": "z3-4.8.12-cli", "cvc5": "cvc5-1.0.3-cli"}[which],
                "reason": p.stdout[:300] if res in ("error", "unknown") else ""}
    except subprocess.TimeoutExpired:
        return {"result": "unknown", "seconds": round(time.time() - t0, 4), "backend": which, "reason": "timeout"}
    finally:
        os.unlink(path)


def _work(job):
    idx, smt2, inputs, timeout_ms, thorough = job
    res = _check_api(smt2, timeout_ms, inputs)
    tried = [dict(res)]
    if res["result"] in ("unknown", "error") or thorough:
        for which in ("z3old", "cvc5"):
            r2 = _check_cli(smt2, which, timeout_ms / 1000.0)
            tried.append(r2)
            if res["result"] in ("unknown", "error") and r2["result"] in ("sat", "unsat"):
                keep_model = res.get("model")
                res = dict(r2)
                if keep_model:
                    res["model"] = keep_model
                if not thorough:
                    break
    verdicts = {t["result"] for t in tried if t["result"] in ("sat", "unsat")}
    res["tried"] = [{k: t[k] for k in ("backend", "result", "seconds")} for t in tried]
    res["disagreement"] = len(verdicts) > 1
    if res["result"] == "sat" and "model" not in res:
        # a CLI back end found the model; ask the API once more with a longer budget for the values
        r3 = _check_api(smt2, timeout_ms * 3, inputs)
        if r3["result"] == "sat":
            res["model"] = r3.get("model", {})
    res["seconds_total"] = round(sum(t["seconds"] for t in tried), 4)
    return idx, res


def discharge(jobs, timeout_ms=20000, thorough=False, procs=None):
    """jobs: list of (smt2 text, [input names]); returns list of result dicts in order"""
    procs = procs or min(16, os.cpu_count() or 4)
    items = [(i, smt, inputs, timeout_ms, thorough) for i, (smt, inputs) in enumerate(jobs)]
    out = [None] * len(items)
    if not items:
        return out
    if len(items) <= 2 or procs == 1:
        for it in items:
            i, r = _work(it)
            out[i] = r
        return out
    with mp.get_context("fork").Pool(min(procs, len(items))) as pool:
        for i, r in pool.imap_unordered(_work, items, chunksize=1):
            out[i] = r
    return out
