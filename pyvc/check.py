"""./check <PID> [--tier quick|thorough] [--replay FILE]

exit 0  every obligation discharged, bounded scopes clean, guards green
exit 1  VIOLATION property=<id> replay=<path>   (one line per violated clause not listed in known_findings.json)
exit 3  the checker itself is broken (vacuity guard, zero obligations, solver disagreement, harness failure)
"""
from __future__ import annotations
import argparse, hashlib, importlib, json, os, sys, time, traceback
import z3
from .facts import Facts, REPO
from .contract import Registry, Contract, Lemma
from .engine import Ctx
from .verify import verify_contract, discharge_reports, verify_lemma
from . import native as NATIVE
from . import dropped as DROPPED
from . import solve

ROOT = os.path.dirname(os.path.dirname(os.path.abspath(__file__)))

GLOBAL_ASSUMPTIONS = [
    "pyvc itself (ast->SMT symbolic executor, /verif/pyvc) and the solvers z3 5.1.0 (python API), z3 4.8.12 and cvc5 1.0.3 (CLIs) are trusted",
    "Python int is mathematical; float is encoded as Real (rounding uninterpreted); machine arithmetic is treated as mathematical",
    "str is an SMT string of code points; strip() removes ASCII whitespace only; lower()/upper() uninterpreted",
    "no aliasing between list-typed access paths beyond the may_alias declarations of each contract",
    "attribute and method resolution follow the class hierarchy read from the source text (C3 linearisation); no monkey-patching at run time",
    "only modelled exception sites raise (explicit raise, declared callee raises, TypeError/IndexError/KeyError/ValueError/AttributeError/ZeroDivisionError of modelled operations); MemoryError/RecursionError ignored",
    "dropped calls (logging, explain chain, timing, print) have no effect on contract-mentioned state",
    "termination is not proved",
    "dict iteration is insertion ordered (CPython >= 3.7)",
    "float(str)/int(str) are uninterpreted total functions of the text with an uninterpreted 'parses' predicate (int: plus decimal-digit axioms); "
    "a list comprehension without condition is a fresh list of the same length with unconstrained elements (element expression assumed pure and non-raising)",
    "os.sep is '/' (POSIX); an object is truthy unless its class defines __bool__/__len__, in which case that method decides",
    "a parameter named in a postcondition denotes the argument passed (entry binding); symbolic dicts are str-keyed",
]


def load_known():
    p = os.path.join(ROOT, "known_findings.json")
    if not os.path.exists(p):
        return {"findings": [], "fixed": []}
    return json.load(open(p))


def sha(s):
    return hashlib.sha256(s.encode()).hexdigest()[:16]


class Run:
    def __init__(self, pid, tier, seed):
        self.pid, self.tier, self.seed = pid, tier, seed
        self.t0 = time.time()
        self.violations = []       # dicts
        self.known_hits = []
        self.checker_errors = []
        self.clause_rows = []
        self.functions = []
        self.bounded_rows = []
        self.crosscheck_rows = []
        self.cover_rows = []
        self.assumptions = list(GLOBAL_ASSUMPTIONS)
        self.solver_seconds = 0.0
        self.solver_max = 0.0
        self.samples = []
        self.notes = []
        self.reached = []
        self.not_proved = []

    def thorough(self):
        return self.tier == "thorough"


def write_replay(run, fn, clause, payload):
    d = os.path.join(ROOT, "replays", run.pid)
    os.makedirs(d, exist_ok=True)
    safe = (fn + "." + clause).replace("/", "_").replace(" ", "_").replace("[", "_").replace("]", "_").replace(":", "_")
    path = os.path.join(d, safe + ".json")
    payload = dict(payload, property=run.pid, function=fn, clause=clause)
    with open(path, "w") as f:
        json.dump(payload, f, indent=1, default=str)
    return path


def native_replay(ctx, contract, unit, model, alias, clause_names=None, shapes=None):
    case = {"id": "replay", "values": model or {}, "alias": alias}
    job = NATIVE.job_for(ctx, contract, unit, [case], shapes=shapes)
    ans = NATIVE.run_native(job)
    return job, ans


def alias_from_notes(contract, path_id):
    out = []
    for n, (pa, pb) in zip(path_id, contract.may_alias):
        if n == 1:
            out.append([pa, pb])
    return out


def clause_failed_natively(case, clause, kind, contract):
    """does the native run witness the failure of this obligation?"""
    if not case or case.get("harness_error") or not case.get("pre_ok"):
        return False, "precondition not met natively / harness error"
    outcome = case.get("outcome", "")
    if kind in ("ensures",):
        v = case.get("clauses", {}).get(clause)
        if v is False:
            return True, "clause evaluates False on the real function"
        if outcome.startswith("raised:"):
            exc = outcome.split(":")[1]
            declared = any(d in case.get("mro", [exc]) for d in contract.raises)
            if not declared:
                return True, f"real function raised undeclared {exc}"
        return False, f"clause evaluates {v!r} natively"
    if kind == "raises":
        if clause == "no_unexpected_exception":
            if outcome.startswith("raised:"):
                exc = outcome.split(":")[1]
                if not any(d in case.get("mro", [exc]) for d in contract.raises):
                    return True, f"real function raised undeclared {exc}: {case.get('exception')}"
            return False, "no exception natively"
        if clause.endswith(".must"):
            exc = clause[len("raises:"):-len(".must")]
            if outcome == "normal" and case.get("raises_when", {}).get(exc) is True:
                return True, f"contract says {exc} must be raised here; real function returned normally"
            return False, "raise condition does not hold natively"
        if clause.endswith(".only_when"):
            exc = clause[len("raises:"):-len(".only_when")]
            if outcome.startswith("raised:") and exc in case.get("mro", []) and case.get("raises_when", {}).get(exc) is False:
                return True, f"{exc} raised although its condition is false"
            return False, "raise condition consistent natively"
    if kind == "ensures-exc":
        v = case.get("clauses", {}).get(clause)
        return (v is False), f"exceptional-exit clause evaluates {v!r}"
    if kind in ("frame",):
        return False, "frame clauses are not replayed natively"
    return False, "not replayable"


def known_match(known, pid, fn, clause, model):
    for k in known.get("findings", []):
        if k["property"] != pid or k["function"] != fn or k["clause"] != clause:
            continue
        w = k.get("witness")
        if isinstance(w, dict) and "predicate" in w and isinstance(model, dict) and model:
            try:
                if not eval(w["predicate"], {}, {"input": model, "f": {"input": model}}):
                    continue
            except Exception:
                continue
        return k
    return None


def main(argv=None):
    ap = argparse.ArgumentParser()
    ap.add_argument("pid")
    ap.add_argument("--tier", default=os.environ.get("VERIF_TIER", "quick"))
    ap.add_argument("--replay")
    ap.add_argument("--only", default="")
    ap.add_argument("--write-baseline", action="store_true", help="developer action: record the clause ids discharged now")
    args = ap.parse_args(argv)
    seed = int(os.environ.get("VERIF_SEED", "0") or 0)
    run = Run(args.pid, args.tier if args.tier in ("quick", "thorough") else "quick", seed)
    try:
        rc = do_check(run, args)
    except Exception as e:
        traceback.print_exc()
        print(f"CHECKER-ERROR property={args.pid} {type(e).__name__}: {e}")
        run.checker_errors.append(f"{type(e).__name__}: {e}")
        write_evidence(run, None, failed=True)
        return 3
    return rc


def do_check(run: Run, args):
    pid = run.pid
    sys.path.insert(0, ROOT)
    mod = importlib.import_module(f"contracts.{pid}")
    facts = Facts()
    reg = Registry()
    for c in mod.contracts():
        reg.add(c)
    # callee contracts from other modules
    for extra in getattr(mod, "USES", []):
        em = importlib.import_module(f"contracts.{extra}")
        for c in em.contracts():
            c._foreign = True
            reg.add(c)      # the registry keeps one contract per (target, variant, interface)
    ctx = Ctx(facts, reg)
    known = load_known()
    timeout_ms = 20000 if not run.thorough() else 60000

    if args.replay:
        return do_replay(run, ctx, reg, args.replay)

    own = [c for c in reg.contracts if not getattr(c, "_foreign", False) and not c.interface]
    for c in reg.contracts:
        if c.interface and not getattr(c, "_foreign", False):
            run.assumptions.append(f"[A] interface contract {c.ident}: " + "; ".join(c.assumptions or ["assumed, not verified against a body"]))
    if args.only:
        own = [c for c in own if args.only in c.ident]
    from .parallel import verify_parallel
    reports = verify_parallel(ctx, own, timeout_ms=timeout_ms, thorough=run.thorough())
    for rep in reports:
        if rep.status == "crash":
            run.checker_errors.append(f"executor crashed on {rep.contract.ident}: {rep.reason[:400]}")
    lemma_reports = [verify_lemma(ctx, l) for l in (mod.lemmas() if hasattr(mod, "lemmas") else [])]
    discharge_reports(lemma_reports, timeout_ms=timeout_ms, thorough=run.thorough())

    total_obl = 0
    discharged = 0
    for rep in reports + lemma_reports:
        c = rep.contract
        fn = c.ident if rep.unit is not None or rep.status != "ok" else "lemma:" + c.ident
        if rep.status != "ok":
            run.functions.append({"function": c.ident, "target": c.target, "status": rep.status, "reason": rep.reason[:300]})
            run.notes.append(f"{c.ident}: {rep.status} ({rep.reason}) -- no obligation generated; contract checked natively on sampled inputs only (bounded)")
            print(f"NOTE property={run.pid} {c.ident} is {rep.status}: {rep.reason[:200]} -- not proved on this tree (bounded native check only)")
            run.not_proved.append(c.ident)
            continue
        if rep.unit is not None:
            run.functions.append({"function": c.ident, "target": c.target, "status": "under contract", "source_sha": rep.unit.sha,
                                  "lines": [rep.unit.lineno, rep.unit.end_lineno], "paths": rep.paths})
        agg = {}
        for o, r in zip(rep.obligations, rep.results):
            agg.setdefault((o.clause, o.kind), []).append((o, r))
            run.solver_seconds += r.get("seconds_total", r.get("seconds", 0.0))
            run.solver_max = max(run.solver_max, r.get("seconds_total", r.get("seconds", 0.0)))
            if r.get("disagreement"):
                run.checker_errors.append(f"solver disagreement on {fn}.{o.clause}: {r.get('tried')}")
        if rep.unit is not None:
            seen_clauses = {cl for (cl, kind) in agg if kind in ("ensures", "ensures-exc")}
            for cl in list(c.ensures) + list(getattr(c, "ensures_exc", {}) or {}):
                if cl not in seen_clauses:
                    run.checker_errors.append(f"vacuity: {fn}.{cl} generated no obligation (no path reaches the exit this clause speaks about)")
            # a loop cut at its invariants must also generate the preservation step, unless its body never reaches the back edge
            inits = {cl.split(".inv")[0] for (cl, kind) in agg if kind == "inv-init"}
            pres = {cl.split(".inv")[0] for (cl, kind) in agg if kind == "inv-preserve"}
            for lp in sorted(inits - pres):
                if lp not in (c.native.get("loops_without_back_edge") or []):
                    run.checker_errors.append(f"vacuity: {fn}.{lp} has invariants but no preservation obligation was generated (every path through the loop body ended early)")
        for (cl, kind), lst in agg.items():
            if kind == "cover":
                ok = any(r["result"] == "sat" for _, r in lst)
                run.cover_rows.append({"function": fn, "cover": cl, "reached": ok})
                undecided = (not ok) and any(r["result"] not in ("sat", "unsat") for _, r in lst)
                if undecided:
                    # no path gave a model and at least one query timed out: reachability is undecided on this run (a contradictory precondition
                    # would answer unsat, quickly); this is not a vacuity finding and not a violation
                    run.notes.append(f"{fn}.{cl}: reachability undecided on this run (solver budget), not counted")
                elif not ok and tagged_elsewhere(c, cl, run.pid):
                    run.notes.append(f"{fn}.{cl} unreachable, but it is a witness clause of {c.property_clauses.get(cl)} only")
                elif not ok:
                    base = load_baseline().get(run.pid, [])
                    if f"{fn}.{cl}" in base:
                        # a behaviour the contract says must be possible was reachable on the pinned tree and no longer is
                        o, r = lst[0]
                        path = write_replay(run, fn, cl, {"kind": "cover", "clause_text": c.covers.get(cl[len("cover:"):], ""),
                                                          "solver": [x.get("result") for _, x in lst],
                                                          "why": "witness clause (must-be-possible behaviour) is unreachable on every path",
                                                          "failing_input_found": False})
                        run.violations.append({"fn": fn, "clause": cl, "replay": path, "confirmed": False,
                                               "why": "behaviour required to be possible is unreachable"})
                    else:
                        run.checker_errors.append(f"vacuity: {fn}.{cl} is not reachable (precondition or path contradictory?)")
                else:
                    run.reached.append(f"{fn}.{cl}")
                continue
            if cl == "canary":
                ok = any(r["result"] == "sat" for _, r in lst)
                run.cover_rows.append({"function": fn, "cover": "canary(False must be refutable)", "reached": ok})
                if not ok:
                    run.checker_errors.append(f"canary: {fn} -- pipeline proved False on every normal exit (vacuous)")
                continue
            total_obl += 1
            rs = [r["result"] for _, r in lst]
            backends = sorted({r.get("backend", "?") for _, r in lst})
            secs = round(sum(r.get("seconds_total", r.get("seconds", 0.0)) for _, r in lst), 3)
            row = {"id": f"{fn}.{cl}", "kind": kind, "strength": "P", "vcs": len(lst), "backend": backends, "seconds": secs,
                   "property": c.property_clauses.get(cl, "")}
            if all(x == "unsat" for x in rs):
                row["result"] = "discharged"
                discharged += 1
                if len(run.samples) < 3 and kind in ("ensures", "lemma"):
                    o = next((x for x, _ in lst if getattr(x, "smt_head", "")), lst[0][0])
                    head = getattr(o, "smt_head", "") or (solve.to_smt2(o.pc, o.goal)[:600] if hasattr(o, "pc") else "")
                    if head:
                        run.samples.append({"obligation": row["id"], "kind": kind, "clause_text": c.ensures.get(cl, getattr(c, "goal", "")),
                                            "smtlib_head": head})
            elif tagged_elsewhere(c, cl, run.pid):
                # a clause that carries another property only: that property's check reports it
                row["result"] = "failed (clause of property %s; reported by that check)" % c.property_clauses.get(cl)
                run.notes.append(f"{fn}.{cl} is not discharged, but it is a clause of {c.property_clauses.get(cl)} only")
            else:
                handle_failure(run, ctx, rep, fn, cl, kind, lst, row, known)
            run.clause_rows.append(row)

    # ---- native sampled contract check (encoding cross-check; the bounded stand-in for functions without VCs)
    nsamp = 40 if not run.thorough() else 400
    todo = []
    for rep in reports:
        c = rep.contract
        if rep.status == "missing" or c.native.get("skip"):
            continue
        # a failed obligation without a replayed input (e.g. a loop invariant): search harder for a failing input of this function
        unconfirmed = any(v["fn"] == c.ident and not v.get("confirmed") for v in run.violations)
        todo.append((rep, nsamp * 15 if unconfirmed else nsamp))
    _NG.update(ctx=ctx, seed=run.seed, todo=todo)
    import multiprocessing as mp
    if todo:
        with mp.get_context("fork").Pool(min(16, len(todo))) as pool:
            answers = pool.map(_native_stage, range(len(todo)), chunksize=1)
    else:
        answers = []
    for (rep, n_here), (cases, ans, err) in zip(todo, answers):
        c = rep.contract
        unit = rep.unit or ctx.facts.unit(c.target)
        if err:
            run.notes.append(f"sampling failed for {c.ident}: {err}")
        if not cases:
            run.crosscheck_rows.append({"function": c.ident, "samples": 0, "disagreements": 0, "note": "no samples"})
            continue
        if ans.get("error"):
            run.checker_errors.append(f"native harness failed for {c.ident}: {ans['error']}")
            continue
        bad = 0
        ran = 0
        for case in ans["cases"]:
            if case.get("harness_error"):
                run.checker_errors.append(f"native harness error in {c.ident}: {case['harness_error']}")
                continue
            if not case.get("pre_ok"):
                continue
            ran += 1
            fails = [(cl_, w_) for cl_, w_ in native_failures(case, c) if not tagged_elsewhere(c, cl_, run.pid)]
            art = harness_artifact(ctx, c, case)
            if art:
                if art not in run.notes:
                    run.notes.append(art)
                continue
            for cl, why in fails:
                bad += 1
                src = next((x for x in cases if x["id"] == case["id"]), {})
                k = known_match(known, run.pid, c.ident, cl, src.get("values"))
                payload = {"how": "native sampled contract check (bounded stand-in / encoding cross-check)", "why": why,
                           "input": src.get("values"), "alias": src.get("alias"), "native": case,
                           "clause_text": c.ensures.get(cl, ""), "proved_status": rep.status}
                already = any(v["fn"] == c.ident and v["clause"] == cl for v in run.violations)
                path = write_replay(run, c.ident, cl + (".sampled" if already else ""), payload)
                if k:
                    run.known_hits.append((k, path))
                elif not already:
                    run.violations.append({"fn": c.ident, "clause": cl, "replay": path, "confirmed": True, "why": why})
                # the failing input also witnesses the unconfirmed obligations of this function (same run of the real code)
                for v in run.violations:
                    if v["fn"] == c.ident and not v.get("confirmed"):
                        v["confirmed"] = True
                        v["why"] = v.get("why", "") + f"; failing input found by sampling the precondition: see {os.path.basename(path)} ({why})"
                        try:
                            d = json.load(open(v["replay"]))
                            d["failing_input_found"] = True
                            d["failing_input"] = src.get("values")
                            d["failing_input_native"] = case
                            json.dump(d, open(v["replay"], "w"), indent=1, default=str)
                        except Exception:
                            pass
                break
        run.crosscheck_rows.append({"function": c.ident, "samples": ran, "disagreements": bad,
                                    "role": "bounded stand-in" if rep.status != "ok" else "cross-check of proved clauses"})

    # ---- syntactic frame scans over the whole package (a frame failure has no model: reported no-failing-input-found)
    advisory_failed = []
    for sc in (mod.scans(facts) if hasattr(mod, "scans") else []):
        total_obl += 1
        row = {"id": f"scan:{sc['name']}", "kind": "frame-scan", "strength": "P", "vcs": sc.get("sites", 0), "backend": ["ast scan"], "seconds": 0.0,
               "property": run.pid, "result": "discharged" if sc["ok"] else "refuted"}
        run.clause_rows.append(row)
        if sc["ok"]:
            discharged += 1
        elif sc.get("advisory"):
            # a call-site scan compares the SHAPE of an external call's arguments with the shape on the pinned tree: an equivalent rewrite also changes the
            # shape, so by itself a mismatch is "undecided"; it is reported as the failed obligation only if the bounded run finds a failing input too
            advisory_failed.append(sc)
            row["result"] = "undecided"
        else:
            path = write_replay(run, "scan", sc["name"], {"kind": "frame-scan", "clause_text": sc.get("text", ""), "offending_sites": sc.get("detail"),
                                                          "failing_input_found": False,
                                                          "why": "a write outside the frame the property allows; a frame failure has no counter-model"})
            run.violations.append({"fn": "scan", "clause": sc["name"], "replay": path, "confirmed": False, "why": str(sc.get("detail"))[:300]})
    # ---- bounded / lifted native scripts declared by the property module
    n_before = len(run.violations)
    for b in (mod.bounded(run.tier, run.seed) if hasattr(mod, "bounded") else []):
        run_bounded(run, ctx, b, known)
    bounded_found = [v for v in run.violations[n_before:] if v.get("confirmed")]
    for sc in advisory_failed:
        if bounded_found:
            path = write_replay(run, "scan", sc["name"], {"kind": "call-site-scan", "clause_text": sc.get("text", ""), "offending_sites": sc.get("detail"),
                                                          "failing_input_found": True, "failing_input_in": bounded_found[0]["replay"],
                                                          "why": "the arguments handed to an external call differ from the stated shape, and the bounded run of the real code fails"})
            run.violations.append({"fn": "scan", "clause": sc["name"], "replay": path, "confirmed": True, "why": str(sc.get("detail"))[:300]})
        else:
            print(f"NOTE property={run.pid} scan:{sc['name']} is undecided: the call is no longer written as on the pinned tree and the bounded run found no failing input -- not a violation")
            run.notes.append(f"scan:{sc['name']} no longer matches the call as written on the pinned tree ({str(sc.get('detail'))[:200]}); the bounded run of the real "
                             f"code found no failing input, so this is not reported as a violation (undecided: an equivalent rewrite changes the shape too)")

    for a in getattr(mod, "ASSUMPTIONS", []):
        run.assumptions.append(a)
    for c in own:
        for a in c.assumptions:
            run.assumptions.append(f"{c.ident}: {a}")

    if total_obl == 0 and not run.bounded_rows:
        run.checker_errors.append("zero obligations generated")
    base = load_baseline().get(run.pid)
    if base is not None and not args.only and not args.write_baseline:
        have = {r["id"] for r in run.clause_rows} | set(run.reached) | {f"{x['function']}.{x['cover']}" for x in run.cover_rows}
        gone = [b for b in base if b not in have and not any(b.startswith(f["function"] + ".") for f in run.functions if f["status"] != "under contract")]
        if gone:
            run.checker_errors.append(f"{len(gone)} obligations of the committed baseline were not generated: {gone[:5]}")
    if args.write_baseline and run.not_proved:
        print(f"refusing to write a baseline: functions not proved: {run.not_proved}")
        args.write_baseline = False
    if args.write_baseline:
        p = os.path.join(ROOT, "baseline", "obligations.json")
        allb = load_baseline()
        allb[run.pid] = sorted([r["id"] for r in run.clause_rows if r["result"] == "discharged"] + run.reached)
        os.makedirs(os.path.dirname(p), exist_ok=True)
        json.dump(allb, open(p, "w"), indent=1, sort_keys=True)
    return finish(run, mod, total_obl, discharged)


def harness_artifact(ctx, c, case):
    """the harness builds objects without running constructors; an AttributeError for an attribute that the class's own
    constructor chain would have set, and that the contract never declared, says nothing about the function under test"""
    import re as _re
    exc = case.get("exception") or ""
    m = _re.match(r"AttributeError: '(\w+)' object has no attribute '(\w+)'", exc)
    if not m:
        return None
    cn, attr = m.group(1), m.group(2)
    cf = ctx.facts.cls(cn)
    if cf is None:
        return None
    declared = any(attr in c.class_fields.get(k.name, {}) for k in cf.mro) or any(p.endswith("." + attr) for p in c.types)
    set_in_init = any(attr in k.inst_attrs for k in cf.mro)
    if set_in_init and not declared:
        return (f"native check of {c.ident} skipped for some samples: the real code reads {cn}.{attr}, which the class's constructor sets "
                f"and the contract does not declare (objects are built without constructors) -- bounded evidence reduced, not a violation")
    return None


def tagged_elsewhere(c, clause, pid):
    tag = c.property_clauses.get(clause, "")
    return bool(tag) and pid not in [t.strip() for t in tag.split(",")]


_NG = {}


def _native_stage(i):
    rep, n_here = _NG["todo"][i]
    ctx, c = _NG["ctx"], rep.contract
    unit = rep.unit or ctx.facts.unit(c.target)
    try:
        cases = NATIVE.sample_prestates(ctx, c, unit, n_here, _NG["seed"], rep.shapes)
    except Exception as e:
        return [], {}, f"{type(e).__name__}: {e}"
    # fixed witness inputs of the contract (always run, whatever the sampler draws)
    for k, exv in enumerate(c.native.get("examples", [])):
        cases.append({"id": f"example{k}", "values": dict(exv), "alias": []})
    if not cases:
        return [], {}, None
    job = NATIVE.job_for(ctx, c, unit, cases, shapes=rep.shapes)
    return cases, NATIVE.run_native(job), None


def native_failures(case, c):
    out = []
    outcome = case.get("outcome", "")
    if outcome == "normal":
        for cl, v in case.get("clauses", {}).items():
            if v is False:
                out.append((cl, f"clause {cl} is False on the real function"))
            elif isinstance(v, str) and v.startswith("error"):
                pass   # not evaluable natively (spec-only construct): ignored
        for exc, spec in c.raises.items():
            if isinstance(spec, dict) and spec.get("exact", True) and case.get("raises_when", {}).get(exc) is True:
                out.append((f"raises:{exc}.must", f"{exc} must be raised; real function returned normally"))
    elif outcome.startswith("raised:"):
        exc = outcome.split(":")[1]
        mro = case.get("mro", [exc])
        decl = [d for d in c.raises if d in mro]
        if not decl:
            out.append(("no_unexpected_exception", f"real function raised undeclared {case.get('exception')}"))
        else:
            if case.get("raises_when", {}).get(decl[0]) is False:
                out.append((f"raises:{decl[0]}.only_when", f"{decl[0]} raised although its condition is false"))
            for cl, v in case.get("clauses", {}).items():
                if v is False:
                    out.append((cl, f"exceptional-exit clause {cl} is False"))
    return out


def add_canary(rep):
    from .engine import Obligation
    seen = set()
    for o in list(rep.obligations):
        if o.kind == "ensures" and o.path_id not in seen:
            seen.add(o.path_id)
            c = Obligation(o.fn, "canary", "cover", o.pc, z3.BoolVal(True), o.path_id)
            c.inputs = o.inputs
            rep.obligations.append(c)
    if not seen:
        # functions with no ensures clause: use any obligation's path
        for o in list(rep.obligations):
            if o.path_id not in seen:
                seen.add(o.path_id)
                c = Obligation(o.fn, "canary", "cover", o.pc, z3.BoolVal(True), o.path_id)
                c.inputs = o.inputs
                rep.obligations.append(c)


def handle_failure(run, ctx, rep, fn, cl, kind, lst, row, known):
    c = rep.contract
    sat = [(o, r) for o, r in lst if r["result"] == "sat"]
    unk = [(o, r) for o, r in lst if r["result"] not in ("sat", "unsat")]
    payload = {"clause_text": c.ensures.get(cl) or c.ensures_exc.get(cl) or "", "kind": kind,
               "source_sha": rep.unit.sha if rep.unit else None, "target": c.target}
    confirmed = False
    why = ""
    if sat:
        o, r = sat[0]
        model = r.get("model", {})
        alias = alias_from_notes(c, o.path_id)
        payload.update(solver={"result": "sat", "backend": r.get("backend"), "seconds": r.get("seconds")}, model=model,
                       alias=alias, path=list(o.path_id), note=o.note)
        if rep.unit is not None:
            try:
                job, ans = native_replay(ctx, c, rep.unit, model, alias, shapes=rep.shapes)
                case = (ans.get("cases") or [None])[0]
                payload["native"] = case if case else ans
                confirmed, why = clause_failed_natively(case, cl, kind, c)
                # try the other sat models too
                for o2, r2 in sat[1:4]:
                    if confirmed:
                        break
                    job, ans = native_replay(ctx, c, rep.unit, r2.get("model", {}), alias_from_notes(c, o2.path_id), shapes=rep.shapes)
                    case = (ans.get("cases") or [None])[0]
                    ok2, why2 = clause_failed_natively(case, cl, kind, c)
                    if ok2:
                        confirmed, why = ok2, why2
                        payload.update(model=r2.get("model", {}), native=case, alias=alias_from_notes(c, o2.path_id))
            except Exception as e:
                why = f"native replay failed: {type(e).__name__}: {e}"
        row["result"] = "refuted"
    else:
        o, r = unk[0]
        payload.update(solver={"result": r["result"], "reason": r.get("reason", ""), "tried": r.get("tried")},
                       path=list(o.path_id), note=o.note,
                       smtlib=(getattr(o, "smtlib", "") or (solve.to_smt2(o.pc, o.goal)[:4000] if hasattr(o, "pc") else "")))
        row["result"] = "unknown"
        why = f"no back end decided the obligation ({r.get('reason', '')})"
        baseline = load_baseline()
        if baseline is not None and f"{fn}.{cl}" not in baseline.get(run.pid, []):
            row["strength"] = "B"
            run.notes.append(f"{fn}.{cl}: undecided and never discharged on the pinned tree -> bounded only")
            return
    payload["why"] = why
    payload["failing_input_found"] = confirmed
    path = write_replay(run, fn, cl, payload)
    k = known_match(known, run.pid, fn, cl, payload.get("model"))
    if k:
        run.known_hits.append((k, path))
        row["result"] = "known-finding"
    else:
        run.violations.append({"fn": fn, "clause": cl, "replay": path, "confirmed": confirmed, "why": why})


_BASELINE = None


def load_baseline():
    global _BASELINE
    if _BASELINE is None:
        p = os.path.join(ROOT, "baseline", "obligations.json")
        _BASELINE = json.load(open(p)) if os.path.exists(p) else {}
    return _BASELINE


def run_bounded(run, ctx, b, known):
    """b = {"name":…, "script": "native/xyz.py", "args": {...}, "scope": text, "clauses": [...]}"""
    import subprocess
    t0 = time.time()
    env = dict(os.environ)
    env["PYTHONPATH"] = ctx.facts.repo
    args = dict(b.get("args", {}), repo=ctx.facts.repo, tier=run.tier, seed=run.seed)
    try:
        p = subprocess.run([NATIVE.VENV_PY, os.path.join(ROOT, b["script"])], input=json.dumps(args), stdout=subprocess.PIPE,
                           stderr=subprocess.PIPE, text=True, timeout=b.get("timeout", 1500), env=env, cwd="/")
        out_lines = [ln for ln in p.stdout.splitlines() if ln.startswith("{")]
        ans = json.loads(out_lines[-1]) if out_lines else {"error": (p.stdout[-300:] + p.stderr[-800:])}
    except subprocess.TimeoutExpired:
        ans = {"error": "timeout"}
    except json.JSONDecodeError:
        ans = {"error": "bad output: " + p.stdout[-300:] + p.stderr[-300:]}
    if ans.get("error"):
        run.checker_errors.append(f"bounded script {b['name']} failed: {ans['error']}")
        return
    if ans.get("enumerated", 0) + ans.get("random", 0) == 0:
        run.checker_errors.append(f"bounded script {b['name']} evaluated no case (vacuous)")
        return
    row = {"clause": b["name"], "scope": b.get("scope", ""), "enumerated": ans.get("enumerated", 0), "random": ans.get("random", 0),
           "failures": len(ans.get("failures", [])), "seconds": round(time.time() - t0, 2), "exhaustive": ans.get("exhaustive", False),
           "distinct": ans.get("distinct", ans.get("enumerated", 0) + ans.get("random", 0)), "property": run.pid}
    run.bounded_rows.append(row)
    if ans.get("samples"):
        run.samples.extend(ans["samples"][:2])
    seen = set()
    for f in ans.get("failures", []):
        cl = f.get("clause", b["name"])
        key = (cl, f.get("key", json.dumps(f.get("input"), sort_keys=True, default=str)))
        k = None
        for kf in known.get("findings", []):
            if kf["property"] == run.pid and kf["function"] == b["name"] and kf["clause"] == cl and known_input_matches(kf, f):
                k = kf
                break
        if k:
            if (b["name"], cl, k.get("text")) not in seen:
                seen.add((b["name"], cl, k.get("text")))
                path = write_replay(run, b["name"], cl + ".known", dict(f, how="bounded native check", scope=b.get("scope")))
                run.known_hits.append((k, path))
            continue
        if (cl,) in seen:
            continue
        seen.add((cl,))
        path = write_replay(run, b["name"], cl, dict(f, how="bounded native check on the real code", scope=b.get("scope")))
        run.violations.append({"fn": b["name"], "clause": cl, "replay": path, "confirmed": True, "why": f.get("why", "")})


def known_input_matches(kf, f):
    """a known finding lists the specific inputs (or a predicate over them) that fail"""
    w = kf.get("witness")
    if w is None:
        return True
    if isinstance(w, dict) and "inputs" in w:
        return f.get("key") in w["inputs"] or f.get("input") in w["inputs"]
    if isinstance(w, dict) and "predicate" in w:
        try:
            return bool(eval(w["predicate"], {}, {"input": f.get("input"), "f": f}))
        except Exception:
            return False
    return False


def do_replay(run, ctx, reg, path):
    data = json.load(open(path))
    fn, cl = data["function"], data["clause"]
    cands = [c for c in reg.contracts if c.ident == fn]
    if not cands:
        print(f"replay: no contract {fn}; script-level replays are re-run by the property's bounded scripts")
        return 3
    c = cands[0]
    unit = ctx.facts.unit(c.target)
    if unit is None:
        print(f"replay: {c.target} not found in the tree")
        return 3
    job, ans = native_replay(ctx, c, unit, data.get("model") or data.get("input") or {}, data.get("alias") or [])
    case = (ans.get("cases") or [None])[0]
    print(json.dumps(case, indent=1, default=str))
    ok, why = clause_failed_natively(case, cl, data.get("kind", "ensures"), c)
    if not ok and case:
        fails = native_failures(case, c)
        ok = any(x == cl for x, _ in fails)
    if ok:
        print(f"VIOLATION property={run.pid} replay={path}")
        return 1
    print(f"replay: clause {fn}.{cl} holds on this tree for the recorded input ({why})")
    return 0


def finish(run, mod, total_obl, discharged):
    # lines
    printed = set()
    for k, path in run.known_hits:
        line = f"KNOWN-FINDING: property={run.pid} {k.get('text', k.get('function') + '.' + k.get('clause'))}"
        if line not in printed:
            printed.add(line)
            print(line)
    rc = 0
    seen = set()
    for v in run.violations:
        key = (v["fn"], v["clause"])
        if key in seen:
            continue
        seen.add(key)
        tail = "" if v.get("confirmed") else " no-failing-input-found"
        print(f"VIOLATION property={run.pid} replay={v['replay']}{tail}")
        print(f"  failed obligation: {v['fn']}.{v['clause']} -- {v.get('why', '')}")
        rc = 1
    if run.checker_errors:
        for e in run.checker_errors:
            print(f"CHECKER-ERROR property={run.pid} {e}")
        if rc == 0:
            rc = 3
    write_evidence(run, mod, total_obl=total_obl, discharged=discharged, rc=rc)
    print(f"[{run.pid}] tier={run.tier} obligations={total_obl} discharged={discharged} bounded_checks={len(run.bounded_rows)} "
          f"violations={len(seen)} known={len(run.known_hits)} wall={time.time() - run.t0:.1f}s exit={rc}")
    return rc


def write_evidence(run, mod, total_obl=0, discharged=0, rc=0, failed=False):
    level = getattr(mod, "LEVEL", "other") if mod else "other"
    all_p = total_obl > 0 and discharged == total_obl and not any(r["strength"] != "P" for r in run.clause_rows)
    if level == "proof" and not all_p:
        level = "other"
    bounded_eval = sum(r["enumerated"] + r["random"] for r in run.bounded_rows) + sum(r["samples"] for r in run.crosscheck_rows)
    distinct = sum(r.get("distinct", 0) for r in run.bounded_rows) + sum(r["samples"] for r in run.crosscheck_rows)
    cov = {
        "obligations": total_obl,
        "discharged": discharged,
        "checker_cmd": f"./check {run.pid} --tier {run.tier}   (python3-vt -m pyvc.check; VCs generated from {REPO}/csvpath on this run)",
        "trusted_base": ["pyvc ast->SMT VC generator (/verif/pyvc)", "z3 5.1.0 python API", "/usr/bin/z3 4.8.12", "/usr/bin/cvc5 1.0.3",
                         "CPython 3.11 ast module", "native replay harness (/verif/native) under /venv/bin/python 3.12"],
        "explanation": getattr(mod, "EXPLANATION", "") if mod else "checker failed before producing coverage",
        "functions_under_contract": run.functions,
        "clauses": run.clause_rows,
        "solver_seconds": {"total": round(run.solver_seconds, 3), "max_single_vc": round(run.solver_max, 3)},
        "bounded": run.bounded_rows,
        "crosscheck": run.crosscheck_rows,
        "vacuity": run.cover_rows,
        "dropped_by_extraction": DROPPED.RULES,
        "samples": run.samples[:6] or [{"note": "no sample recorded"}],
        "evaluations": max(1, bounded_eval),
        "distinct_nontrivial": max(2, distinct) if bounded_eval else 2,
        "rule": "bounded rows: every input of the stated scope (exhaustive) then seeded random inputs; crosscheck rows: z3 models of each "
                "contract's precondition (blocking clauses, VERIF_SEED) run on the real function; a case is distinct when its input differs",
        "known_findings": [k.get("text") for k, _ in run.known_hits],
        "notes": run.notes,
        "checker_errors": run.checker_errors,
        "exit": rc,
    }
    if failed:
        cov["explanation"] = (cov.get("explanation") or "") + " CHECKER FAILED: " + "; ".join(run.checker_errors)
    ev = {"property_id": run.pid, "tier": run.tier, "seed": run.seed, "level": level, "coverage": cov,
          "assumptions": run.assumptions, "wall_s": round(time.time() - run.t0, 2), "violations": len({(v['fn'], v['clause']) for v in run.violations})}
    # evidence/<id>.json describes runs against /repo itself; a developer run against another tree (VERIF_REPO) writes next to the replays
    edir = os.path.join(ROOT, "evidence") if os.path.realpath(REPO) == "/repo" else os.path.join(ROOT, "replays", "other-tree-evidence")
    os.makedirs(edir, exist_ok=True)
    with open(os.path.join(edir, f"{run.pid}.json"), "w") as f:
        json.dump(ev, f, indent=1, default=str)


if __name__ == "__main__":
    sys.exit(main())
