"""Client for the native harness (/venv/bin/python native/harness.py) + pre-state sampling with z3."""
from __future__ import annotations
import json, os, random, subprocess, time
import z3
from . import ops
from .engine import Exec, PathEnd, Ref, HList, HTuple, HObj, HDict
from .verify import setup_inputs
from .solve import _model_value
from .facts import REPO

VENV_PY = "/venv/bin/python"
HARNESS = os.path.join(os.path.dirname(os.path.dirname(os.path.abspath(__file__))), "native", "harness.py")


def class_modules(ctx, contract):
    out = {}
    for t in list(contract.types.values()) + list(contract.native.get("classes", [])):
        for part in str(t).replace("[", ",").replace("]", ",").split(","):
            part = part.strip()
            if part.startswith("obj:"):
                cf = ctx.facts.cls(part[4:])
                if cf is not None:
                    out[cf.name] = cf.file[:-3].replace("/", ".")
    return out


def job_for(ctx, contract, unit, cases, observe=None, shapes=None):
    a = unit.node.args
    params = [p.arg for p in a.posonlyargs + a.args]
    kwonly = [p.arg for p in a.kwonlyargs if p.arg in contract.types]
    types = dict(shapes or {})
    types.update(contract.types)
    cm = class_modules(ctx, contract)
    alltypes = list(types.values()) + [t for d in contract.class_fields.values() for t in d.values()]
    import re as _re
    for t in alltypes:
        for nm in _re.findall(r"(?:obj:|objlist\[|pairlist\[)(\w+)", str(t)):
            cf = ctx.facts.cls(nm)
            if cf is not None:
                cm[cf.name] = cf.file[:-3].replace("/", ".")
    if "self" in params and "self" not in types and unit.cls is not None:
        types["self"] = f"obj:{unit.cls.name}"
        cm[unit.cls.name] = unit.cls.file[:-3].replace("/", ".")
    return {
        "repo": ctx.facts.repo, "target": contract.target, "types": types, "macros": contract.macros,
        "class_modules": cm, "clauses": contract.ensures, "clauses_exc": contract.ensures_exc,
        "requires": contract.requires, "raises": contract.raises, "params": params, "kwonly": kwonly,
        "cases": cases, "observe": observe or sorted(_path_expr(p) for p in types if "." in p or p in params),
        "patches": contract.native.get("patches", {}), "spec_funs": contract.native.get("spec_funs", {}),
        "class_fields": contract.class_fields, "construct": contract.native.get("construct", []), "backrefs": contract.backrefs, "native_defaults": contract.native.get("defaults", {}),
        "int_window": contract.native.get("int_window", [-2, 16]),
    }


def run_native(job, timeout=300):
    env = dict(os.environ)
    env["PYTHONPATH"] = job["repo"]
    env.pop("PYTHONSTARTUP", None)
    p = subprocess.run([VENV_PY, HARNESS], input=json.dumps(job), stdout=subprocess.PIPE, stderr=subprocess.PIPE,
                       text=True, timeout=timeout, env=env, cwd="/")
    if p.returncode != 0 or not p.stdout.strip():
        return {"error": f"harness exit {p.returncode}: {p.stderr[-800:]}", "cases": []}
    try:
        return json.loads(p.stdout)
    except json.JSONDecodeError:
        return {"error": "harness output not JSON: " + p.stdout[-400:], "cases": []}


# ---------------------------------------------------------------------------- sampling
def entry_worlds(ctx, contract, unit, shapes=None):
    """[(Exec after setup+requires, alias pairs)] -- one per declared alias world"""
    worlds = []
    work = [[]]
    while work:
        prefix = work.pop()
        ex = Exec(ctx, contract, unit, prefix)
        try:
            setup_inputs(ex, unit, contract)
            import ast as _ast
            for path in sorted(shapes or {}, key=lambda s_: s_.count(".")):
                try:
                    ex.spec_mode = True
                    ex.eval(_ast.parse(_path_expr(path), mode="eval").body)
                except Exception:
                    pass
                finally:
                    ex.spec_mode = False
            for r in contract.requires:
                ex.assume(ex.spec(r))
        except PathEnd:
            work.extend(ex.pending)
            continue
        work.extend(ex.pending)
        alias = []
        for n, (pa, pb) in zip(ex.trace, contract.may_alias):
            if n == 1:
                alias.append([pa, pb])
        worlds.append((ex, alias))
    return worlds


def _path_expr(path):
    """'self.children.0.name' -> 'self.children[0].name'"""
    out = []
    for seg in path.split("."):
        if seg.isdigit() and out:
            out[-1] = out[-1] + f"[{seg}]"
        else:
            out.append(seg)
    return ".".join(out)


def sample_prestates(ctx, contract, unit, n, seed, shapes=None):
    rnd = random.Random(seed)
    cases = []
    worlds = entry_worlds(ctx, contract, unit, shapes)
    if not worlds:
        return cases
    per = max(1, n // len(worlds))
    for wi, (ex, alias) in enumerate(worlds):
        s = z3.Solver()
        s.set("timeout", 5000)
        s.set("random_seed", rnd.randrange(1 << 30))
        s.add(*ex.pc)
        # small-scope preference (dropped when it makes the precondition unsatisfiable)
        small = []
        for name, t in ex.inputs.items():
            srt = t.sort()
            if srt == z3.IntSort():
                small.append(z3.And(t >= -1, t <= (4 if name.endswith("!len") else 12)))
            elif srt == z3.StringSort():
                small.append(z3.Length(t) <= 4)
            elif z3.is_seq(t):
                small.append(z3.Length(t) <= 4)
                if srt == ops.IntSeq:
                    j = z3.Int("j!s")
                    small.append(z3.ForAll([j], z3.Implies(z3.And(j >= 0, j < z3.Length(t)), z3.And(t[j] >= -1, t[j] <= 12))))
            elif srt == ops.Val:
                small.append(z3.Or(z3.Not(ops.Val.is_IntV(t)), z3.And(ops.Val.iv(t) >= -1, ops.Val.iv(t) <= 12)))
                small.append(z3.Or(z3.Not(ops.Val.is_StrV(t)), z3.Length(ops.Val.sv(t)) <= 4))
        s.push()
        s.add(*small)
        if s.check() != z3.sat:
            s.pop()
            s.push()
        got = 0
        tries = 0
        while got < per and tries < per * 3:
            tries += 1
            # random nudges for diversity
            s.push()
            for name, t in ex.inputs.items():
                if rnd.random() < 0.5:
                    if t.sort() == z3.IntSort():
                        s.add(t == rnd.randint(-1, 8))
                    elif t.sort() == z3.BoolSort():
                        s.add(t == rnd.choice([True, False]))
                    elif t.sort() == ops.Val:
                        k = rnd.random()
                        if k < 0.3:
                            s.add(ops.Val.is_NoneV(t))
                        elif k < 0.8:
                            s.add(z3.Implies(ops.Val.is_IntV(t), ops.Val.iv(t) == rnd.randint(0, 6)))
                    elif t.sort() == ops.IntSeq:
                        s.add(z3.Length(t) == rnd.randint(0, 3))
            r = s.check()
            if r != z3.sat:
                s.pop()
                r = s.check()
                if r != z3.sat:
                    break
                m = s.model()
            else:
                m = s.model()
                s.pop()
            vals = {}
            block = []
            for name, t in ex.inputs.items():
                if "[*]." in name:
                    base = name.split("[*].")[0]
                    lt = ex.inputs.get(base + "!len")
                    n = m.eval(lt, model_completion=True).as_long() if lt is not None else 0
                    vals[name] = [_model_value(m.eval(z3.Select(t, i), model_completion=True)) for i in range(max(0, min(n, 8)))]
                    continue
                v = m.eval(t, model_completion=True)
                vals[name] = _model_value(v)
                if t.sort() in (z3.IntSort(), z3.BoolSort(), z3.StringSort(), ops.Val, ops.IntSeq, ops.StrSeq):
                    block.append(t != v)
            if block:
                s.add(z3.Or(block))
            cases.append({"id": f"w{wi}.{got}", "values": vals, "alias": alias})
            got += 1
    return cases
