"""Client for the native harness (/venv/bin/python native/harness.py) + pre-state sampling with z3."""
from __future__ import annotations
import json, os, random, subprocess, time
import z3
from . import ops
from .engine import Exec, PathEnd, Ref, HList, HTuple, HObj, HDict
from .verify import setup_inputs
from .solve import _model_value
from .facts import REPO

VENV_PY = "/venv/bin/python"
HARNESS = os.path.join(os.path.dirname(os.path.dirname(os.path.abspath(__file__))), "native", "harness.py")


def class_modules(ctx, contract):
    out = {}
    for t in list(contract.types.values()) + list(contract.native.get("classes", [])):
        for part in str(t).replace("[", ",").replace("]", ",").split(","):
            part = part.strip()
            if part.startswith("obj:"):
                cf = ctx.facts.cls(part[4:])
                if cf is not None:
                    out[cf.name] = cf.file[:-3].replace("/", ".")
    return out


def job_for(ctx, contract, unit, cases, observe=None, shapes=None):
    a = unit.node.args
    params = [p.arg for p in a.posonlyargs + a.args]
    kwonly = [p.arg for p in a.kwonlyargs if p.arg in contract.types]
    types = dict(shapes or {})
    types.update(contract.types)
    cm = class_modules(ctx, contract)
    alltypes = list(types.values()) + [t for d in contract.class_fields.values() for t in d.values()]
    import re as _re
    for t in alltypes:
        for nm in _re.findall(r"(?:obj:|objlist\[|pairlist\[)(\w+)", str(t)):
            cf = ctx.facts.cls(nm)
            if cf is not None:
                cm[cf.name] = cf.file[:-3].replace("/", ".")
    if "self" in params and "self" not in types and unit.cls is not None:
        types["self"] = f"obj:{unit.cls.name}"
        cm[unit.cls.name] = unit.cls.file[:-3].replace("/", ".")
    return {
        "repo": ctx.facts.repo, "target": contract.target, "types": types, "macros": contract.macros,
        "class_modules": cm, "clauses": contract.ensures, "clauses_exc": contract.ensures_exc,
        "requires": contract.requires, "raises": contract.raises, "params": params, "kwonly": kwonly,
        "cases": cases, "observe": observe or sorted(_path_expr(p) for p in types if "." in p or p in params),
        "patches": contract.native.get("patches", {}), "spec_funs": contract.native.get("spec_funs", {}), "spec_names": contract.native.get("spec_names", {}),
        "class_fields": contract.class_fields, "construct": contract.native.get("construct", []), "backrefs": contract.backrefs, "native_defaults": contract.native.get("defaults", {}),
        "yield_to": contract.yield_to, "record_list": contract.native.get("record_list"), "record_lists": contract.native.get("record_lists", []), "result_records": contract.native.get("result_records", False),
        "int_window": contract.native.get("int_window", [-2, 16]),
    }


def run_native(job, timeout=300):
    env = dict(os.environ)
    env["PYTHONPATH"] = job["repo"]
    env.pop("PYTHONSTARTUP", None)
    p = subprocess.run([VENV_PY, HARNESS], input=json.dumps(job), stdout=subprocess.PIPE, stderr=subprocess.PIPE,
                       text=True, timeout=timeout, env=env, cwd="/")
    if p.returncode != 0 or not p.stdout.strip():
        return {"error": f"harness exit {p.returncode}: {p.stderr[-800:]}", "cases": []}
    try:
        return json.loads(p.stdout)
    except json.JSONDecodeError:
        return {"error": "harness output not JSON: " + p.stdout[-400:], "cases": []}


# ---------------------------------------------------------------------------- sampling
def entry_worlds(ctx, contract, unit, shapes=None):
    """[(Exec after setup+requires, alias pairs)] -- one per declared alias world"""
    worlds = []
    work = [[]]
    while work:
        prefix = work.pop()
        ex = Exec(ctx, contract, unit, prefix)
        try:
            setup_inputs(ex, unit, contract)
            import ast as _ast
            for path in sorted(shapes or {}, key=lambda s_: s_.count(".")):
                try:
                    ex.spec_mode = True
                    ex.eval(_ast.parse(_path_expr(path), mode="eval").body)
                except Exception:
                    pass
                finally:
                    ex.spec_mode = False
            for r in contract.requires:
                ex.assume(ex.spec(r))
        except PathEnd:
            work.extend(ex.pending)
            continue
        work.extend(ex.pending)
        alias = []
        for n, (pa, pb) in zip(ex.trace, contract.may_alias):
            if n == 1:
                alias.append([pa, pb])
        worlds.append((ex, alias))
    return worlds


def _path_expr(path):
    """'self.children.0.name' -> 'self.children[0].name'"""
    out = []
    for seg in path.split("."):
        if seg.isdigit() and out:
            out[-1] = out[-1] + f"[{seg}]"
        else:
            out.append(seg)
    return ".".join(out)


def sample_prestates(ctx, contract, unit, n, seed, shapes=None):
    """concrete pre-states: z3 models of (type constraints + requires), diversified by greedy random nudges.
    Quantified conjuncts are left out of the sampling solver; the harness re-checks `requires` natively and skips misses."""
    rnd = random.Random(seed)
    cases = []
    worlds = entry_worlds(ctx, contract, unit, shapes)
    if not worlds:
        return cases
    per = max(1, n // len(worlds))
    from .engine import _has_quantifier
    for wi, (ex, alias) in enumerate(worlds):
        s = z3.Solver()
        s.set("timeout", 400)
        s.set("random_seed", rnd.randrange(1 << 30))
        s.add(*[c for c in ex.pc if not _has_quantifier(c)])
        t_start = time.time()
        budget = 12.0 if n <= 60 else 90.0
        names = list(ex.inputs.items())
        # element type invariants of object-list field arrays, instantiated for the elements the harness will build
        for name, t in names:
            if z3.is_array(t) and "[*]." in name and t.sort().range() == ops.Val:
                base, fld = name.split("[*].")
                typ = None
                for d in contract.class_fields.values():
                    if fld in d:
                        typ = d[fld]
                if fld == "__memo__":
                    typ = "optbool"
                from .engine import TYPE_TAGS
                if typ in TYPE_TAGS:
                    for i in range(8):
                        s.add(z3.Or([ops.tag_is(ops.SV("val", z3.Select(t, i)), tg) for tg in TYPE_TAGS[typ]]))
        # small scope first
        small = []
        for name, t in names:
            srt = t.sort()
            if srt == z3.IntSort():
                small.append(z3.And(t >= (0 if name.endswith("!len") else -1), t <= (4 if name.endswith("!len") else 12)))
            elif srt == z3.StringSort():
                small.append(z3.Length(t) <= 4)
            elif z3.is_seq(t):
                small.append(z3.Length(t) <= 4)
                if srt == ops.IntSeq:
                    for i in range(4):
                        small.append(z3.Implies(z3.Length(t) > i, z3.And(t[i] >= -1, t[i] <= 12)))
            elif srt == ops.Val:
                small.append(z3.Or(z3.Not(ops.Val.is_IntV(t)), z3.And(ops.Val.iv(t) >= -1, ops.Val.iv(t) <= 12)))
                small.append(z3.Or(z3.Not(ops.Val.is_StrV(t)), z3.Length(ops.Val.sv(t)) <= 4))
        s.push()
        s.add(*small)
        if s.check() != z3.sat:
            s.pop()
            s.push()
            if s.check() != z3.sat:
                continue

        def nudges(name, t):
            srt = t.sort()
            out = []
            if srt == z3.IntSort():
                out.append(t == (rnd.randint(0, 4) if name.endswith("!len") else rnd.randint(-1, 8)))
            elif srt == z3.BoolSort():
                out.append(t == rnd.choice([True, False]))
            elif srt == z3.StringSort():
                out.append(t == z3.StringVal(rnd.choice(["", "a", "b", " a ", "1", "10", "x y"])))
            elif srt == ops.Val:
                k = rnd.random()
                if k < 0.25:
                    out.append(ops.Val.is_NoneV(t))
                elif k < 0.6:
                    out.append(t == ops.Val.IntV(rnd.randint(0, 5)))
                elif k < 0.75:
                    out.append(t == ops.Val.BoolV(rnd.choice([True, False])))
                elif k < 0.95:
                    out.append(t == ops.Val.StrV(z3.StringVal(rnd.choice(["", "a", "1", "2", "true", "b"]))))
            elif srt == ops.IntSeq:
                ln = rnd.randint(0, 3)
                out.append(z3.Length(t) == ln)
                for i in range(ln):
                    out.append(t[i] == rnd.randint(0, 6))
            elif srt == ops.StrSeq:
                out.append(z3.Length(t) == rnd.randint(0, 3))
            elif z3.is_array(t) and "[*]." in name:
                rs = srt.range()
                for i in range(4):
                    e = z3.Select(t, i)
                    if rs == z3.BoolSort():
                        out.append(e == rnd.choice([True, False]))
                    elif rs == z3.IntSort():
                        out.append(e == rnd.randint(0, 3))
                    elif rs == ops.Val:
                        k = rnd.random()
                        if k < 0.3:
                            out.append(ops.Val.is_NoneV(e))
                        elif k < 0.8:
                            out.append(e == ops.Val.BoolV(rnd.choice([True, False])))
            return out
        for got in range(per):
            if time.time() - t_start > budget / len(worlds):
                break
            s.push()
            order = names[:]
            rnd.shuffle(order)
            for name, t in order:
                if rnd.random() < 0.15:
                    continue
                for c in nudges(name, t):
                    s.push()
                    s.add(c)
                    if s.check() == z3.sat:
                        # keep: merge into the outer frame by not popping (frames are popped together below)
                        pass
                    else:
                        s.pop()
                        continue
            if s.check() != z3.sat:
                _pop_all(s)
                s.push() if False else None
                break
            m = s.model()
            vals = {}
            for name, t in names:
                if "[*]." in name:
                    base = name.split("[*].")[0]
                    lt = ex.inputs.get(base + "!len")
                    ln = m.eval(lt, model_completion=True).as_long() if lt is not None else 0
                    vals[name] = [_model_value(m.eval(z3.Select(t, i), model_completion=True)) for i in range(max(0, min(ln, 8)))]
                    continue
                vals[name] = _model_value(m.eval(t, model_completion=True))
            cases.append({"id": f"w{wi}.{got}", "values": vals, "alias": alias})
            # drop this case's nudges (every kept nudge opened one frame, plus the case frame)
            while s.num_scopes() > 1:
                s.pop()
    return cases


def _pop_all(s):
    while s.num_scopes() > 1:
        s.pop()
