"""Symbolic executor / VC generator over the real source text (DESIGN §2).

One ``Exec`` instance runs ONE path of one function, following a decision prefix; new
decision points enqueue the alternatives (re-execution forking).  Loops are cut at their
contract invariants, calls are replaced by callee contracts (or inlined from source when the
caller's contract says so), logging / explain / timing calls are dropped (dropped.py).
"""
from __future__ import annotations
import ast, copy, itertools, re
import z3
from . import ops
from .ops import SV, NONE, TRUE, FALSE, B, I, S, R, Val, OutsideSubset
from .facts import Facts, exc_is_a, BUILTIN_EXC
from .contract import Contract
from . import dropped as DROPPED


# ----------------------------------------------------------------------------- heap
class Ref:
    __slots__ = ("oid",)

    def __init__(self, oid):
        self.oid = oid

    def __repr__(self):
        return f"Ref({self.oid})"


class HList:
    def __init__(self, elem, seq):
        self.elem, self.seq = elem, seq

    def clone(self):
        return HList(self.elem, self.seq)


class HTuple:
    """fixed-shape mutable python list/tuple (YaccProduction p, [expr, memo] pairs, literal lists)"""
    def __init__(self, items, is_tuple=False):
        self.items = list(items)
        self.is_tuple = is_tuple

    def clone(self):
        return HTuple(self.items, self.is_tuple)


class HObj:
    def __init__(self, clsname, cf, path):
        self.clsname, self.cf, self.path = clsname, cf, path
        self.fields = {}

    def clone(self):
        o = HObj(self.clsname, self.cf, self.path)
        o.fields = dict(self.fields)
        return o


class HDict:
    """dict[str -> val]: total array + domain"""
    def __init__(self, arr, dom):
        self.arr, self.dom = arr, dom

    def clone(self):
        return HDict(self.arr, self.dom)


class HObjList:
    """symbolic-length list of objects of one class, struct-of-arrays: field f of element i is Select(fields[f], i).
    pair=True models a list of [object, memo] two-element lists (Matcher.expressions)."""
    def __init__(self, clsname, cf, length, path, pair=False):
        self.clsname, self.cf, self.length, self.path, self.pair = clsname, cf, length, path, pair
        self.fields = {}      # name -> (type, array term)

    def clone(self):
        o = HObjList(self.clsname, self.cf, self.length, self.path, self.pair)
        o.fields = dict(self.fields)
        return o


class ElemRef:
    """element `idx` of an HObjList (part='pair' is the [object, memo] two-list itself, part='obj' the object).
    prefix/clsname address an object reachable from the element through object-typed fields (r.csvpath.…)."""
    __slots__ = ("oid", "idx", "part", "prefix", "clsname")

    def __init__(self, oid, idx, part="obj", prefix="", clsname=None):
        self.oid, self.idx, self.part, self.prefix, self.clsname = oid, idx, part, prefix, clsname

    def __repr__(self):
        return f"ElemRef({self.oid},{self.idx},{self.part},{self.prefix})"


class HRec:
    """python dict with constant string keys (keyword-argument bundles like Equality's `args`)"""
    def __init__(self, items):
        self.items = dict(items)

    def clone(self):
        return HRec(self.items)


class ClassRef:
    def __init__(self, name, cf=None):
        self.name, self.cf = name, cf

    def __repr__(self):
        return f"ClassRef({self.name})"


class EnumVal:
    """Enum member of OnError-like classes: .value is a string constant"""
    def __init__(self, cls, member, value):
        self.cls, self.member, self.value = cls, member, value


# ----------------------------------------------------------------------------- control signals
class PathEnd(Exception):
    pass


class PyRaise(Exception):
    def __init__(self, cls, site="", msg=None):
        self.cls, self.site, self.msg = cls, site, msg


class ReturnSig(Exception):
    def __init__(self, value):
        self.value = value


class BreakSig(Exception):
    pass


class ContinueSig(Exception):
    pass


class Obligation:
    def __init__(self, fn, clause, kind, pc, goal, path_id, note=""):
        self.fn, self.clause, self.kind, self.pc, self.goal, self.path_id, self.note = fn, clause, kind, list(pc), goal, path_id, note
        self.inputs = {}

    @property
    def ident(self):
        return f"{self.fn}.{self.clause}"


_fresh = itertools.count()


def fresh_name(base):
    return f"{base}!{next(_fresh)}"


TYPE_TAGS = {
    "optint": ("none", "int"), "optstr": ("none", "str"), "optbool": ("none", "bool"),
    "val": ("none", "bool", "int", "real", "str"), "anyval": ops.TAGS, "num": ("int", "real"),
    "optnum": ("none", "int", "real"), "intorstr": ("int", "str"), "scalar": ("none", "bool", "int", "str"),
    "optintstr": ("none", "int", "str"),
}


class Ctx:
    """shared per run: facts, registry"""
    def __init__(self, facts: Facts, registry):
        self.facts, self.registry = facts, registry
        self.solver_timeout_ms = 3000
        self.stats = {"feasibility_checks": 0, "paths": 0}


class Exec:
    MAX_INLINE_DEPTH = 6

    def __init__(self, ctx: Ctx, contract: Contract, unit, prefix):
        self.ctx, self.contract, self.unit = ctx, contract, unit
        self.facts = ctx.facts
        self.prefix, self.trace, self.pending = list(prefix), [], []
        self.heap, self.next_oid = {}, 1
        self.locals = {}
        self.pc = []
        self.obls = []
        self.spec_mode = False
        self.bound = {}
        self.old_state = None
        self.result = None
        self.inputs = {}          # name -> term (for model projection)
        self.input_shapes = {}    # access path -> (type, value)
        self.frames = []          # inline call stack: (unit, contract-or-None)
        self.loop_counter = [0]
        self.ghost = {}
        self.cur_file = unit.file
        self.cur_cls = unit.cls
        self.axioms_done = set()
        self.notes = []
        self.fn_ident = contract.ident
        self.written_paths = set()
        self.solver = None
        self.objlist_fields = {}
        self.alias_paths = {}
        self.old_stack = []
        self.effects = []
        self.root_env = {}
        self.pending_eager = []

    # ------------------------------------------------------------------ basics
    def alloc(self, obj):
        oid = self.next_oid
        self.next_oid += 1
        self.heap[oid] = obj
        return Ref(oid)

    def assume(self, c):
        c = z3.simplify(c) if z3.is_expr(c) else z3.BoolVal(bool(c))
        if z3.is_true(c):
            return
        if z3.is_false(c):
            raise PathEnd()
        self.pc.append(c)

    def feasible(self, c):
        c = z3.simplify(c)
        if z3.is_true(c):
            return True
        if z3.is_false(c):
            return False
        self.ctx.stats["feasibility_checks"] += 1
        s = z3.Solver()
        s.set("timeout", self.ctx.solver_timeout_ms)
        # quantified facts are left out: pruning only needs an over-approximation of feasibility
        s.add(*[p for p in self.pc if not _has_quantifier(p)])
        s.add(c)
        return s.check() != z3.unsat

    def fork(self, conds):
        """choose one of mutually exclusive, jointly exhaustive conditions; returns its index"""
        if self.spec_mode:
            raise OutsideSubset("fork inside a specification expression")
        k = len(self.trace)
        if k < len(self.prefix):
            choice = self.prefix[k]
        else:
            feas = [i for i, c in enumerate(conds) if self.feasible(c)]
            if not feas:
                raise PathEnd()
            choice = feas[0]
            for o in feas[1:]:
                self.pending.append(self.trace + [o])
        self.trace.append(choice)
        self.assume(conds[choice])
        return choice

    def branch(self, cond):
        """True/False per path"""
        cond = z3.simplify(cond)
        if z3.is_true(cond):
            return True
        if z3.is_false(cond):
            return False
        return self.fork([cond, z3.Not(cond)]) == 0

    def prove(self, clause, kind, goal, note=""):
        goal = z3.simplify(goal) if z3.is_expr(goal) else z3.BoolVal(bool(goal))
        o = Obligation(self.fn_ident, clause, kind, self.pc, goal, tuple(self.trace), note)
        self.obls.append(o)
        return o

    def maybe_raise(self, cond, exc, site=""):
        """fork an exceptional path when cond is satisfiable"""
        cond = z3.simplify(cond)
        if z3.is_false(cond):
            return
        if self.spec_mode:
            return
        if z3.is_true(cond):
            raise PyRaise(exc, site)
        if self.fork([z3.Not(cond), cond]) == 1:
            raise PyRaise(exc, site)

    # ------------------------------------------------------------------ types -> symbolic values
    def mk(self, typ, name):
        typ = typ.strip()
        if typ in ("int", "nat"):
            t = z3.Int(name)
            self.inputs[name] = t
            if typ == "nat":
                self.pc.append(t >= 0)
            return SV("int", t)
        if typ == "bool":
            t = z3.Bool(name)
            self.inputs[name] = t
            return SV("bool", t)
        if typ == "str":
            t = z3.String(name)
            self.inputs[name] = t
            return SV("str", t)
        if typ == "real":
            t = z3.Real(name)
            self.inputs[name] = t
            return SV("real", t)
        if typ == "none":
            return NONE
        if typ.startswith("const:"):
            return S(typ[6:])
        if typ in TYPE_TAGS:
            t = z3.Const(name, Val)
            self.inputs[name] = t
            self.pc.append(z3.Or([ops.tag_is(SV("val", t), tg) for tg in TYPE_TAGS[typ]]))
            return ops.V(t, TYPE_TAGS[typ])
        if typ in ("opaque", "exception"):
            t = z3.Const(name, Val)
            self.inputs[name] = t
            self.pc.append(Val.is_OpaqueV(t))
            return ops.V(t, ("opaque",))
        m = re.fullmatch(r"list\[(int|str|val|nat)\]", typ)
        if m:
            e = m.group(1)
            ee = "int" if e == "nat" else e
            t = z3.Const(name, ops.seq_sort(ee))
            self.inputs[name] = t
            if e == "nat":
                j = z3.Int(fresh_name("j"))
                self.pc.append(z3.ForAll([j], z3.Implies(z3.And(j >= 0, j < z3.Length(t)), t[j] >= 0)))
            return self.alloc(HList(ee, t))
        m = re.fullmatch(r"optlist\[(int|str|val)\]", typ)
        if m:
            raise OutsideSubset("optlist must be split into variants")
        if typ.startswith("tuple[") or typ.startswith("fixed["):
            inner = _split_top(typ[typ.index("[") + 1:-1])
            items = [self.mk(t, f"{name}.{i}") for i, t in enumerate(inner)]
            return self.alloc(HTuple(items, is_tuple=typ.startswith("tuple[")))
        m = re.fullmatch(r"alist\[(int|str|val)\]", typ)
        if m:
            return self.new_alist(m.group(1), name, symbolic=True)
        m = re.fullmatch(r"(objlist|pairlist)\[(\w+)\]", typ)
        if m:
            cn = m.group(2)
            cf = self.facts.cls(cn)
            if cf is None and cn not in self.contract.class_fields:
                raise OutsideSubset(f"unknown class {cn}")
            ln = z3.Int(name + "!len")
            self.inputs[name + "!len"] = ln
            self.pc.append(ln >= 0)
            ref = self.alloc(HObjList(cn, cf, ln, name, pair=(m.group(1) == "pairlist")))
            lst = self.heap[ref.oid]
            # field arrays are created eagerly so that every snapshot (old()) sees the same initial arrays
            for cname_ in ([c.name for c in cf.mro] if cf is not None else [cn]):
                for attr, t in self.contract.class_fields.get(cname_, {}).items():
                    if (t in self.SORTS or t in TYPE_TAGS or t in ("opaque", "exception")) and attr not in lst.fields:
                        self.elem_field_array(lst, attr)
            if lst.pair:
                self.elem_field_array(lst, "__memo__")
            return ref
        if typ.startswith("rec["):
            items = {}
            for part in _split_top(typ[4:-1]):
                k, t = part.split(":", 1)
                items[k.strip()] = self.mk(t.strip(), f"{name}.{k.strip()}")
            return self.alloc(HRec(items))
        if typ.startswith("dict["):
            arr = z3.Const(name + "!arr", z3.ArraySort(z3.StringSort(), Val))
            dom = z3.Const(name + "!dom", z3.ArraySort(z3.StringSort(), z3.BoolSort()))
            self.inputs[name + "!arr"], self.inputs[name + "!dom"] = arr, dom
            return self.alloc(HDict(arr, dom))
        if typ.startswith("obj:") or typ == "obj":
            cn = typ[4:] if typ.startswith("obj:") else None
            cf = self.facts.cls(cn) if cn else None
            if cn and cf is None and cn not in ("?",):
                raise OutsideSubset(f"unknown class {cn}")
            ref = self.alloc(HObj(cn, cf, name))
            self.pending_eager.append(ref)
            return ref
        if typ.startswith("enum:"):
            raise OutsideSubset("enum typed input")
        raise OutsideSubset(f"unknown type {typ}")

    def force_class_fields(self, depth_limit=4):
        """create every declared scalar/list field of the objects made so far (so that snapshots and loop-write checks see them)"""
        while self.pending_eager:
            ref = self.pending_eager.pop()
            obj = self.heap[ref.oid]
            if obj.path.count(".") >= depth_limit:
                continue
            names = [c.name for c in obj.cf.mro] if obj.cf is not None else ([obj.clsname] if obj.clsname else [])
            for nm in names:
                for attr, t in self.contract.class_fields.get(nm, {}).items():
                    if attr in obj.fields:
                        continue
                    if self.contract.types.get(f"{obj.path}.{attr}") is not None:
                        continue
                    if str(t).startswith("obj") or str(t).startswith("objlist") or str(t).startswith("pairlist"):
                        continue      # object graphs stay lazy (back pointers would never end)
                    try:
                        self.get_attr(ref, attr)
                    except (PyRaise, OutsideSubset):
                        pass

    def declared_type(self, path):
        t = self.contract_for_types().types.get(path)
        return t

    def contract_for_types(self):
        return self.contract

    # ------------------------------------------------------------------ attribute access
    def get_attr(self, ref, attr, node=None):
        obj = self.heap[ref.oid]
        if isinstance(obj, HObj):
            if attr in obj.fields:
                return obj.fields[attr]
            if attr == "__class__":
                return ClassRef(obj.clsname, obj.cf)
            cf = obj.cf
            if cf is not None:
                lk = self.facts.lookup(cf, attr)
                if lk and lk[0] == "property":
                    return self.call_unit(lk[1], ref, [], {}, prop=True)
                if lk and lk[0] in ("method", "classmethod", "staticmethod"):
                    return ("boundmethod", ref, lk[1])
            path = f"{obj.path}.{attr}"
            typ = self.types_lookup(path, obj, attr)
            if typ is not None:
                v = self.mk(typ, path)
                obj.fields[attr] = v
                self.register_input(path, typ, v)
                if self.pending_eager and not self._forcing:
                    self._forcing = True
                    try:
                        self.force_class_fields()
                    finally:
                        self._forcing = False
                return v
            if cf is not None:
                lk = self.facts.lookup(cf, attr)
                extra = self.contract.extra_attrs.get(cf.name, [])
                if lk is None and attr not in extra:
                    if self.spec_mode and not self.effect_mode:
                        raise OutsideSubset(f"spec reads missing attribute {path}")
                    raise PyRaise("AttributeError", f"{cf.name}.{attr}")
                if lk and lk[0] == "classattr":
                    return self.eval_classattr(lk[2], lk[1])
            raise OutsideSubset(f"contract {self.contract.ident} declares no type for {path}")
        raise OutsideSubset(f"attribute {attr} of {type(obj).__name__}")

    SORTS = {"int": lambda: z3.IntSort(), "bool": lambda: z3.BoolSort(), "str": lambda: z3.StringSort(), "real": lambda: z3.RealSort()}

    def new_alist(self, elem, name, symbolic):
        """python list of scalars in array encoding (length + Array Int -> elem): friendlier to quantified invariants than SMT sequences"""
        ln = z3.Int(name + "!len") if symbolic else z3.IntVal(0)
        if symbolic:
            self.inputs[name + "!len"] = ln
            self.pc.append(ln >= 0)
        lst = HObjList("$" + elem, None, ln, name)
        srt = self.SORTS[elem]() if elem in self.SORTS else Val
        nm = f"{name}[*].v"
        arr = z3.Const(nm if symbolic else fresh_name(nm), z3.ArraySort(z3.IntSort(), srt))
        if symbolic:
            self.inputs[nm] = arr
        lst.fields["v"] = (elem, arr)
        return self.alloc(lst)

    def elem_class_names(self, lst, er=None):
        cn = er.clsname if (er is not None and er.clsname) else None
        if cn:
            cf = self.facts.cls(cn)
            return [c.name for c in cf.mro] if cf is not None else [cn]
        return [c.name for c in lst.cf.mro] if lst.cf is not None else [lst.clsname]

    def elem_field_array(self, lst, attr, er=None):
        key = (er.prefix if er is not None else "") + attr
        if key in lst.fields:
            return lst.fields[key]
        typ = None
        for nm in self.elem_class_names(lst, er):
            typ = self.contract.class_fields.get(nm, {}).get(attr)
            if typ is not None:
                break
        if attr == "__memo__":
            typ = "optbool"
        if typ is None:
            return None
        if typ.startswith("obj:"):
            return ("obj", typ[4:])
        attr = key
        srt = self.SORTS[typ]() if typ in self.SORTS else (Val if (typ in TYPE_TAGS or typ in ("opaque", "exception")) else None)
        if srt is None:
            raise OutsideSubset(f"field {attr}:{typ} of list elements is not scalar")
        nm = f"{lst.path}[*].{attr}"
        arr = z3.Const(nm, z3.ArraySort(z3.IntSort(), srt))
        self.inputs[nm] = arr
        if typ in TYPE_TAGS:
            j = z3.Int(fresh_name("j"))
            self.pc.append(z3.ForAll([j], z3.Or([ops.tag_is(SV("val", z3.Select(arr, j)), tg) for tg in TYPE_TAGS[typ]])))
        lst.fields[attr] = (typ, arr)
        self.input_shapes.setdefault(lst.path, (f"{'pairlist' if lst.pair else 'objlist'}[{lst.clsname}]", None))
        self.objlist_fields.setdefault(lst.path, {})[attr] = (typ, nm)
        return lst.fields[attr]

    def elem_get(self, er, attr):
        lst = self.heap[er.oid]
        names = self.elem_class_names(lst, er)
        for nm in names:
            tgt = self.contract.backrefs.get(f"{nm}.{attr}")
            if tgt is not None:
                saved = (self.locals, self.spec_mode)
                self.locals, self.spec_mode = self.root_env, True
                try:
                    return self.eval(ast.parse(path_expr(tgt), mode="eval").body)
                finally:
                    self.locals, self.spec_mode = saved
        fa = self.elem_field_array(lst, attr, er)
        if fa is None:
            return None
        typ, arr = fa
        if typ == "obj":
            return ElemRef(er.oid, er.idx, "obj", er.prefix + attr + ".", arr)
        t = z3.Select(arr, er.idx)
        if typ in self.SORTS:
            return SV(typ, t)
        return ops.V(t, TYPE_TAGS.get(typ, ("opaque",) if typ == "opaque" else None))

    def elem_set(self, er, attr, value):
        lst = self.heap[er.oid]
        fa = self.elem_field_array(lst, attr, er)
        if fa is None:
            raise OutsideSubset(f"no declared type for field {attr} of {lst.clsname} list elements")
        typ, arr = fa
        if typ == "obj":
            raise OutsideSubset("store of an object into a list-element field")
        attr = er.prefix + attr
        if not isinstance(value, SV):
            raise OutsideSubset("reference stored in a list-element field")
        if typ in self.SORTS:
            if value.kind != typ:
                if typ == "int" and value.kind == "bool":
                    term = ops.as_int(value)
                else:
                    raise OutsideSubset(f"store {value.kind} into {typ} field")
            else:
                term = value.term
        else:
            term = ops.to_val(value)
        lst.fields[attr] = (typ, z3.Store(arr, er.idx, term))
        self.written_paths.add(f"{lst.path}[*].{attr}")

    def types_lookup(self, path, obj=None, attr=None):
        t = self.contract.types.get(path)
        if t is not None:
            return t
        if obj is not None:
            for alt in self.alias_paths.get(obj.path, []):
                t = self.contract.types.get(f"{alt}.{attr}")
                if t is not None:
                    return t
        if obj is not None and self.contract.class_fields:
            names = [c.name for c in obj.cf.mro] if obj.cf is not None else ([obj.clsname] if obj.clsname else [])
            for nm in names:
                t = self.contract.class_fields.get(nm, {}).get(attr)
                if t is not None:
                    return t
        return None

    def register_input(self, path, typ, v):
        self.input_shapes[path] = (typ, v)
        if self.old_state is not None and not self.spec_mode_old:
            # lazily created after the snapshot: the old state has the same initial value
            self._mirror_into_old(path, v)

    spec_mode_old = False
    effect_mode = False
    _forcing = False

    def _mirror_into_old(self, path, v):
        # a lazily created input has the same initial value in every snapshot taken so far
        for st in [self.old_state] + list(self.old_stack):
            if st is None:
                continue
            oh = st["heap"]
            # find the parent object by oid (oids are stable across the snapshot)
            for oid, obj in self.heap.items():
                if isinstance(obj, HObj) and path.startswith(obj.path + ".") and "." not in path[len(obj.path) + 1:]:
                    attr = path[len(obj.path) + 1:]
                    if oid in oh and isinstance(oh[oid], HObj) and attr not in oh[oid].fields:
                        oh[oid].fields[attr] = self._snap_value(v, oh)
        return

    def _snap_value(self, v, oh):
        if isinstance(v, Ref) and v.oid not in oh:
            oh[v.oid] = self.heap[v.oid].clone()
        return v

    def eval_classattr(self, cf, node):
        if isinstance(node, ast.Constant):
            return self.const(node.value)
        saved = (self.cur_file, self.cur_cls)
        self.cur_file, self.cur_cls = cf.file, cf
        try:
            return self.eval(node)
        finally:
            self.cur_file, self.cur_cls = saved

    def set_attr(self, ref, attr, value):
        obj = self.heap[ref.oid]
        if not isinstance(obj, HObj):
            raise OutsideSubset("set attribute on non-object")
        if obj.cf is not None:
            st = self.facts.setter(obj.cf, attr)
            if st is not None:
                self.call_unit(st, ref, [value], {}, prop=True)
                return
            lk = self.facts.lookup(obj.cf, attr)
            if lk and lk[0] == "property":
                raise PyRaise("AttributeError", f"can't set {attr}")
        path = f"{obj.path}.{attr}"
        if getattr(obj, "fresh", False):
            obj.fields[attr] = value
            return
        if attr not in obj.fields and self.types_lookup(path, obj, attr) is not None:
            # make sure the old value exists (for frame / old())
            self.get_attr(ref, attr)
        obj.fields[attr] = value
        self.written_paths.add(path)

    # ------------------------------------------------------------------ constants
    def const(self, v):
        if v is None:
            return NONE
        if isinstance(v, bool):
            return B(v)
        if isinstance(v, int):
            return I(v)
        if isinstance(v, str):
            return S(v)
        if isinstance(v, float):
            return R(repr(v))
        raise OutsideSubset(f"constant {v!r}")

    # ------------------------------------------------------------------ truthiness on any value
    def truth(self, v):
        if isinstance(v, SV):
            return ops.truthy(v)
        if isinstance(v, Ref):
            o = self.heap[v.oid]
            if isinstance(o, HList):
                return z3.Length(o.seq) > 0
            if isinstance(o, HTuple):
                return z3.BoolVal(len(o.items) > 0)
            if isinstance(o, HRec):
                return z3.BoolVal(len(o.items) > 0)
            if isinstance(o, HObjList):
                return o.length > 0
            if isinstance(o, HDict):
                return ops.dict_nonempty(o.dom)
            if isinstance(o, HObj) and o.cf is not None:
                # an object is truthy unless its class says otherwise (__bool__, then __len__)
                for dunder in ("__bool__", "__len__"):
                    lk = self.facts.lookup(o.cf, dunder)
                    if lk and lk[0] == "method":
                        if self.spec_mode:
                            raise OutsideSubset(f"truthiness of a {o.clsname} (defines {dunder}) inside a specification: use len()/is None explicitly")
                        r = self.call_unit(lk[1], v, [], {})
                        return self.truth(r) if dunder == "__bool__" else (ops.as_int(r) != 0)
            return z3.BoolVal(True)
        if isinstance(v, ElemRef):
            lst = self.heap[v.oid]
            ecf = self.facts.cls(v.clsname) if v.clsname else lst.cf
            if ecf is not None and v.part != "pair" and (self.facts.lookup(ecf, "__bool__") or self.facts.lookup(ecf, "__len__")):
                raise OutsideSubset(f"truthiness of a list element whose class defines __bool__/__len__")
            return z3.BoolVal(True)
        if isinstance(v, (ClassRef, EnumVal, tuple)):
            return z3.BoolVal(True)
        raise OutsideSubset(f"truthiness of {v}")

    # ------------------------------------------------------------------ expressions
    def eval(self, node):
        m = getattr(self, "e_" + type(node).__name__, None)
        if m is None:
            raise OutsideSubset(f"expression {type(node).__name__} at line {getattr(node, 'lineno', '?')}")
        return m(node)

    def e_Constant(self, n):
        return self.const(n.value)

    def e_Name(self, n):
        nm = n.id
        if nm in self.bound:
            return self.bound[nm]
        if nm in self.locals:
            return self.locals[nm]
        if self.spec_mode and nm == "result":
            return self.result
        if nm in ("True", "False", "None"):
            return self.const({"True": True, "False": False, "None": None}[nm])
        if nm in ("list", "int", "str", "bool", "float", "dict", "tuple", "Exception", "len", "isinstance",
                  "max", "min", "range", "enumerate", "hasattr", "sorted", "abs", "round", "print", "type", "set"):
            return ("builtin", nm)
        if nm in BUILTIN_EXC:
            return ClassRef(nm)
        cf = self.facts.cls(nm, hint_file=self.cur_file)
        if cf is not None:
            return ClassRef(nm, cf)
        imp = self.facts.module_imports.get(self.cur_file, {}).get(nm)
        if imp is not None:
            return ClassRef(nm)
        raise OutsideSubset(f"unbound name {nm}")

    def e_Attribute(self, n):
        base = self.eval(n.value)
        return self.attr_of(base, n.attr, n)

    def attr_of(self, base, attr, n=None):
        if isinstance(base, tuple) and len(base) == 3 and base[0] == "method" and base[2] == "__class__" and attr in ("__name__", "__qualname__"):
            # type(x).__name__ of a dynamically typed value: some string (uninterpreted function of the value)
            f = z3.Function("py_class_name", Val, z3.StringSort())
            return S(f(ops.to_val(base[1])))
        if isinstance(base, ClassRef) and base.cf is None and base.name == "os" and attr == "sep":
            return S(z3.StringVal("/"))      # [A] POSIX path separator (the sandbox and the project's CI are POSIX)
        if isinstance(base, ClassRef) and attr in ("__name__", "__qualname__"):
            return S(z3.StringVal(base.name)) if base.name else S(z3.String(fresh_name("class_name")))
        if isinstance(base, ElemRef):
            lst = self.heap[base.oid]
            if base.part == "pair":
                raise OutsideSubset("attribute of an [expr, memo] pair")
            ecf = self.facts.cls(base.clsname) if base.clsname else lst.cf
            if attr == "__class__":
                return ClassRef(base.clsname or lst.clsname, ecf)
            v = None
            if ecf is not None:
                lk = self.facts.lookup(ecf, attr)
                if lk and lk[0] == "property":
                    return self.call_unit(lk[1], base, [], {}, prop=True)
                if lk and lk[0] in ("method", "classmethod", "staticmethod"):
                    return ("boundmethod", base, lk[1])
            v = self.elem_get(base, attr)
            if v is None:
                if ecf is not None and self.facts.lookup(ecf, attr) is None and attr not in self.contract.extra_attrs.get(ecf.name, []):
                    if self.spec_mode and not self.effect_mode:
                        raise OutsideSubset(f"spec reads missing attribute {attr}")
                    raise PyRaise("AttributeError", f"{lst.clsname}.{attr}")
                raise OutsideSubset(f"no declared type for field {attr} of {lst.clsname} list elements")
            return v
        if isinstance(base, Ref):
            o = self.heap[base.oid]
            if isinstance(o, HObj):
                return self.get_attr(base, attr, n)
            return ("method", base, attr)
        if isinstance(base, SV):
            if base.kind == "val" and (base.tags is None or "opaque" in base.tags):
                # an object stored in a list[val] is its identity OpaqueV(oid): when the path condition pins the value to one known object, use it
                r = self.resolve_object(base)
                if r is not None:
                    return self.attr_of(r, attr, n)
            if base.kind == "none" and not self.spec_mode:
                raise PyRaise("AttributeError", f"None.{attr}")
            if base.kind == "val" and not self.spec_mode:
                # attribute access on a possibly-None scalar
                self.maybe_raise(ops.tag_is(base, "none"), "AttributeError", f"None.{attr}")
            return ("method", base, attr)
        if isinstance(base, ClassRef):
            if base.cf is not None:
                lk = self.facts.lookup(base.cf, attr)
                if lk and lk[0] == "classattr":
                    node = lk[1]
                    # Enum member:  RAISE = "raise"
                    if self.facts.is_subclass(base.cf, "Enum") or "Enum" in base.cf.base_names:
                        if isinstance(node, ast.Constant):
                            return EnumVal(base.name, attr, node.value)
                    return self.eval_classattr(lk[2], node)
                if lk and lk[0] in ("method", "classmethod", "staticmethod"):
                    return ("classmethod", base, lk[1])
            return ("classattr?", base, attr)
        if isinstance(base, EnumVal):
            if attr == "value":
                return self.const(base.value)
            if attr == "name":
                return self.const(base.member)
        raise OutsideSubset(f"attribute {attr} of {base}")

    def e_BoolOp(self, n):
        is_and = isinstance(n.op, ast.And)
        if self.spec_mode:
            vals = [self.eval(v) for v in n.values]
            ts = [self.truth(v) for v in vals]
            allbool = all(isinstance(v, SV) and v.kind == "bool" for v in vals)
            if allbool:
                return B(z3.And(ts) if is_and else z3.Or(ts))
            # value semantics via ite over scalars
            cur = vals[-1]
            for v, t in zip(reversed(vals[:-1]), reversed(ts[:-1])):
                if not (isinstance(v, SV) and isinstance(cur, SV)):
                    raise OutsideSubset("and/or over references in spec")
                if is_and:
                    cur = ops._mk_ite(t, cur, v)
                else:
                    cur = ops._mk_ite(t, v, cur)
            return cur
        cur = None
        for i, vn in enumerate(n.values):
            cur = self.eval(vn)
            if i == len(n.values) - 1:
                return cur
            t = self.truth(cur)
            if is_and:
                if not self.branch(t):
                    return cur
            else:
                if self.branch(t):
                    return cur
        return cur

    def e_UnaryOp(self, n):
        v = self.eval(n.operand)
        if isinstance(n.op, ast.Not):
            return B(z3.Not(self.truth(v)))
        if isinstance(n.op, ast.USub):
            if isinstance(v, SV):
                r, te, _ = ops.arith("-", I(0), v)
                self.maybe_raise(te, "TypeError", "unary -")
                return r
        raise OutsideSubset("unary op")

    def e_BinOp(self, n):
        a, b = self.eval(n.left), self.eval(n.right)
        op = {ast.Add: "+", ast.Sub: "-", ast.Mult: "*", ast.FloorDiv: "//", ast.Mod: "%", ast.Div: "/"}.get(type(n.op))
        if op is None:
            raise OutsideSubset("binop")
        return self.binop(op, a, b)

    def binop(self, op, a, b):
        if isinstance(a, Ref) or isinstance(b, Ref):
            if op == "+" and isinstance(a, Ref) and isinstance(b, Ref):
                oa, ob = self.heap[a.oid], self.heap[b.oid]
                if isinstance(oa, HList) and isinstance(ob, HList) and oa.elem == ob.elem:
                    return self.alloc(HList(oa.elem, z3.Concat(oa.seq, ob.seq)))
                if isinstance(oa, HList) and isinstance(ob, HTuple):
                    seq = oa.seq
                    for it in ob.items:
                        t, fits = ops.elem_term(oa.elem, self.as_scalar(it))
                        seq = z3.Concat(seq, z3.Unit(t))
                    return self.alloc(HList(oa.elem, seq))
                if isinstance(oa, HTuple) and isinstance(ob, HList):
                    seq = None
                    for it in oa.items:
                        t, fits = ops.elem_term(ob.elem, self.as_scalar(it))
                        seq = z3.Unit(t) if seq is None else z3.Concat(seq, z3.Unit(t))
                    return self.alloc(HList(ob.elem, ob.seq if seq is None else z3.Concat(seq, ob.seq)))
                if isinstance(oa, HTuple) and isinstance(ob, HTuple):
                    return self.alloc(HTuple(oa.items + ob.items))
            raise OutsideSubset(f"binop {op} on references")
        if op == "%" and a.kind == "str":
            raise OutsideSubset("% formatting")
        r, te, zd = ops.arith(op, a, b)
        self.maybe_raise(te, "TypeError", f"binop {op}")
        self.maybe_raise(zd, "ZeroDivisionError", f"binop {op}")
        return r

    def e_Compare(self, n):
        left = self.eval(n.left)
        res = []
        for op, rn in zip(n.ops, n.comparators):
            right = self.eval(rn)
            res.append(self.compare1(op, left, right))
            left = right
        return B(z3.And(res)) if len(res) > 1 else B(res[0])

    def compare1(self, op, a, b):
        if isinstance(op, (ast.Is, ast.IsNot)):
            r = self.identical(a, b)
            return z3.Not(r) if isinstance(op, ast.IsNot) else r
        if isinstance(op, (ast.Eq, ast.NotEq)):
            r = self.equal(a, b)
            return z3.Not(r) if isinstance(op, ast.NotEq) else r
        if isinstance(op, (ast.In, ast.NotIn)):
            r = self.contains(b, a)
            return z3.Not(r) if isinstance(op, ast.NotIn) else r
        sym = {ast.Lt: "<", ast.LtE: "<=", ast.Gt: ">", ast.GtE: ">="}[type(op)]
        if not (isinstance(a, SV) and isinstance(b, SV)):
            raise OutsideSubset("ordering on references")
        r, te = ops.compare(sym, a, b)
        self.maybe_raise(te, "TypeError", f"compare {sym}")
        return r

    def resolve_object(self, v):
        t = z3.simplify(ops.to_val(v))
        cands = [oid for oid, o in self.heap.items() if isinstance(o, HObj)]
        if z3.is_app(t) and t.decl().name() == "OpaqueV" and z3.is_int_value(t.arg(0)):
            k = t.arg(0).as_long()
            return Ref(k) if k in cands else None
        if len(cands) > 40:
            return None
        for oid in cands:
            if not getattr(self.heap[oid], "stored", False):
                continue
            if not self.feasible(t != Val.OpaqueV(z3.IntVal(oid))):
                return Ref(oid)
        return None

    def identical(self, a, b):
        if isinstance(a, ElemRef) or isinstance(b, ElemRef):
            if isinstance(a, ElemRef) and isinstance(b, ElemRef):
                if a.oid != b.oid or a.part != b.part or a.prefix != b.prefix:
                    return z3.BoolVal(False)
                return a.idx == b.idx
            other = b if isinstance(a, ElemRef) else a
            if isinstance(other, (Ref, SV)):
                # list elements are distinct from every separately named object (no-alias assumption) and from scalars
                return z3.BoolVal(False)
        if isinstance(a, Ref) and isinstance(b, Ref):
            return z3.BoolVal(a.oid == b.oid)
        if isinstance(a, Ref) or isinstance(b, Ref):
            other, r = (b, a) if isinstance(a, Ref) else (a, b)
            if isinstance(other, SV):
                if other.kind == "val" and (other.tags is None or "opaque" in other.tags) and isinstance(self.heap.get(r.oid), HObj):
                    # an object that was stored in a list[val] is represented there by its identity
                    return ops.to_val(other) == Val.OpaqueV(z3.IntVal(r.oid))
                return z3.BoolVal(False)
        if isinstance(a, SV) and isinstance(b, SV):
            return ops.same_object(a, b)
        if isinstance(a, ClassRef) and isinstance(b, ClassRef):
            return z3.BoolVal(a.name == b.name)
        raise OutsideSubset("is")

    def equal(self, a, b):
        # x.__class__ == str   (exact type of a scalar)
        for x, y in ((a, b), (b, a)):
            if isinstance(x, tuple) and len(x) == 3 and x[0] == "method" and x[2] == "__class__" and isinstance(x[1], SV):
                if isinstance(y, tuple) and y[0] == "builtin" and y[1] in ("str", "int", "bool", "float"):
                    return ops.tag_is(x[1], {"str": "str", "int": "int", "bool": "bool", "float": "real"}[y[1]])
                raise OutsideSubset("__class__ compared with something other than a builtin scalar type")
        if isinstance(a, ElemRef) or isinstance(b, ElemRef):
            return self.identical(a, b)
        if isinstance(a, EnumVal):
            a = self.const(a.value) if not isinstance(b, EnumVal) else a
        if isinstance(a, EnumVal) and isinstance(b, EnumVal):
            return z3.BoolVal(a.cls == b.cls and a.member == b.member)
        if isinstance(a, SV) and isinstance(b, SV):
            return ops.eq(a, b)
        if isinstance(a, Ref) and isinstance(b, Ref):
            oa, ob = self.heap[a.oid], self.heap[b.oid]
            if a.oid == b.oid:
                return z3.BoolVal(True)
            if isinstance(oa, HList) and isinstance(ob, HList):
                if oa.elem == ob.elem:
                    return oa.seq == ob.seq
                raise OutsideSubset("== of differently typed lists")
            if isinstance(oa, HList) and isinstance(ob, HTuple) or isinstance(ob, HList) and isinstance(oa, HTuple):
                if isinstance(oa, HTuple):
                    oa, ob = ob, oa
                if ob.is_tuple:
                    return z3.BoolVal(False)
                conj = [z3.Length(oa.seq) == len(ob.items)]
                for i, it in enumerate(ob.items):
                    if not isinstance(it, SV):
                        raise OutsideSubset("nested list ==")
                    conj.append(ops.eq(ops.elem_sv(oa.elem, oa.seq[i]), it))
                return z3.And(conj)
            if isinstance(oa, HTuple) and isinstance(ob, HTuple):
                if len(oa.items) != len(ob.items):
                    return z3.BoolVal(False)
                return z3.And([self.equal(x, y) for x, y in zip(oa.items, ob.items)] + [z3.BoolVal(True)])
            if isinstance(oa, HObj) and isinstance(ob, HObj):
                return z3.BoolVal(False)   # default object equality is identity
            if isinstance(oa, HDict) and isinstance(ob, HDict):
                return z3.And(oa.arr == ob.arr, oa.dom == ob.dom)
        if isinstance(a, Ref) or isinstance(b, Ref):
            r, s = (a, b) if isinstance(a, Ref) else (b, a)
            if isinstance(s, SV):
                if s.kind == "val":
                    return z3.BoolVal(False) if True else None
                return z3.BoolVal(False)
        raise OutsideSubset(f"== between {a} and {b}")

    def contains(self, container, item):
        if isinstance(container, ElemRef) and container.part == "obj" and self.const_str(item) is not None:
            has = self.elem_get(container, "has_" + self.const_str(item))
            if has is not None:
                return has.term
            return z3.BoolVal(self.elem_get(container, self.const_str(item)) is not None)
        if isinstance(container, SV):
            if container.kind in ("str", "val") and isinstance(item, SV) and item.kind in ("str", "val"):
                if container.kind == "val":
                    self.maybe_raise(z3.Not(ops.tag_is(container, "str")), "TypeError", "in on non-container")
                if item.kind == "val":
                    self.maybe_raise(z3.Not(ops.tag_is(item, "str")), "TypeError", "in str needs str")
                return z3.Contains(ops.as_str(container), ops.as_str(item))
            if self.spec_mode and isinstance(item, SV):
                # `x in <number>` is a TypeError in Python; inside a specification it only occurs under a type guard: unconstrained value
                return z3.Bool(fresh_name("in_nonstr"))
            if container.kind in ("int", "bool", "real", "none"):
                raise PyRaise("TypeError", "in on non-container")
            raise OutsideSubset(f"in on scalar {container}")
        if isinstance(container, Ref):
            o = self.heap[container.oid]
            if isinstance(o, HList):
                if isinstance(item, EnumVal):
                    item = self.const(item.value)
                if isinstance(item, Ref) and isinstance(self.heap.get(item.oid), HObj) and o.elem == "val":
                    item = self.as_scalar(item)
                if isinstance(item, ElemRef):
                    item = self.as_scalar(item)
                if not isinstance(item, SV):
                    return z3.BoolVal(False)
                if o.elem == "val":
                    # python == coerces bool/int; keep exact-constructor membership plus the numeric bridge out of scope
                    return z3.Contains(o.seq, z3.Unit(ops.to_val(item)))
                t, fits = ops.elem_term(o.elem, item)
                return z3.And(fits, z3.Contains(o.seq, z3.Unit(t)))
            if isinstance(o, HTuple):
                return z3.Or([self.equal(it, item) for it in o.items] + [z3.BoolVal(False)])
            if isinstance(o, HObjList):
                if isinstance(item, ElemRef) and item.oid == container.oid:
                    return z3.And(item.idx >= 0, item.idx < o.length)
                return z3.BoolVal(False)
            if isinstance(o, HRec):
                k = self.const_str(item)
                if k is None:
                    raise OutsideSubset("in record with symbolic key")
                return z3.BoolVal(k in o.items)
            if isinstance(o, HDict):
                if isinstance(item, SV) and item.kind in ("str", "val"):
                    pres = z3.And(ops.tag_is(item, "str"), z3.Select(o.dom, ops.as_str(item)))
                    self.pc.append(z3.Implies(pres, ops.dict_nonempty(o.dom)))     # a dict holding a key is truthy
                    return pres
                return z3.BoolVal(False)
        raise OutsideSubset("in")

    def e_IfExp(self, n):
        if self.spec_mode:
            c = self.truth(self.eval(n.test))
            a, b = self.eval(n.body), self.eval(n.orelse)
            if isinstance(a, SV) and isinstance(b, SV):
                return ops._mk_ite(c, a, b)
            if isinstance(a, Ref) and isinstance(b, Ref):
                oa, ob = self.heap[a.oid], self.heap[b.oid]
                if isinstance(oa, HList) and isinstance(ob, HList) and oa.elem == ob.elem:
                    return self.alloc(HList(oa.elem, z3.If(c, oa.seq, ob.seq)))
                if isinstance(oa, HList) and isinstance(ob, HTuple):
                    ob2 = self.heap[self.tuple_to_list(ob, oa.elem).oid]
                    return self.alloc(HList(oa.elem, z3.If(c, oa.seq, ob2.seq)))
                if isinstance(ob, HList) and isinstance(oa, HTuple):
                    oa2 = self.heap[self.tuple_to_list(oa, ob.elem).oid]
                    return self.alloc(HList(ob.elem, z3.If(c, oa2.seq, ob.seq)))
            raise OutsideSubset("conditional expression over references in spec")
        if self.branch(self.truth(self.eval(n.test))):
            return self.eval(n.body)
        return self.eval(n.orelse)

    def tuple_to_list(self, tup, elem):
        seq = z3.Empty(ops.seq_sort(elem))
        for it in tup.items:
            t, fits = ops.elem_term(elem, it)
            seq = z3.Concat(seq, z3.Unit(t))
        return self.alloc(HList(elem, z3.simplify(seq)))

    def e_List(self, n):
        t = HTuple([self.eval(e) for e in n.elts])
        t.literal = True
        return self.alloc(t)

    def e_Tuple(self, n):
        return self.alloc(HTuple([self.eval(e) for e in n.elts], is_tuple=True))

    def e_ListComp(self, n):
        """[<elt> for x in xs] with one generator and no condition: a fresh list of the same length whose elements are unconstrained.
        [A] the element expression is side-effect free and does not raise (noted in the evidence through ex.notes)."""
        if len(n.generators) != 1 or n.generators[0].ifs or n.generators[0].is_async:
            raise OutsideSubset("list comprehension with a condition or several generators")
        src = self.eval(n.generators[0].iter)
        if isinstance(src, Ref):
            o = self.heap[src.oid]
            if isinstance(o, HList):
                ln = z3.Length(o.seq)
            elif isinstance(o, HObjList):
                ln = o.length
            elif isinstance(o, HTuple):
                ln = z3.IntVal(len(o.items))
            else:
                raise OutsideSubset("list comprehension over a non-list")
            out = HList("val", z3.Const(fresh_name("listcomp"), ops.seq_sort("val")))
            self.pc.append(z3.Length(out.seq) == ln)
            self.notes.append(f"list comprehension at line {n.lineno}: elements abstracted (element expression assumed pure and non-raising)")
            return self.alloc(out)
        raise OutsideSubset("list comprehension over a scalar")

    def e_Dict(self, n):
        items = {}
        for k, v in zip(n.keys, n.values):
            if not (isinstance(k, ast.Constant) and isinstance(k.value, str)):
                raise OutsideSubset("dict literal with non-constant key")
            items[k.value] = self.eval(v)
        if not items:
            hook = getattr(self, "empty_dict_hook", None)
            if hook:
                return hook()
        return self.alloc(HRec(items))

    def e_JoinedStr(self, n):
        parts = []
        for v in n.values:
            if isinstance(v, ast.Constant):
                parts.append(z3.StringVal(v.value))
            elif isinstance(v, ast.FormattedValue):
                if v.format_spec is not None or v.conversion not in (-1, 115):
                    raise OutsideSubset("format spec")
                x = self.eval(v.value)
                parts.append(self.str_of(x))
        if not parts:
            return S("")
        return S(z3.Concat(parts) if len(parts) > 1 else parts[0])

    def str_of(self, x):
        if isinstance(x, SV):
            return ops.to_str(x)
        # objects/lists: opaque text
        return z3.String(fresh_name("repr"))

    def e_Subscript(self, n):
        base = self.eval(n.value)
        if isinstance(n.slice, ast.Slice):
            lo = self.eval(n.slice.lower) if n.slice.lower else None
            hi = self.eval(n.slice.upper) if n.slice.upper else None
            if n.slice.step is not None:
                raise OutsideSubset("slice step")
            return self.slice(base, lo, hi)
        idx = self.eval(n.slice)
        return self.index(base, idx)

    def const_str(self, v):
        if isinstance(v, SV) and v.kind == "str":
            t = z3.simplify(v.term)
            if z3.is_string_value(t):
                return t.as_string()
        return None

    def norm_index(self, idx, length):
        """python index normalisation for a possibly negative int"""
        i = ops.as_int(idx)
        return z3.If(i < 0, i + length, i)

    def index(self, base, idx):
        if isinstance(base, ElemRef) and base.part == "obj" and self.const_str(idx) is not None:
            # an element of a list of JSON records: e["key"]
            k = self.const_str(idx)
            has = self.elem_get(base, "has_" + k)
            if has is not None:
                self.maybe_raise(z3.Not(has.term), "KeyError", k)
            v = self.elem_get(base, k)
            if v is None:
                raise OutsideSubset(f"record key {k} has no declared type")
            return v
        if isinstance(base, ElemRef) and base.part == "obj" and isinstance(idx, SV) and idx.kind == "int" and z3.is_int_value(z3.simplify(idx.term)):
            v = self.elem_get(base, f"t{z3.simplify(idx.term).as_long()}")
            if v is not None:
                return v     # element of a list of tuples: e[0], e[1] are the declared fields t0, t1
        if isinstance(base, ElemRef) and base.part == "pair":
            k = z3.simplify(idx.term) if isinstance(idx, SV) and idx.kind == "int" else None
            if k is None or not z3.is_int_value(k):
                raise OutsideSubset("pair index must be constant")
            if k.as_long() == 0:
                return ElemRef(base.oid, base.idx, "obj")
            if k.as_long() == 1:
                return self.elem_get(ElemRef(base.oid, base.idx, "obj"), "__memo__")
            raise PyRaise("IndexError", "pair index")
        if isinstance(base, Ref) and isinstance(self.heap[base.oid], HObjList):
            o = self.heap[base.oid]
            if self.spec_mode and isinstance(idx, SV) and idx.kind in ("none", "val"):
                # guarded sub-expression of a clause: treat the index as its integer view (undefined where the guard is false)
                idx = I(ops.as_int(idx)) if idx.kind == "val" else I(z3.Int(fresh_name("undef")))
            if not (isinstance(idx, SV) and idx.kind in ("int", "bool")):
                raise OutsideSubset("object list index type")
            i = ops.as_int(idx)
            self.maybe_raise(z3.Or(i >= o.length, i < -o.length), "IndexError", "list index")
            # specifications index from the front only: no negative-index normalisation (keeps array reads usable as triggers)
            ni = i if self.spec_mode else self.norm_index(idx, o.length)
            if o.clsname.startswith("$"):
                typ, arr = o.fields["v"]
                t = z3.Select(arr, ni)
                return SV(typ, t) if typ in self.SORTS else ops.from_val(t)
            return ElemRef(base.oid, ni, "pair" if o.pair else "obj")
        if isinstance(base, Ref):
            o = self.heap[base.oid]
            if isinstance(o, HTuple):
                if isinstance(idx, SV) and idx.kind == "int":
                    t = z3.simplify(idx.term)
                    if z3.is_int_value(t):
                        k = t.as_long()
                        if -len(o.items) <= k < len(o.items):
                            return o.items[k]
                        if self.spec_mode:
                            raise OutsideSubset("spec index out of range")
                        raise PyRaise("IndexError", "tuple index")
                    # symbolic index into fixed items: case split
                    if self.spec_mode:
                        if all(isinstance(it, SV) for it in o.items) and o.items:
                            cur = ops.to_val(o.items[-1])
                            for k in range(len(o.items) - 2, -1, -1):
                                cur = z3.If(idx.term == k, ops.to_val(o.items[k]), cur)
                            return ops.from_val(cur)
                        raise OutsideSubset("symbolic index into fixed list in spec")
                    conds = [idx.term == k for k in range(len(o.items))]
                    rest = z3.Not(z3.Or(conds)) if conds else z3.BoolVal(True)
                    c = self.fork(conds + [rest])
                    if c == len(conds):
                        raise PyRaise("IndexError", "fixed list index")
                    return o.items[c]
                raise OutsideSubset("index type")
            if isinstance(o, HList):
                if self.spec_mode and isinstance(idx, SV) and idx.kind == "none":
                    # a guarded sub-expression of a clause (x is not None and xs[x] ...): any value will do where the guard is false
                    return ops.elem_sv(o.elem, z3.Const(fresh_name("undef"), ops.seq_sort(o.elem).basis()))
                if not (isinstance(idx, SV) and idx.kind in ("int", "val", "bool")):
                    raise OutsideSubset("list index type")
                ln = z3.Length(o.seq)
                i = ops.as_int(idx)
                self.maybe_raise(z3.Or(i >= ln, i < -ln), "IndexError", "list index")
                return ops.elem_sv(o.elem, o.seq[i if self.spec_mode else self.norm_index(idx, ln)])
            if isinstance(o, HRec):
                key = self.const_str(idx)
                if key is None:
                    raise OutsideSubset("record key must be a constant string")
                if key not in o.items:
                    if self.spec_mode:
                        raise OutsideSubset(f"record has no key {key}")
                    raise PyRaise("KeyError", key)
                return o.items[key]
            if isinstance(o, HDict):
                if isinstance(idx, SV) and idx.kind in ("str", "val"):
                    k = ops.as_str(idx)
                    self.maybe_raise(z3.Not(z3.And(ops.tag_is(idx, "str"), z3.Select(o.dom, k))), "KeyError", "dict key")
                    return ops.from_val(z3.Select(o.arr, k))
                raise OutsideSubset("dict key type")
        if isinstance(base, SV) and base.kind in ("str", "val"):
            if base.kind == "val":
                self.maybe_raise(z3.Not(ops.tag_is(base, "str")), "TypeError", "subscript of non-str")
            s = ops.as_str(base)
            ln = z3.Length(s)
            i = ops.as_int(idx)
            self.maybe_raise(z3.Or(i >= ln, i < -ln), "IndexError", "string index")
            return S(z3.SubString(s, self.norm_index(idx, ln), 1))
        raise OutsideSubset(f"subscript of {base}")

    def slice(self, base, lo, hi):
        if isinstance(base, ElemRef) and lo is None and hi is None:
            return base      # an equal copy of a record keeps its place in the record list (identity is not modelled)
        def bounds(ln):
            l = z3.IntVal(0) if lo is None or (isinstance(lo, SV) and lo.kind == "none") else ops.as_int(lo)
            h = ln if hi is None or (isinstance(hi, SV) and hi.kind == "none") else ops.as_int(hi)
            l = z3.If(l < 0, z3.If(l + ln < 0, 0, l + ln), z3.If(l > ln, ln, l))
            h = z3.If(h < 0, z3.If(h + ln < 0, 0, h + ln), z3.If(h > ln, ln, h))
            return l, z3.If(h - l < 0, 0, h - l)
        if isinstance(base, Ref):
            o = self.heap[base.oid]
            if isinstance(o, HList):
                l, cnt = bounds(z3.Length(o.seq))
                return self.alloc(HList(o.elem, z3.Extract(o.seq, l, cnt)))
            if isinstance(o, HTuple) and lo is None and hi is None:
                return self.alloc(HTuple(o.items, o.is_tuple))
            if isinstance(o, HObjList) and lo is None and hi is None:
                # a full copy `xs[:]` of an object list holds the same objects: modelled by the list itself, frozen in length from here on
                o.copied = True
                return base
        if isinstance(base, SV) and base.kind in ("str", "val"):
            if base.kind == "val":
                self.maybe_raise(z3.Not(ops.tag_is(base, "str")), "TypeError", "slice of non-str")
            s = ops.as_str(base)
            l, cnt = bounds(z3.Length(s))
            return S(z3.SubString(s, l, cnt))
        raise OutsideSubset("slice")

    # ------------------------------------------------------------------ calls
    def e_Call(self, n):
        # dropped calls: evaluate arguments (an AttributeError in a logging f-string is an obligation), skip the call
        if not self.spec_mode and DROPPED.is_dropped_call(n):
            for a in n.args:
                self.eval_for_effect(a)
            for k in n.keywords:
                self.eval_for_effect(k.value)
            return NONE
        dn = DROPPED.dotted(n.func)
        if dn in DROPPED.EXTERNAL_PURE:
            fname, rk = DROPPED.EXTERNAL_PURE[dn]
            vals = [self.eval(a) for a in n.args]
            return self.pure_external(fname, rk, vals)
        if dn == "json.dump" and not self.spec_mode:
            payload = self.eval(n.args[0])
            fh = self.eval(n.args[1])
            path = self.heap[fh.oid].fields.get("path") if isinstance(fh, Ref) and isinstance(self.heap[fh.oid], HObj) else None
            if isinstance(payload, Ref):
                snap = self.heap[payload.oid].clone()
                payload = self.alloc(snap)
            self.effects.append(("json.dump", path, payload))
            return NONE
        if dn == "shutil.copy" and not self.spec_mode and len(n.args) == 2 and not n.keywords:
            # recorded in the effect log as (kind, destination, source); the bytes copied are [A] shutil
            src, dst = self.eval(n.args[0]), self.eval(n.args[1])
            self.effects.append(("shutil.copy", dst, src))
            return NONE
        if dn in DROPPED.EXTERNAL_EFFECT and not self.spec_mode:
            for a in n.args:
                self.eval_for_effect(a)
            return NONE
        if not self.spec_mode and DROPPED.is_external_opaque(n):
            for a in n.args:
                self.eval_for_effect(a)
            kind = DROPPED.external_kind(n)
            if kind == "real":
                return SV("real", z3.Real(fresh_name("clock")))
            if kind == "int":
                return SV("int", z3.Int(fresh_name("clock")))
            t = z3.Const(fresh_name("ext"), Val)
            self.pc.append(Val.is_OpaqueV(t))
            return ops.V(t, ("opaque",))
        if self.spec_mode:
            r = self.spec_call(n)
            if r is not NotImplemented:
                return r
        if (isinstance(n.func, ast.Attribute) and isinstance(n.func.value, ast.Call) and isinstance(n.func.value.func, ast.Name)
                and n.func.value.func.id == "super" and not n.func.value.args):
            recv = self.locals.get("self")
            if not isinstance(recv, Ref) or self.cur_cls is None:
                raise OutsideSubset("super() outside a method")
            ocf = self.heap[recv.oid].cf
            mro = ocf.mro if ocf is not None else self.cur_cls.mro
            names = [c.name for c in mro]
            start = names.index(self.cur_cls.name) + 1 if self.cur_cls.name in names else 0
            for c in mro[start:]:
                if n.func.attr in c.methods:
                    args = [self.eval(a) for a in n.args]
                    kw = {k.arg: self.eval(k.value) for k in n.keywords}
                    return self.call_unit(c.methods[n.func.attr], recv, args, kw)
            return NONE      # object.__init__ and friends
        f = self.eval(n.func)
        args = [self.eval(a) for a in n.args]
        if any(isinstance(a, ast.Starred) for a in n.args):
            raise OutsideSubset("*args")
        kw = {k.arg: self.eval(k.value) for k in n.keywords}
        return self.apply(f, args, kw, n)

    def pure_external(self, fname, rk, vals):
        strs = []
        for v in vals:
            if not (isinstance(v, SV) and v.kind in ("str", "val")):
                raise OutsideSubset(f"{fname} on a non-string")
            strs.append(ops.as_str(v))
        if fname == "path_join":
            # os.path.join(a, b, c) == join(join(a, b), c)
            f = z3.Function("path_join", z3.StringSort(), z3.StringSort(), z3.StringSort())
            cur = strs[0]
            for nxt in strs[1:]:
                cur = f(cur, nxt)
            return S(cur)
        rs = z3.BoolSort() if rk == "bool" else z3.StringSort()
        f = z3.Function(fname, *([z3.StringSort()] * len(strs) + [rs]))
        t = f(*strs)
        return SV("bool", t) if rk == "bool" else S(t)

    def eval_for_effect(self, node):
        saved = (self.spec_mode, self.effect_mode)
        # arguments of dropped calls are evaluated without forking (conditional expressions become ite);
        # a missing attribute in them is still an AttributeError path
        self.spec_mode, self.effect_mode = True, True
        try:
            self.eval(node)
        except OutsideSubset:
            self.notes.append(f"dropped-call argument not modelled at line {getattr(node, 'lineno', '?')}")
        finally:
            self.spec_mode, self.effect_mode = saved

    def _unused_eval_for_effect(self, node):
        try:
            self.eval(node)
        except OutsideSubset:
            # an argument of a dropped call that is outside the subset cannot change contract state;
            # it can still raise: that gap is listed in the assumptions
            self.notes.append(f"dropped-call argument not modelled at line {getattr(node, 'lineno', '?')}")

    def apply(self, f, args, kw, n):
        if isinstance(f, tuple):
            tag = f[0]
            if tag == "builtin":
                return self.builtin(f[1], args, kw, n)
            if tag == "method":
                return self.value_method(f[1], f[2], args, kw, n)
            if tag == "boundmethod":
                return self.call_unit(f[2], f[1], args, kw)
            if tag == "classmethod":
                u = f[2]
                recv = f[1] if u.kind == "classmethod" else None
                if u.kind == "method":     # Class.method(obj, ...)
                    return self.call_unit(u, args[0], args[1:], kw)
                return self.call_unit(u, recv, args, kw, static=True)
        if isinstance(f, ClassRef):
            return self.construct(f, args, kw, n)
        raise OutsideSubset(f"call of {f}")

    def construct(self, cref, args, kw, n):
        # exception construction and the few value classes the target code builds
        name = cref.name
        is_exc = name in BUILTIN_EXC or (cref.cf is not None and (name.endswith("Exception") or name.endswith("Error")))
        if is_exc:
            o = HObj(name, cref.cf, fresh_name(name))
            o.fields["__exc__"] = TRUE
            if args:
                o.fields["message0"] = args[0]
            return self.alloc(o)
        if name in self.contract.stub_new and cref.cf is not None:
            o = HObj(name, cref.cf, fresh_name(name.lower()))
            o.fresh = True
            return self.alloc(o)
        if name in self.contract.opaque_new:
            t = z3.Const(fresh_name("new_" + name), Val)
            self.pc.append(Val.is_OpaqueV(t))
            return ops.V(t, ("opaque",))
        hook = getattr(self, "construct_hook", None)
        if hook:
            r = hook(cref, args, kw)
            if r is not None:
                return r
        if cref.cf is not None:
            lk = self.facts.lookup(cref.cf, "__init__")
            q = f"{name}.__init__"
            if lk and lk[0] == "method" and (q in self.contract.inline or lk[1].qualname in self.contract.inline):
                ref = self.alloc(HObj(name, cref.cf, fresh_name(name.lower())))
                self.heap[ref.oid].fresh = True
                self.inline(lk[1], ref, args, kw)
                return ref
            if lk and lk[0] == "method" and self.ctx.registry.callee(f"{lk[1].file}::{lk[1].qualname}"):
                # construction against the constructor's contract: a fresh object, then the modular call step
                ref = self.alloc(HObj(name, cref.cf, fresh_name(name.lower())))
                self.heap[ref.oid].fresh = True
                self.use_contract(lk[1], f"{lk[1].file}::{lk[1].qualname}", ref, args, kw)
                return ref
        raise OutsideSubset(f"construction of {name}")

    def builtin(self, name, args, kw, n):
        if name == "len":
            v = args[0]
            if isinstance(v, ElemRef):
                r = self.elem_get(v, "g_len")
                if r is None:
                    raise OutsideSubset("len() of a list element without g_len")
                return r
            if isinstance(v, Ref):
                o = self.heap[v.oid]
                if isinstance(o, HList):
                    return I(z3.Length(o.seq))
                if isinstance(o, HTuple):
                    return I(len(o.items))
                if isinstance(o, HObjList):
                    return I(o.length)
                if isinstance(o, HRec):
                    return I(len(o.items))
                if isinstance(o, HDict):
                    # the size of a symbolic dict: an uninterpreted function of its domain, non-negative, zero iff the dict is falsy
                    f = z3.Function("dict_len", o.dom.sort(), z3.IntSort())
                    n_ = f(o.dom)
                    self.pc.append(z3.And(n_ >= 0, (n_ > 0) == ops.dict_nonempty(o.dom)))
                    return I(n_)
            if isinstance(v, SV) and v.kind in ("str", "val"):
                if v.kind == "val":
                    self.maybe_raise(z3.Not(ops.tag_is(v, "str")), "TypeError", "len of non-str")
                return I(z3.Length(ops.as_str(v)))
            if isinstance(v, SV) and not self.spec_mode:
                raise PyRaise("TypeError", "len()")
            raise OutsideSubset("len")
        if name == "isinstance":
            return B(self.isinstance(args[0], args[1]))
        if name == "str":
            if not args:
                return S("")
            return S(self.str_of(args[0]))
        if name == "int":
            return self.to_int(args[0])
        if name == "float" and len(args) == 1 and isinstance(args[0], SV):
            v = args[0]
            if v.kind in ("int", "bool"):
                return SV("real", z3.ToReal(ops.as_int(v)))
            if v.kind == "real":
                return v
            if v.kind == "str":
                # float(str): an uninterpreted total function of the text plus an uninterpreted "parses" predicate ([A]: nothing else is known about it)
                ok = z3.Function("py_float_ok", z3.StringSort(), z3.BoolSort())
                fo = z3.Function("py_float_of", z3.StringSort(), z3.RealSort())
                self.maybe_raise(z3.Not(ok(v.term)), "ValueError", "float(str)")
                return SV("real", fo(v.term))
            if v.kind == "val" and v.tags is not None and set(v.tags) <= {"none", "int", "bool", "real"}:
                t = v.term
                if "none" in v.tags:
                    self.maybe_raise(Val.is_NoneV(t), "TypeError", "float(None)")
                return SV("real", z3.If(Val.is_RealV(t), Val.rv(t), z3.ToReal(ops.as_int(v))))
            raise OutsideSubset("float() of a dynamically typed value")
        if name == "bool":
            return B(self.truth(args[0]))
        if name == "max" or name == "min":
            if len(args) == 1 and isinstance(args[0], Ref):
                o = self.heap[args[0].oid]
                if isinstance(o, HList) and o.elem == "int":
                    self.maybe_raise(z3.Length(o.seq) == 0, "ValueError", f"{name}() of empty")
                    fn = ops.seq_max if name == "max" else ops.seq_min
                    m = fn(o.seq)
                    key = (name, o.seq.get_id())
                    if key not in self.axioms_done:
                        self.axioms_done.add(key)
                        j = z3.Int(fresh_name("j"))
                        bound = (o.seq[j] <= m) if name == "max" else (o.seq[j] >= m)
                        self.pc.append(z3.ForAll([j], z3.Implies(z3.And(j >= 0, j < z3.Length(o.seq)), bound)))
                        self.pc.append(z3.Implies(z3.Length(o.seq) > 0, z3.Contains(o.seq, z3.Unit(m))))
                    return I(m)
            if len(args) == 2 and all(isinstance(a, SV) and a.kind in ("int", "bool") for a in args):
                x, y = ops.as_int(args[0]), ops.as_int(args[1])
                return I(z3.If((x >= y) if name == "max" else (x <= y), x, y))
            raise OutsideSubset(name)
        if name == "abs" and isinstance(args[0], SV) and args[0].kind == "int":
            return I(z3.If(args[0].term < 0, -args[0].term, args[0].term))
        if name == "hasattr":
            obj, an = args[0], self.const_str(args[1])
            if isinstance(obj, Ref) and isinstance(self.heap[obj.oid], HObj) and an is not None:
                o = self.heap[obj.oid]
                if an in o.fields:
                    return TRUE
                if o.cf is not None and self.facts.lookup(o.cf, an) is not None:
                    return TRUE
                if self.types_lookup(f"{o.path}.{an}", o, an) is not None:
                    # declared as possibly present: ghost flag has_<attr>
                    flag = o.fields.get("__has_" + an)
                    if flag is None:
                        flag = SV("bool", z3.Bool(fresh_name(f"{o.path}.has_{an}")))
                        o.fields["__has_" + an] = flag
                    return flag
                if o.cf is None and not getattr(o, "fresh", False):
                    raise OutsideSubset(f"hasattr({o.path}, {an!r}) on an untyped input object: declare the attribute's type to make its presence symbolic")
                return FALSE
            raise OutsideSubset("hasattr")
        if name == "list":
            if not args:
                return self.alloc(HTuple([]))
            if isinstance(args[0], Ref):
                o = self.heap[args[0].oid]
                return self.alloc(o.clone() if not isinstance(o, HTuple) else HTuple(o.items))
        raise OutsideSubset(f"builtin {name}")

    def isinstance(self, v, cls):
        if isinstance(v, ElemRef):
            cname = cls[1] if isinstance(cls, tuple) else getattr(cls, "name", None)
            if isinstance(cls, Ref):
                return z3.Or([self.isinstance(v, c) for c in self.heap[cls.oid].items])
            lst = self.heap[v.oid]
            if v.part == "pair":
                return z3.BoolVal(cname == "list")
            return z3.BoolVal(lst.cf is not None and self.facts.is_subclass(lst.cf, cname))
        if isinstance(cls, Ref):     # tuple of classes
            o = self.heap[cls.oid]
            return z3.Or([self.isinstance(v, c) for c in o.items])
        cname = cls[1] if isinstance(cls, tuple) else cls.name
        if isinstance(v, Ref):
            o = self.heap[v.oid]
            if isinstance(o, HList):
                return z3.BoolVal(cname == "list")
            if isinstance(o, HTuple):
                return z3.BoolVal(cname == ("tuple" if o.is_tuple else "list"))
            if isinstance(o, (HDict, HRec)):
                return z3.BoolVal(cname == "dict")
            if isinstance(o, HObjList):
                return z3.BoolVal(cname == "list")
            if isinstance(o, HObj):
                if o.cf is not None:
                    return z3.BoolVal(self.facts.is_subclass(o.cf, cname) or exc_is_a(self.facts, o.clsname, cname) if o.fields.get("__exc__") is not None else self.facts.is_subclass(o.cf, cname))
                if o.clsname in BUILTIN_EXC:
                    return z3.BoolVal(exc_is_a(self.facts, o.clsname, cname))
                raise OutsideSubset(f"isinstance on object of unknown class {o.path}")
        if isinstance(v, SV) and v.kind == "val" and (v.tags is None or "opaque" in v.tags):
            r = self.resolve_object(v)
            if r is not None:
                return self.isinstance(r, cls)
        if isinstance(v, SV):
            tagmap = {"int": ("int", "bool"), "bool": ("bool",), "str": ("str",), "float": ("real",)}
            if cname in tagmap:
                return z3.Or([ops.tag_is(v, t) for t in tagmap[cname]])
            if cname in ("list", "dict", "tuple"):
                return z3.BoolVal(False)
            if v.kind == "val":
                # opaque values may be objects of any class: an uninterpreted (deterministic) predicate of the object's identity, pinned for the objects
                # of known class that this path has stored as values
                t = ops.to_val(v)
                term = z3.Function(f"isinst_{cname}", Val, z3.BoolSort())(t)
                for oid, o in self.heap.items():
                    if isinstance(o, HObj) and getattr(o, "stored", False) and o.cf is not None:
                        term = z3.If(t == Val.OpaqueV(z3.IntVal(oid)), z3.BoolVal(self.facts.is_subclass(o.cf, cname)), term)
                return z3.And(ops.tag_is(v, "opaque"), term)
            return z3.BoolVal(False)
        raise OutsideSubset("isinstance")

    def to_int(self, v):
        if isinstance(v, SV):
            if v.kind in ("int", "bool"):
                return I(ops.as_int(v))
            if v.kind == "real":
                raise OutsideSubset("int(real)")
            if v.kind == "none":
                raise PyRaise("TypeError", "int(None)")
            if v.kind == "str":
                for ax in ops.int_parse_axioms(v.term):
                    self.pc.append(ax)
                self.maybe_raise(z3.Not(ops.py_int_ok(v.term)), "ValueError", "int(str)")
                return I(ops.py_int_of(v.term))
            # val
            t = v.term
            self.maybe_raise(z3.Or(Val.is_NoneV(t), Val.is_OpaqueV(t)), "TypeError", "int()")
            if self.feasible(Val.is_RealV(t)):
                raise OutsideSubset("int(real) dynamic")
            s = Val.sv(t)
            for ax in ops.int_parse_axioms(s):
                self.pc.append(z3.Implies(Val.is_StrV(t), ax))
            self.maybe_raise(z3.And(Val.is_StrV(t), z3.Not(ops.py_int_ok(s))), "ValueError", "int(str)")
            return I(z3.If(Val.is_StrV(t), ops.py_int_of(s), ops.as_int(v)))
        raise PyRaise("TypeError", "int(ref)")

    # ---- methods on values (str / list / dict) --------------------------------
    def value_method(self, recv, name, args, kw, n):
        if isinstance(recv, SV):
            return self.str_method(recv, name, args, kw)
        o = self.heap[recv.oid]
        if isinstance(o, HObjList) and getattr(o, "copied", False) and name in ("append", "pop", "remove", "insert", "extend", "clear"):
            raise OutsideSubset("structural change of an object list after a full-slice copy of it was taken")
        if isinstance(o, HObjList) and name == "append" and o.clsname.startswith("$"):
            typ, arr = o.fields["v"]
            v = self.as_scalar(args[0])
            if typ in self.SORTS:
                if v.kind == typ:
                    term = v.term
                elif v.kind == "val" and typ == "str":
                    if self.feasible(z3.Not(ops.tag_is(v, "str"))):
                        raise OutsideSubset("value appended to alist[str] may not be a string")
                    term = ops.as_str(v)
                elif v.kind in ("val", "bool") and typ == "int":
                    term = ops.as_int(v)
                else:
                    raise OutsideSubset(f"append {v.kind} to alist[{typ}]")
            else:
                term = ops.to_val(v)
            o.fields["v"] = (typ, z3.Store(arr, o.length, term))
            o.length = o.length + 1
            return NONE
        if isinstance(o, HObjList) and name == "append":
            item = args[0]
            src = self.heap[item.oid] if isinstance(item, Ref) else None
            for k, (typ, arr) in list(o.fields.items()):
                val = None
                if isinstance(src, HRec):
                    if k in src.items:
                        val = src.items[k]
                    elif k.startswith("has_"):
                        val = B(k[4:] in src.items)
                if isinstance(src, HTuple) and re.fullmatch(r"t\d+", k) and int(k[1:]) < len(src.items):
                    val = src.items[int(k[1:])]     # a tuple appended to a list of records with fields t0, t1, ...
                if isinstance(val, SV):
                    if typ in self.SORTS and val.kind == typ:
                        term = val.term
                    elif typ not in self.SORTS:
                        term = ops.to_val(val)
                    else:
                        term = None
                    if term is not None:
                        o.fields[k] = (typ, z3.Store(arr, o.length, term))
                        continue
                fresh = z3.Const(fresh_name(f"{o.path}.new.{k}"), arr.sort().range())
                o.fields[k] = (typ, z3.Store(arr, o.length, fresh))
            o.length = o.length + 1
            return NONE
        if isinstance(o, HList):
            return self.list_method(recv, o, name, args)
        if isinstance(o, HTuple):
            return self.tuple_method(recv, o, name, args)
        if isinstance(o, HDict):
            return self.dict_method(recv, o, name, args)
        raise OutsideSubset(f"method {name}")

    STR_ONLY = {"strip", "lstrip", "rstrip", "lower", "upper", "find", "rfind", "startswith", "endswith", "isdecimal", "isdigit", "isnumeric", "isalpha",
                "isalnum", "split", "rsplit", "replace", "join", "format", "title", "capitalize", "splitlines", "encode", "partition", "zfill", "isspace"}

    def str_method(self, recv, name, args, kw):
        if name not in self.STR_ONLY and not (recv.kind == "str"):
            # only for methods that exist on str and on no other scalar type is "not a str" an AttributeError
            raise OutsideSubset(f"method .{name} on a scalar of kind {recv.kind}")
        if recv.kind == "val":
            self.maybe_raise(z3.Not(ops.tag_is(recv, "str")), "AttributeError", f".{name} on non-str")
        elif recv.kind != "str":
            if self.spec_mode:
                raise OutsideSubset(f"str method on {recv.kind}")
            raise PyRaise("AttributeError", f".{name} on {recv.kind}")
        s = ops.as_str(recv)

        def sarg(i):
            a = args[i]
            if not isinstance(a, SV):
                raise OutsideSubset("str method arg")
            if a.kind == "val":
                self.maybe_raise(z3.Not(ops.tag_is(a, "str")), "TypeError", f".{name} arg")
            elif a.kind != "str":
                raise PyRaise("TypeError", f".{name} arg")
            return ops.as_str(a)
        if name == "strip" and not args:
            key = ("strip", s.get_id())
            if key not in self.axioms_done:
                self.axioms_done.add(key)
                self.pc.extend(ops.strip_axioms(s))
            return S(ops.py_strip(s))
        if name in ("lstrip", "rstrip") and len(args) == 1:
            ch = sarg(0)
            chc = z3.simplify(ch)
            if z3.is_string_value(chc) and len(chc.as_string()) == 1:
                f = z3.Function(f"py_{name}_{ord(chc.as_string())}", z3.StringSort(), z3.StringSort())
                r = f(s)
                key = (name, chc.as_string(), s.get_id())
                if key not in self.axioms_done:
                    self.axioms_done.add(key)
                    if name == "lstrip":
                        self.pc += [z3.SuffixOf(r, s), z3.Not(z3.PrefixOf(chc, r)),
                                    z3.Implies(z3.Not(z3.PrefixOf(chc, s)), r == s)]
                    else:
                        self.pc += [z3.PrefixOf(r, s), z3.Not(z3.SuffixOf(chc, r)),
                                    z3.Implies(z3.Not(z3.SuffixOf(chc, s)), r == s)]
                    # a consequence stated outright (the string solver is slow to derive it): nothing to strip when the character does not occur at all
                    self.pc.append(z3.Implies(z3.Not(z3.Contains(s, chc)), r == s))
                return S(r)
            raise OutsideSubset(f"{name} with non-constant char")
        if name == "lower":
            return S(ops.py_lower(s))
        if name == "upper":
            return S(ops.py_upper(s))
        if name == "find":
            return I(z3.IndexOf(s, sarg(0), 0))
        if name == "rfind" and len(args) == 1:
            return I(z3.LastIndexOf(s, sarg(0)))
        if name == "startswith":
            return B(z3.PrefixOf(sarg(0), s))
        if name == "endswith":
            return B(z3.SuffixOf(sarg(0), s))
        if name in ("isdecimal", "isdigit"):
            # ASCII reading: non-empty and all decimal digits  ([A]: other Unicode decimal digits are not modelled)
            f = z3.Function("py_isdecimal", z3.StringSort(), z3.BoolSort())
            key = ("isdecimal", s.get_id())
            if key not in self.axioms_done:
                self.axioms_done.add(key)
                self.pc.append(f(s) == (z3.StrToInt(s) >= 0))
                self.pc += ops.int_parse_axioms(s)
            return B(f(s))
        raise OutsideSubset(f"str.{name}")

    def list_method(self, ref, o, name, args):
        if name == "append":
            t, fits = ops.elem_term(o.elem, self.as_scalar(args[0]))
            self.need_fit(fits, o.elem)
            if o.elem == "int":
                # unfolding of the recursive spec predicate strictly_increasing at this append
                x = z3.Int(fresh_name("x"))
                new = z3.Concat(o.seq, z3.Unit(t))
                below = z3.ForAll([x], z3.Implies(z3.Contains(o.seq, z3.Unit(x)), x < t), patterns=[z3.Contains(o.seq, z3.Unit(x))])
                self.pc.append(ops.seq_incr(new) == z3.And(ops.seq_incr(o.seq), below))
            if "append_nth" in getattr(self.contract, "lemmas", ()):
                # a true fact about concatenation the sequence solver does not find by itself: appending keeps every position and puts x at the end
                old_seq, new_seq = o.seq, z3.Concat(o.seq, z3.Unit(t))
                qi = z3.Int(fresh_name("ap"))
                self.pc.append(z3.ForAll([qi], z3.Implies(z3.And(qi >= 0, qi < z3.Length(old_seq)), new_seq[qi] == old_seq[qi])))
                self.pc.append(new_seq[z3.Length(old_seq)] == t)
            o.seq = z3.Concat(o.seq, z3.Unit(t))
            self.written_paths.add(("heap", ref.oid))
            return NONE
        if name == "extend":
            src = args[0]
            if isinstance(src, Ref):
                so = self.heap[src.oid]
                if isinstance(so, HList) and so.elem == o.elem:
                    o.seq = z3.Concat(o.seq, so.seq)
                    return NONE
                if isinstance(so, HTuple):
                    for it in so.items:
                        t, fits = ops.elem_term(o.elem, self.as_scalar(it))
                        self.need_fit(fits, o.elem)
                        o.seq = z3.Concat(o.seq, z3.Unit(t))
                    return NONE
            raise OutsideSubset("extend")
        if name == "index":
            t, fits = ops.elem_term(o.elem, self.as_scalar(args[0]))
            pres = z3.And(fits, z3.Contains(o.seq, z3.Unit(t)))
            self.maybe_raise(z3.Not(pres), "ValueError", "list.index")
            return I(z3.IndexOf(o.seq, z3.Unit(t), 0))
        if name == "pop" and not args:
            ln = z3.Length(o.seq)
            self.maybe_raise(ln == 0, "IndexError", "pop from empty list")
            v = ops.elem_sv(o.elem, o.seq[ln - 1])
            o.seq = z3.Extract(o.seq, 0, ln - 1)
            return v
        if name == "copy":
            return self.alloc(o.clone())
        raise OutsideSubset(f"list.{name}")

    def tuple_method(self, ref, o, name, args):
        if name == "append" and not o.is_tuple:
            o.items.append(args[0])
            return NONE
        if name == "extend" and not o.is_tuple and isinstance(args[0], Ref) and isinstance(self.heap[args[0].oid], HTuple):
            o.items.extend(self.heap[args[0].oid].items)
            return NONE
        raise OutsideSubset(f"fixed list .{name}")

    def dict_method(self, ref, o, name, args):
        if name == "get":
            k = args[0]
            dflt = args[1] if len(args) > 1 else NONE
            if isinstance(k, SV) and k.kind in ("str", "val") and isinstance(dflt, SV):
                ks = ops.as_str(k)
                pres = z3.And(ops.tag_is(k, "str"), z3.Select(o.dom, ks))
                return ops.from_val(z3.If(pres, z3.Select(o.arr, ks), ops.to_val(dflt)))
        raise OutsideSubset(f"dict.{name}")

    def as_scalar(self, v):
        if isinstance(v, EnumVal):
            return self.const(v.value)
        if isinstance(v, ElemRef):
            # an element of an object list, stored in a typed list, is its index in that list
            return I(v.idx)
        if isinstance(v, Ref) and isinstance(self.heap.get(v.oid), HObj):
            # an object stored in a list[val] is its identity
            o = self.heap[v.oid]
            ident = Val.OpaqueV(z3.IntVal(v.oid))
            if getattr(o, "fresh", False) and not getattr(o, "stored", False):
                # an object constructed by this call is not among the values the entry state holds (lists and scalar fields of Val materialised so far)
                entry = self.old_stack[0] if getattr(self, "old_stack", None) else self.old_state
                for oo in ((entry or {}).get("heap") or {}).values():
                    if isinstance(oo, HList) and oo.elem == "val":
                        qi = z3.Int(fresh_name("fr"))
                        self.pc.append(z3.ForAll([qi], z3.Implies(z3.And(qi >= 0, qi < z3.Length(oo.seq)), oo.seq[qi] != ident)))   # (no explicit pattern: z3 rewrites seq.nth, a pattern on it never matches)
                    elif isinstance(oo, HObj):
                        for fv in oo.fields.values():
                            if isinstance(fv, SV) and fv.kind == "val":
                                self.pc.append(fv.term != ident)
            o.stored = True
            return ops.V(ident, ("opaque",))
        if not isinstance(v, SV):
            raise OutsideSubset("reference stored in a typed list")
        return v

    def need_fit(self, fits, elem):
        fits = z3.simplify(fits)
        if z3.is_true(fits):
            return
        # storing a value of the wrong static type in a typed list is a modelling gap, not a Python error
        if not self.feasible(z3.Not(fits)):
            return
        raise OutsideSubset(f"value may not fit list[{elem}]")

    # ---- calls of repository functions ------------------------------------------------
    def call_unit(self, unit, recv, args, kw, prop=False, static=False):
        target = f"{unit.file}::{unit.qualname}"
        if unit.kind == "setter":
            target += ".setter"
        policy = self.call_policy(unit, target)
        if policy == "dropped":
            return NONE
        if policy == "inline":
            return self.inline(unit, recv, args, kw, static)
        if policy == "contract":
            return self.use_contract(unit, target, recv, args, kw)
        raise OutsideSubset(f"call of {unit.qualname} has neither contract nor inline permission in {self.contract.ident}")

    def call_policy(self, unit, target):
        if DROPPED.is_dropped_unit(unit):
            return "dropped"
        q = unit.qualname + (".setter" if unit.kind == "setter" else "")
        if q in self.contract.inline or unit.qualname in self.contract.inline:
            return "inline"
        if self.ctx.registry.callee(target):
            return "contract"
        # trivial properties (single return of an attribute / single assignment) are inlined mechanically
        if unit.kind in ("property", "setter") and DROPPED.is_trivial_accessor(unit):
            return "inline"
        return None

    def bind_params(self, unit, recv, args, kw, static):
        a = unit.node.args
        params = [p.arg for p in a.posonlyargs + a.args]
        env = {}
        pos = list(args)
        if unit.kind in ("method", "property", "setter") and not static:
            pos = [recv] + pos
        elif unit.kind == "classmethod":
            pos = [recv] + pos
        if len(pos) > len(params):
            raise OutsideSubset(f"too many positional args for {unit.qualname}")
        for p, v in zip(params, pos):
            env[p] = v
        defaults = a.defaults
        dparams = params[len(params) - len(defaults):] if defaults else []
        for p in params[len(pos):]:
            if p in kw:
                env[p] = kw[p]
            elif p in dparams:
                env[p] = ("default", defaults[dparams.index(p)])
            else:
                raise OutsideSubset(f"missing arg {p} for {unit.qualname}")
        for p, d in zip(a.kwonlyargs, a.kw_defaults):
            if p.arg in kw:
                env[p.arg] = kw[p.arg]
            elif d is not None:
                env[p.arg] = ("default", d)
            else:
                raise OutsideSubset(f"missing kwonly {p.arg}")
        for k in kw:
            if k not in env:
                raise OutsideSubset(f"unexpected kw {k}")
        return env

    def inline(self, unit, recv, args, kw, static=False):
        if len(self.frames) >= self.MAX_INLINE_DEPTH:
            raise OutsideSubset("inline depth")
        env = self.bind_params(unit, recv, args, kw, static)
        saved = (self.locals, self.cur_file, self.cur_cls, self.loop_counter)
        self.locals = {}
        self.cur_file, self.cur_cls = unit.file, unit.cls
        self.loop_counter = [None, unit.qualname]      # loops inside inlined callees are keyed by callee name
        for k, v in env.items():
            if isinstance(v, tuple) and v and v[0] == "default":
                v = self.eval(v[1])
            self.locals[k] = v
        self.frames.append(unit)
        try:
            self.exec_block(DROPPED.strip_body(unit.node.body))
            ret = NONE
        except ReturnSig as r:
            ret = r.value
        finally:
            self.frames.pop()
            self.locals, self.cur_file, self.cur_cls, self.loop_counter = saved
        return ret

    # -- modular call: assert pre, havoc frame, assume post --------------------------------
    def use_contract(self, unit, target, recv, args, kw):
        cands = self.ctx.registry.callee(target)
        want = getattr(self.contract, "callee_variants", {}).get(unit.qualname)
        if want is not None:
            cands = [c for c in cands if c.variant == want]
        else:
            dflt = [c for c in cands if c.native.get("callee_default")]
            cands = dflt or [c for c in cands if c.variant == ""] or cands
        if len(cands) != 1:
            raise OutsideSubset(f"{len(cands)} contract variants for callee {target}; mark one callee_default")
        cc = cands[0]
        env = self.bind_params(unit, recv, args, kw, False)
        for k, v in list(env.items()):
            if isinstance(v, tuple) and v and v[0] == "default":
                env[k] = self.eval(v[1])
        sub = CalleeView(self, cc, env)
        return sub.run()

    # ------------------------------------------------------------------ spec language
    def spec_call(self, n):
        f = n.func
        if isinstance(f, ast.Name):
            nm = f.id
            if nm == "old":
                return self.freeze_old(self.in_old(lambda: self.eval(n.args[0])))
            if nm == "implies":
                a = self.truth(self.eval(n.args[0]))
                b = self.truth(self.eval(n.args[1]))
                return B(z3.Implies(a, b))
            if nm == "iff":
                return B(self.truth(self.eval(n.args[0])) == self.truth(self.eval(n.args[1])))
            if nm in ("forall_int", "exists_int", "forall_str", "exists_str", "forall_val", "exists_val"):
                lam = n.args[-1]
                if not isinstance(lam, ast.Lambda):
                    raise OutsideSubset("quantifier needs a lambda")
                srt = {"int": z3.IntSort(), "str": z3.StringSort(), "val": Val}[nm.split("_")[1]]
                kind = nm.split("_")[1]
                names = [a.arg for a in lam.args.args]
                consts = [z3.Const(fresh_name(x), srt) for x in names]
                saved = self.bound
                self.bound = dict(saved)
                for x, c in zip(names, consts):
                    self.bound[x] = SV(kind, c)
                try:
                    body = self.truth(self.eval(lam.body))
                finally:
                    self.bound = saved
                if len(n.args) == 3:   # forall_int(lo, hi, lambda i: ...)
                    lo, hi = ops.as_int(self.eval(n.args[0])), ops.as_int(self.eval(n.args[1]))
                    rng = z3.And([z3.And(c >= lo, c < hi) for c in consts])
                    body = z3.Implies(rng, body) if nm.startswith("forall") else z3.And(rng, body)
                pats = infer_patterns(consts, body)
                if pats:
                    return B(z3.ForAll(consts, body, patterns=pats) if nm.startswith("forall") else z3.Exists(consts, body, patterns=pats))
                return B(z3.ForAll(consts, body) if nm.startswith("forall") else z3.Exists(consts, body))
            if nm == "unchanged":
                conj = []
                for a in n.args:
                    cur = self.eval(a)
                    old = self.freeze_old(self.in_old(lambda a=a: self.eval(a)))
                    conj.append(self.same_value(cur, old))
                return B(z3.And(conj) if conj else z3.BoolVal(True))
            if nm == "tag":
                v = self.eval(n.args[0])
                return B(ops.tag_is(v, n.args[1].value))
            if nm == "truthy":
                return B(self.truth(self.eval(n.args[0])))
            if nm == "str_of":
                return S(self.str_of(self.eval(n.args[0])))
            if nm == "strip":
                v = self.eval(n.args[0])
                return self.str_method(v, "strip", [], {})
            if nm == "seq_contains":
                return B(self.contains(self.eval(n.args[0]), self.eval(n.args[1])))
            if nm == "same":
                return B(self.same_value(self.eval(n.args[0]), self.eval(n.args[1])))
            if nm == "is_fresh":
                v = self.eval(n.args[0])
                return B(z3.BoolVal(isinstance(v, Ref) and v.oid not in self.old_state["heap"]))
            if nm in ("fs_exists", "fs_isfile", "fs_isdir", "path_join", "path_basename", "path_dirname"):
                vals = [self.eval(a) for a in n.args]
                return self.pure_external(nm, "bool" if nm.startswith("fs_") else "str", vals)
            if nm == "float_of":
                v = self.eval(n.args[0])
                return SV("real", z3.Function("py_float_of", z3.StringSort(), z3.RealSort())(ops.as_str(v)))
            if nm == "int_of":
                v = self.eval(n.args[0])
                return I(ops.py_int_of(ops.as_str(v)))
            if nm == "effects_count":
                kind = n.args[0].value
                return I(len([e for e in self.effects if e[0] == kind]))
            if nm == "effect_payload":
                kind, k = n.args[0].value, n.args[1].value
                es = [e for e in self.effects if e[0] == kind]
                if k >= len(es):
                    raise OutsideSubset("no such effect on this path: guard the clause with effects_count")
                return es[k][2]
            if nm == "effect_path":
                kind, k = n.args[0].value, n.args[1].value
                es = [e for e in self.effects if e[0] == kind]
                if k >= len(es):
                    raise OutsideSubset("no such effect on this path")
                return es[k][1]
            if nm == "split_dot":
                return self.alloc(HList("str", ops.split_dot(ops.as_str(self.eval(n.args[0])))))
            if nm == "iota":
                k = ops.as_int(self.eval(n.args[0]))
                return self.alloc(HList("int", ops.iota(k)))
            if nm == "prefix_sum":
                # prefix_sum(objlist, 'field', k) = sum of field over elements [0, k)   (recursive spec function, unfolded by the solver)
                lref = self.eval(n.args[0])
                fld = n.args[1].value
                k = ops.as_int(self.eval(n.args[2]))
                lst = self.heap[lref.oid]
                typ, arr = self.elem_field_array(lst, fld)
                return I(ops.prefix_sum(arr, k))
            if nm == "strictly_increasing":
                v = self.eval(n.args[0])
                o = self.heap[v.oid]
                if not (isinstance(o, HList) and o.elem == "int"):
                    raise OutsideSubset("strictly_increasing needs list[int]")
                self.pc.append(z3.Implies(z3.Length(o.seq) == 0, ops.seq_incr(o.seq)))
                return B(ops.seq_incr(o.seq))
            if nm == "ghost":
                return self.ghost[n.args[0].value]
            if nm in ("ufun_bool", "ufun_val", "ufun_int", "ufun_str"):
                fname = n.args[0].value
                vals = [self.eval(a) for a in n.args[1:]]
                rs = {"bool": z3.BoolSort(), "val": Val, "int": z3.IntSort(), "str": z3.StringSort()}[nm.split("_")[1]]
                f = z3.Function("spec_" + fname, *([Val] * len(vals) + [rs]))
                t = f(*[ops.to_val(v) for v in vals])
                k = nm.split("_")[1]
                return ops.from_val(t) if k == "val" else SV(k, t)
            if nm in getattr(self.contract, "opaque", ()):
                vals = [self.eval(a) for a in n.args]
                if not all(isinstance(v, SV) for v in vals):
                    raise OutsideSubset("opaque macro over references")
                f = z3.Function("opq_" + nm, *([Val] * len(vals) + [z3.BoolSort()]))
                return SV("bool", f(*[ops.to_val(v) for v in vals]))
            if nm in self.contract.macros or nm in getattr(self, "extra_macros", {}):
                params, body = (self.contract.macros.get(nm) or self.extra_macros[nm])
                vals = [self.eval(a) for a in n.args]
                saved = self.bound
                self.bound = {**saved, **dict(zip(params, vals))}
                try:
                    return self.eval(ast.parse(body, mode="eval").body)
                finally:
                    self.bound = saved
        return NotImplemented

    def same_value(self, a, b):
        """structural equality of two values of the same shape (used by unchanged / frame)"""
        if isinstance(a, ElemRef) or isinstance(b, ElemRef):
            if isinstance(a, ElemRef) and isinstance(b, ElemRef):
                la, lb = self.heap.get(a.oid), self.heap.get(b.oid)
                same_list = a.oid == b.oid or getattr(la, "orig", a.oid) == getattr(lb, "orig", b.oid)
                return z3.And(z3.BoolVal(same_list and a.part == b.part and a.prefix == b.prefix), a.idx == b.idx)
            return z3.BoolVal(False)
        if isinstance(a, SV) and isinstance(b, SV):
            if a.kind == b.kind and a.kind != "val":
                return z3.BoolVal(True) if a.kind == "none" else a.term == b.term
            return ops.to_val(a) == ops.to_val(b)
        if isinstance(a, Ref) and isinstance(b, Ref):
            ha = self.heap.get(a.oid)
            hb = self.heap.get(b.oid)
            if hb is None and self.old_state:
                hb = self.old_state["heap"].get(b.oid)
            if isinstance(ha, HList) and isinstance(hb, HList):
                return z3.And(z3.BoolVal(getattr(ha, "orig", a.oid) == getattr(hb, "orig", b.oid)), ha.seq == hb.seq)
            if isinstance(ha, HTuple) and isinstance(hb, HTuple):
                if len(ha.items) != len(hb.items):
                    return z3.BoolVal(False)
                return z3.And([self.same_value(x, y) for x, y in zip(ha.items, hb.items)] + [z3.BoolVal(True)])
            if isinstance(ha, HDict) and isinstance(hb, HDict):
                return z3.And(ha.arr == hb.arr, ha.dom == hb.dom)
            if isinstance(ha, HObjList) and isinstance(hb, HObjList):
                conj = [ha.length == hb.length]
                for k in set(ha.fields) | set(hb.fields):
                    if k in ha.fields and k in hb.fields:
                        conj.append(ha.fields[k][1] == hb.fields[k][1])
                return z3.And(conj)
            if isinstance(ha, HRec) and isinstance(hb, HRec):
                if set(ha.items) != set(hb.items):
                    return z3.BoolVal(False)
                return z3.And([self.same_value(ha.items[k], hb.items[k]) for k in ha.items] + [z3.BoolVal(True)])
            return z3.BoolVal(a.oid == b.oid)
        return z3.BoolVal(False)

    def freeze_old(self, v):
        """old(e) of a container is its entry-time VALUE: a frozen copy that later writes cannot reach"""
        if isinstance(v, Ref) and self.old_state is not None and v.oid in self.old_state["heap"]:
            o = self.old_state["heap"][v.oid]
            if isinstance(o, (HList, HDict)):
                c = o.clone()
                c.orig = v.oid
                return self.alloc(c)
            if isinstance(o, HTuple):
                c = HTuple([self.freeze_old(it) for it in o.items], o.is_tuple)
                c.orig = v.oid
                return self.alloc(c)
            if isinstance(o, HRec):
                c = HRec({k: self.freeze_old(it) for k, it in o.items.items()})
                c.orig = v.oid
                return self.alloc(c)
            if isinstance(o, HObjList):
                c = o.clone()
                c.orig = v.oid
                return self.alloc(c)
        if isinstance(v, ElemRef) and self.old_state is not None and v.oid in self.old_state["heap"]:
            c = self.old_state["heap"][v.oid].clone()
            c.orig = v.oid
            return ElemRef(self.alloc(c).oid, v.idx, v.part, v.prefix, v.clsname)
        return v

    def in_old(self, thunk):
        if self.old_state is None:
            raise OutsideSubset("old() without snapshot")
        saved = (self.heap, self.locals, self.spec_mode_old)
        self.heap, self.locals = self.old_state["heap"], self.old_state["locals"]
        self.spec_mode_old = True
        try:
            return thunk()
        finally:
            # objects lazily created while looking at the old state are inputs: they exist in both
            oldheap = self.heap
            self.heap, self.locals, self.spec_mode_old = saved
            for oid, obj in oldheap.items():
                if oid not in self.heap:
                    self.heap[oid] = obj.clone()
                elif isinstance(obj, HObj):
                    cur = self.heap[oid]
                    for k, v in obj.fields.items():
                        if k not in cur.fields and f"{obj.path}.{k}" not in self.written_paths:
                            cur.fields[k] = v

    def snapshot(self):
        return {"heap": {k: v.clone() for k, v in self.heap.items()}, "locals": dict(self.locals)}

    def spec_value(self, text):
        saved = self.spec_mode
        self.spec_mode = True
        try:
            return self.eval(ast.parse(text.strip(), mode="eval").body)
        finally:
            self.spec_mode = saved

    def spec(self, text, result=None):
        """evaluate a clause to a z3 Bool in spec mode"""
        saved = (self.spec_mode, self.result)
        self.spec_mode, self.result = True, result if result is not None else self.result
        try:
            tree = ast.parse(text.strip(), mode="eval").body
            return z3.simplify(self.truth(self.eval(tree)))
        finally:
            self.spec_mode, self.result = saved

    # ------------------------------------------------------------------ statements
    def exec_block(self, stmts):
        for s in stmts:
            self.exec(s)

    def exec(self, s):
        m = getattr(self, "s_" + type(s).__name__, None)
        if m is None:
            raise OutsideSubset(f"statement {type(s).__name__} at line {s.lineno}")
        return m(s)

    def s_Pass(self, s):
        pass

    def s_Import(self, s):
        pass

    s_ImportFrom = s_Import

    def s_Expr(self, s):
        if isinstance(s.value, ast.Constant):
            return
        if isinstance(s.value, (ast.Yield,)):
            return self.do_yield(s.value)
        self.eval(s.value)

    def do_yield(self, y):
        v = self.eval(y.value) if y.value else NONE
        tgt = self.contract.yield_to
        if not tgt:
            raise OutsideSubset("yield in a function whose contract has no yield_to ghost list")
        lst = self.spec_value(path_expr(tgt))
        self.list_method(lst, self.heap[lst.oid], "append", [v])

    def s_Return(self, s):
        raise ReturnSig(self.eval(s.value) if s.value is not None else NONE)

    def s_Assign(self, s):
        if (isinstance(s.value, ast.List) and not s.value.elts and len(s.targets) == 1 and isinstance(s.targets[0], ast.Name)
                and s.targets[0].id in self.contract.list_literals and not self.frames):
            lt = self.contract.list_literals[s.targets[0].id]
            m = re.fullmatch(r"list\[(int|str|val)\]", lt)
            if m:
                self.locals[s.targets[0].id] = self.alloc(HList(m.group(1), z3.Empty(ops.seq_sort(m.group(1)))))
            elif re.fullmatch(r"objlist\[(\w+)\]", lt):
                # an empty list that will hold records (tuples / dict literals) of a declared shape: struct-of-arrays with every declared field materialised
                cls = re.fullmatch(r"objlist\[(\w+)\]", lt).group(1)
                lst = HObjList(cls, self.facts.cls(cls), z3.IntVal(0), fresh_name(s.targets[0].id))
                ref = self.alloc(lst)
                for attr in self.contract.class_fields.get(cls, {}):
                    self.elem_field_array(lst, attr)
                self.locals[s.targets[0].id] = ref
            else:
                m = re.fullmatch(r"alist\[(int|str|val)\]", lt)
                self.locals[s.targets[0].id] = self.new_alist(m.group(1), fresh_name(s.targets[0].id), symbolic=False)
            return
        v = self.eval(s.value)
        for t in s.targets:
            self.assign(t, v)

    def s_AnnAssign(self, s):
        if s.value is not None:
            self.assign(s.target, self.eval(s.value))

    def s_AugAssign(self, s):
        cur = self.eval(_as_load(s.target))
        op = {ast.Add: "+", ast.Sub: "-", ast.Mult: "*"}.get(type(s.op))
        if op is None:
            raise OutsideSubset("augassign op")
        rhs = self.eval(s.value)
        if op == "+" and isinstance(cur, Ref) and isinstance(self.heap[cur.oid], (HList, HTuple)):
            # in-place extend
            o = self.heap[cur.oid]
            if isinstance(o, HList):
                self.list_method(cur, o, "extend", [rhs])
            else:
                self.tuple_method(cur, o, "extend", [rhs])
            return
        self.assign(s.target, self.binop(op, cur, rhs))

    def assign(self, t, v):
        if isinstance(t, ast.Name):
            self.locals[t.id] = v
        elif isinstance(t, ast.Attribute):
            base = self.eval(t.value)
            if isinstance(base, ElemRef):
                lst = self.heap[base.oid]
                ecf_ = self.facts.cls(base.clsname) if base.clsname else lst.cf
                st = self.facts.setter(ecf_, t.attr) if ecf_ is not None else None
                if st is not None:
                    self.call_unit(st, base, [v], {}, prop=True)
                else:
                    self.elem_set(base, t.attr, v)
                return
            if not isinstance(base, Ref):
                if isinstance(base, SV) and base.kind == "none":
                    raise PyRaise("AttributeError", "set attribute on None")
                raise OutsideSubset("attribute store on non-object")
            self.set_attr(base, t.attr, v)
        elif isinstance(t, ast.Subscript):
            base = self.eval(t.value)
            idx = self.eval(t.slice)
            self.store_index(base, idx, v)
        elif isinstance(t, ast.Tuple):
            if isinstance(v, Ref) and isinstance(self.heap[v.oid], HTuple) and len(self.heap[v.oid].items) == len(t.elts):
                for tt, vv in zip(t.elts, self.heap[v.oid].items):
                    self.assign(tt, vv)
            else:
                raise OutsideSubset("tuple unpack")
        else:
            raise OutsideSubset("assignment target")

    def store_index(self, base, idx, v):
        if isinstance(base, ElemRef) and base.part == "obj" and isinstance(idx, SV) and idx.kind == "int" and z3.is_int_value(z3.simplify(idx.term)):
            v = self.elem_get(base, f"t{z3.simplify(idx.term).as_long()}")
            if v is not None:
                return v     # element of a list of tuples: e[0], e[1] are the declared fields t0, t1
        if isinstance(base, ElemRef) and base.part == "pair":
            k = z3.simplify(idx.term) if isinstance(idx, SV) and idx.kind == "int" else None
            if k is not None and z3.is_int_value(k) and k.as_long() == 1:
                self.elem_set(ElemRef(base.oid, base.idx, "obj"), "__memo__", v)
                return
            raise OutsideSubset("store into pair")
        if isinstance(base, Ref):
            o = self.heap[base.oid]
            if isinstance(o, HTuple) and isinstance(idx, SV) and idx.kind == "int":
                t = z3.simplify(idx.term)
                if z3.is_int_value(t) and 0 <= t.as_long() < len(o.items):
                    o.items[t.as_long()] = v
                    self.written_paths.add(("heap", base.oid))
                    return
            if isinstance(o, HRec) and self.const_str(idx) is not None:
                o.items[self.const_str(idx)] = v
                return
            if isinstance(o, HRec) and not o.items and isinstance(idx, SV) and idx.kind == "str" and isinstance(v, SV):
                # an empty `{}` that receives a symbolic key becomes a str-keyed dict with an empty domain
                arr = z3.K(z3.StringSort(), Val.NoneV)
                dom = z3.K(z3.StringSort(), z3.BoolVal(False))
                nd = HDict(z3.Store(arr, idx.term, ops.to_val(v)), z3.Store(dom, idx.term, True))
                self.heap[base.oid] = nd
                return
            if isinstance(o, HDict) and isinstance(idx, SV) and idx.kind in ("str", "val") and isinstance(v, SV):
                if idx.kind == "val" and self.feasible(z3.Not(ops.tag_is(idx, "str"))):
                    raise OutsideSubset("dict store with a key that may not be a string (the dict model is str-keyed)")
                key = ops.as_str(idx)
                o.arr = z3.Store(o.arr, key, ops.to_val(v))
                o.dom = z3.Store(o.dom, key, True)
                return
            if isinstance(o, HList) and isinstance(idx, SV) and idx.kind == "int":
                ln = z3.Length(o.seq)
                i = idx.term
                self.maybe_raise(z3.Or(i >= ln, i < -ln), "IndexError", "list assignment index")
                i = self.norm_index(idx, ln)
                t, fits = ops.elem_term(o.elem, self.as_scalar(v))
                self.need_fit(fits, o.elem)
                o.seq = z3.Concat(z3.Extract(o.seq, 0, i), z3.Unit(t), z3.Extract(o.seq, i + 1, ln - i - 1))
                return
        raise OutsideSubset("subscript store")

    def s_If(self, s):
        if self.branch(self.truth(self.eval(s.test))):
            self.exec_block(s.body)
        else:
            self.exec_block(s.orelse)

    def s_Raise(self, s):
        if s.exc is None:
            cur = getattr(self, "current_exc", None)
            if cur is None:
                raise OutsideSubset("bare raise outside handler")
            raise PyRaise(cur.cls, cur.site, cur.msg)
        if s.cause is not None:
            self.eval_for_effect(s.cause)
        e = s.exc
        if isinstance(e, ast.Call):
            f = self.eval(e.func)
            for a in e.args:
                self.eval_for_effect(a)
            if isinstance(f, ClassRef):
                raise PyRaise(f.name, f"line {s.lineno}")
        v = self.eval(e)
        if isinstance(v, ClassRef):
            raise PyRaise(v.name, f"line {s.lineno}")
        if isinstance(v, Ref) and isinstance(self.heap[v.oid], HObj):
            raise PyRaise(self.heap[v.oid].clsname, f"line {s.lineno}")
        raise OutsideSubset("raise of non-class")

    def s_Try(self, s):
        try:
            self.exec_block(s.body)
        except PyRaise as pr:
            for h in s.handlers:
                names = []
                if h.type is None:
                    names = ["BaseException"]
                elif isinstance(h.type, ast.Tuple):
                    names = [_name_of(e) for e in h.type.elts]
                else:
                    names = [_name_of(h.type)]
                if any(exc_is_a(self.facts, pr.cls, nm) for nm in names):
                    saved = getattr(self, "current_exc", None)
                    self.current_exc = pr
                    if h.name:
                        o = HObj(pr.cls, self.facts.cls(pr.cls), fresh_name("exc"))
                        o.fields["__exc__"] = TRUE
                        self.locals[h.name] = self.alloc(o)
                    try:
                        self.exec_block(h.body)
                    finally:
                        self.current_exc = saved
                        if s.finalbody:
                            pass
                    break
            else:
                if s.finalbody:
                    self.exec_block(s.finalbody)
                raise
            if s.finalbody:
                self.exec_block(s.finalbody)
            return
        except (ReturnSig, BreakSig, ContinueSig):
            if s.finalbody:
                self.exec_block(s.finalbody)
            raise
        else:
            self.exec_block(s.orelse)
        if s.finalbody:
            self.exec_block(s.finalbody)

    # ---- loops: cut at the invariant -------------------------------------------------
    def loop_key(self, node=None):
        if self.loop_counter[0] is None:
            # loop inside an inlined callee
            k = self.loop_counter[1]
            cnt = self.ghost.setdefault(("loopcnt", k), 0)
            self.ghost[("loopcnt", k)] = cnt + 1
            return f"{k}#{cnt}"
        if node is not None:
            # static key: the pre-order ordinal of the loop statement in the function under contract (the same on every path)
            m = getattr(self, "_loop_ordinals", None)
            if m is None:
                m = {}
                for nd in ast.walk(self.unit.node):
                    pass
                order = []

                def visit(nd):
                    for ch in ast.iter_child_nodes(nd):
                        if isinstance(ch, (ast.For, ast.While)):
                            order.append(ch)
                        if not isinstance(ch, (ast.FunctionDef, ast.AsyncFunctionDef, ast.Lambda, ast.ClassDef)):
                            visit(ch)
                visit(self.unit.node)
                m = {id(nd): k for k, nd in enumerate(order)}
                self._loop_ordinals = m
            if id(node) in m:
                return m[id(node)]
        k = self.loop_counter[0]
        self.loop_counter[0] += 1
        return k

    def s_For(self, s):
        key = self.loop_key(s)
        if s.orelse:
            raise OutsideSubset("for-else")
        it = s.iter
        idx_name = self.contract.loop_index.get(key, f"_i{key}")
        # --- range loops
        if isinstance(it, ast.Call) and isinstance(it.func, ast.Name) and it.func.id == "range":
            rargs = [self.eval(a) for a in it.args]
            if len(rargs) == 1:
                lo, hi = I(0), rargs[0]
            elif len(rargs) == 2:
                lo, hi = rargs
            else:
                raise OutsideSubset("range step")
            for v in (lo, hi):
                if not (isinstance(v, SV) and v.kind in ("int", "bool", "val")):
                    raise OutsideSubset("range bound type")
                if v.kind == "val":
                    self.maybe_raise(z3.Not(ops.is_integral(v)), "TypeError", "range bound")
            lo_t, hi_t = ops.as_int(lo), ops.as_int(hi)
            if not isinstance(s.target, ast.Name):
                raise OutsideSubset("range loop target")
            var = s.target.id
            # ghost: loop variable itself is the index; invariant speaks about `var` as "next value to take"
            return self.cut_loop(key, s, kind="range", var=var, lo=lo_t, hi=hi_t, idx_name=idx_name)
        enum = False
        if isinstance(it, ast.Call) and isinstance(it.func, ast.Name) and it.func.id == "enumerate":
            seqv = self.eval(it.args[0])
            enum = True
        else:
            seqv = self.eval(it)
        if isinstance(seqv, Ref):
            o = self.heap[seqv.oid]
            if isinstance(o, HTuple):
                # concrete length: unroll
                for k, item in enumerate(list(o.items)):
                    if enum:
                        self.assign(s.target, self.alloc(HTuple([I(k), item], is_tuple=True)))
                    else:
                        self.assign(s.target, item)
                    try:
                        self.exec_block(s.body)
                    except BreakSig:
                        break
                    except ContinueSig:
                        continue
                return
            if isinstance(o, (HList, HObjList)):
                return self.cut_loop(key, s, kind="list", seqref=seqv, enum=enum, idx_name=idx_name)
        hook = getattr(self, "for_hook", None)
        if hook:
            r = hook(key, s, seqv, enum, idx_name)
            if r is not NotImplemented:
                return r
        raise OutsideSubset(f"for over {seqv}")

    def s_While(self, s):
        key = self.loop_key(s)
        if self.contract.invariants.get(key) is None and not s.orelse:
            # a loop that provably runs zero times on this path needs no invariant (guard evaluated without forking)
            saved = self.spec_mode
            self.spec_mode = True
            try:
                g = z3.simplify(self.truth(self.eval(s.test)))
            except OutsideSubset:
                g = None
            finally:
                self.spec_mode = saved
            if g is not None and (z3.is_false(g) or not self.feasible(g)):
                return
        return self.cut_loop(key, s, kind="while", idx_name=None)

    def loop_targets(self, s):
        """syntactic write set of a loop body: local names, attribute paths, mutated list expressions"""
        names, exprs = set(), []
        for node in ast.walk(ast.Module(body=s.body, type_ignores=[])):
            tg = []
            if isinstance(node, ast.Assign):
                tg = node.targets
            elif isinstance(node, (ast.AugAssign, ast.AnnAssign)):
                tg = [node.target]
            elif isinstance(node, (ast.For,)):
                tg = [node.target]
            elif isinstance(node, ast.Call) and isinstance(node.func, ast.Attribute) and node.func.attr in ("append", "extend", "pop", "insert", "remove", "clear"):
                exprs.append(node.func.value)
            for t in tg:
                for tt in (t.elts if isinstance(t, ast.Tuple) else [t]):
                    if isinstance(tt, ast.Name):
                        names.add(tt.id)
                    elif isinstance(tt, ast.Attribute):
                        exprs.append(tt)
                    elif isinstance(tt, ast.Subscript):
                        exprs.append(tt.value)
        return names, exprs

    def exit_only_names(self, s):
        assigned_elsewhere, exit_only = set(), set()

        def walk(block, in_this_loop=True):
            for k, st in enumerate(block):
                nxt = block[k + 1] if k + 1 < len(block) else None
                leaves = isinstance(nxt, (ast.Break, ast.Return, ast.Raise))
                if isinstance(st, ast.Assign) and all(isinstance(t, ast.Name) for t in st.targets):
                    for t in st.targets:
                        (exit_only if leaves else assigned_elsewhere).add(t.id)
                elif isinstance(st, (ast.AugAssign, ast.AnnAssign)) and isinstance(st.target, ast.Name):
                    assigned_elsewhere.add(st.target.id)
                elif isinstance(st, (ast.For, ast.While)):
                    # an inner loop: its `break` leaves only the inner loop, so nothing inside counts as exit-only for the outer one
                    for nd in ast.walk(st):
                        if isinstance(nd, ast.Name) and isinstance(nd.ctx, ast.Store):
                            assigned_elsewhere.add(nd.id)
                else:
                    for fld in ("body", "orelse", "finalbody"):
                        sub = getattr(st, fld, None)
                        if isinstance(sub, list):
                            walk(sub)
                    for h in getattr(st, "handlers", []) or []:
                        walk(h.body)
                    if isinstance(st, (ast.With,)):
                        pass
                    # any other store (tuple targets, walrus, with-as, except-as): treat as an ordinary write
                    if not isinstance(st, (ast.If, ast.Try, ast.With, ast.Assign, ast.AugAssign, ast.AnnAssign)):
                        for nd in ast.walk(st):
                            if isinstance(nd, ast.Name) and isinstance(nd.ctx, ast.Store):
                                assigned_elsewhere.add(nd.id)
                if isinstance(st, ast.Assign) and not all(isinstance(t, ast.Name) for t in st.targets):
                    for nd in ast.walk(st):
                        if isinstance(nd, ast.Name) and isinstance(nd.ctx, ast.Store):
                            assigned_elsewhere.add(nd.id)
        walk(s.body)
        if isinstance(s, ast.For):
            for nd in ast.walk(s.target):
                if isinstance(nd, ast.Name):
                    assigned_elsewhere.add(nd.id)
        return exit_only - assigned_elsewhere

    def havoc_value(self, v, label):
        """fresh value of the same shape"""
        if isinstance(v, SV):
            if v.kind == "none":
                return SV("val", z3.Const(fresh_name(label), Val))
            if v.kind == "val":
                t = z3.Const(fresh_name(label), Val)
                if v.tags is not None:
                    self.pc.append(z3.Or([ops.tag_is(SV("val", t), tg) for tg in v.tags]))
                return SV("val", t, v.tags)
            srt = {"bool": z3.BoolSort(), "int": z3.IntSort(), "real": z3.RealSort(), "str": z3.StringSort()}[v.kind]
            return SV(v.kind, z3.Const(fresh_name(label), srt))
        if isinstance(v, Ref):
            o = self.heap[v.oid]
            if isinstance(o, HList):
                o.seq = z3.Const(fresh_name(label), ops.seq_sort(o.elem))
                return v
            if isinstance(o, HTuple):
                if getattr(o, "literal", False) and not o.is_tuple:
                    # a `[...]` literal has a fixed shape here; whoever havocs it may change its length
                    raise OutsideSubset(f"list literal {label} is modified by a callee or loop: declare it under list_literals")
                o.items = [self.havoc_value(it, f"{label}.{i}") for i, it in enumerate(o.items)]
                return v
            if isinstance(o, HRec):
                o.items = {k: self.havoc_value(it, f"{label}.{k}") for k, it in o.items.items()}
                return v
            if isinstance(o, HObjList):
                for k, (typ, arr) in list(o.fields.items()):
                    self.havoc_elem_field(o, k)
                o.length = z3.Int(fresh_name(label + "!len"))
                self.pc.append(o.length >= 0)
                return v
            if isinstance(o, HDict):
                o.arr = z3.Const(fresh_name(label + "!arr"), o.arr.sort())
                o.dom = z3.Const(fresh_name(label + "!dom"), o.dom.sort())
                return v
            return v
        return v

    def heap_fingerprint(self):
        fp = {}

        def vfp(v):
            if isinstance(v, SV):
                return v.term
            if isinstance(v, Ref):
                return ("ref", v.oid)
            if isinstance(v, ElemRef):
                return ("elem", v.oid, v.idx, v.prefix)
            return ("py", id(v))
        for oid, o in self.heap.items():
            if isinstance(o, HList):
                fp[("seq", oid)] = o.seq
            elif isinstance(o, HTuple):
                for i, it in enumerate(o.items):
                    fp[("item", oid, i)] = vfp(it)
                fp[("len", oid)] = len(o.items)
            elif isinstance(o, HObj):
                for k, v in o.fields.items():
                    fp[("field", oid, k)] = vfp(v)
            elif isinstance(o, HObjList):
                for k, (t, arr) in o.fields.items():
                    fp[("arr", oid, k)] = arr
                fp[("alen", oid)] = o.length
            elif isinstance(o, HRec):
                for k, v in o.items.items():
                    fp[("rec", oid, k)] = vfp(v)
            elif isinstance(o, HDict):
                fp[("dict", oid)] = (o.arr, o.dom)
        return fp

    @staticmethod
    def _fp_same(a, b):
        if z3.is_expr(a) and z3.is_expr(b):
            return a.eq(b)
        if isinstance(a, tuple) and isinstance(b, tuple) and len(a) == len(b):
            return all(Exec._fp_same(x, y) for x, y in zip(a, b))
        if z3.is_expr(a) or z3.is_expr(b):
            return False
        return a == b

    def check_loop_writes(self, key, fp_before_havoc, fp_after_havoc):
        """soundness guard: whatever the loop body changed must have been havocked before the arbitrary iteration"""
        now = self.heap_fingerprint()
        for k, v in now.items():
            if k not in fp_after_havoc:
                continue      # created inside the body
            if self._fp_same(v, fp_after_havoc[k]):
                continue
            # a field that the havoc step itself brought into being (declared in loop_havoc on a fresh object) counts as havocked
            was_havocked = (k not in fp_before_havoc) or not self._fp_same(fp_before_havoc[k], fp_after_havoc[k])
            if not was_havocked:
                o = self.heap.get(k[1])
                where = getattr(o, "path", None) or f"object {k[1]}"
                raise OutsideSubset(f"loop {key} of {self.fn_ident} writes {k[0]} {where}{'.' + str(k[2]) if len(k) > 2 else ''} which is not in its havoc set: "
                                    f"declare it in loop_havoc")

    def seq_len(self, ref):
        o = self.heap[ref.oid]
        return o.length if isinstance(o, HObjList) else z3.Length(o.seq)

    def havoc_elem_field(self, lst, attr):
        if attr in lst.fields:
            fa = lst.fields[attr]
        else:
            fa = self.elem_field_array(lst, attr)
        typ, arr = fa
        na = z3.Const(fresh_name(f"{lst.path}[*].{attr}"), arr.sort())
        if typ in TYPE_TAGS:
            j = z3.Int(fresh_name("j"))
            self.pc.append(z3.ForAll([j], z3.Or([ops.tag_is(SV("val", z3.Select(na, j)), tg) for tg in TYPE_TAGS[typ]])))
        lst.fields[attr] = (typ, na)

    def cut_loop(self, key, s, kind, var=None, lo=None, hi=None, seqref=None, enum=False, idx_name=None):
        invs = self.contract.invariants.get(key)
        if invs is None:
            raise OutsideSubset(f"loop {key} of {self.fn_ident} has no invariant")
        names, exprs = self.loop_targets(s)
        # a local that is only ever assigned immediately before leaving the loop (`flag = False; break` / `x = v; return ...`) still has its
        # pre-loop value at the head of every iteration: it is not havocked, so proofs do not depend on an invariant about such a temporary
        names = names - self.exit_only_names(s)
        # ---- establish
        if kind == "range":
            self.locals[var] = I(lo)
        elif kind == "list":
            self.locals[idx_name] = I(0)
        pre_loop = self.snapshot_loop()
        fp0 = self.heap_fingerprint()
        for k, inv in enumerate(invs):
            self.prove(f"loop{key}.inv{k}.init", "inv-init", self.spec_loop(inv, pre_loop))
        # ---- havoc the loop's write set
        for nm in names:
            if nm in self.locals:
                cur = self.locals[nm]
                if isinstance(cur, Ref) and isinstance(self.heap[cur.oid], HObj):
                    continue
                self.locals[nm] = self.havoc_value(cur, nm) if not isinstance(cur, Ref) else cur
        extra = []
        for p_ in self.contract.loop_havoc.get(key, []):
            if "[*]." in p_:
                base_txt, fld = p_.split("[*].")
                lref = self.eval(ast.parse(path_expr(base_txt), mode="eval").body)
                self.havoc_elem_field(self.heap[lref.oid], fld)
            else:
                extra.append(p_)
        for e in exprs + [ast.parse(path_expr(p), mode="eval").body for p in extra]:
            try:
                cur = self.eval(_as_load(e))
            except PyRaise:
                continue
            except OutsideSubset:
                # a write through a name bound only inside the loop (e.g. the loop variable): covered by loop_havoc declarations
                continue
            if isinstance(e, ast.Attribute) and isinstance(cur, SV):
                base = self.eval(e.value)
                nv = self.havoc_value(cur, e.attr)
                if cur.kind == "none":
                    # keep declared type constraints if there is one
                    pass
                self.heap[base.oid].fields[e.attr] = nv
                self.retype_after_havoc(base, e.attr, nv)
            else:
                self.havoc_value(cur, "h")
        if kind == "range":
            iv = z3.Int(fresh_name(var))
            self.locals[var] = I(iv)
            self.assume(z3.And(iv >= lo, z3.Or(iv <= hi, iv == lo)))
        elif kind == "list":
            iv = z3.Int(fresh_name(idx_name))
            self.locals[idx_name] = I(iv)
            self.assume(z3.And(iv >= 0, iv <= self.seq_len(seqref)))
        for inv in invs:
            self.assume(self.spec_loop(inv, pre_loop))
        fp1 = self.heap_fingerprint()
        # ---- choose: one arbitrary iteration, or exit
        if kind == "range":
            guard = self.locals[var].term < hi
        elif kind == "list":
            guard = self.locals[idx_name].term < self.seq_len(seqref)
        else:
            guard = None
        if kind == "while":
            g = self.truth(self.eval(s.test))
            take = self.branch(g)
        else:
            take = self.branch(guard)
        if not take:
            if kind == "while" and s.orelse:
                self.exec_block(s.orelse)
            return
        # iteration
        cnt_path = self.contract.loop_counts.get(key)
        if cnt_path:
            tgt = ast.parse(path_expr(cnt_path), mode="eval").body
            cur = self.eval(_as_load(tgt))
            self.assign(tgt, I(ops.as_int(cur) + 1))
        if kind == "list":
            o = self.heap[seqref.oid]
            if isinstance(o, HObjList) and o.clsname.startswith("$"):
                typ, arr = o.fields["v"]
                t = z3.Select(arr, self.locals[idx_name].term)
                item = SV(typ, t) if typ in self.SORTS else ops.from_val(t)
            elif isinstance(o, HObjList):
                item = ElemRef(seqref.oid, self.locals[idx_name].term, "pair" if o.pair else "obj")
            else:
                item = ops.elem_sv(o.elem, o.seq[self.locals[idx_name].term])
            if enum:
                self.assign(s.target, self.alloc(HTuple([self.locals[idx_name], item], is_tuple=True)))
            else:
                self.assign(s.target, item)
        try:
            self.exec_block(s.body)
        except BreakSig:
            self.check_loop_writes(key, fp0, fp1)
            return          # leaves the loop with the current state
        except ContinueSig:
            pass
        self.check_loop_writes(key, fp0, fp1)
        # back edge: advance and re-establish
        if kind == "range":
            self.locals[var] = I(self.locals[var].term + 1)
        elif kind == "list":
            self.locals[idx_name] = I(self.locals[idx_name].term + 1)
        for k, inv in enumerate(invs):
            self.prove(f"loop{key}.inv{k}.preserve", "inv-preserve", self.spec_loop(inv, pre_loop))
        raise PathEnd()

    def retype_after_havoc(self, base, attr, nv):
        obj = self.heap[base.oid]
        typ = self.types_lookup(f"{obj.path}.{attr}", obj, attr)
        if typ in TYPE_TAGS and isinstance(nv, SV) and nv.kind == "val":
            self.pc.append(z3.Or([ops.tag_is(SV("val", nv.term), tg) for tg in TYPE_TAGS[typ]]))
            obj.fields[attr] = ops.V(nv.term, TYPE_TAGS[typ])

    def snapshot_loop(self):
        return self.snapshot()

    def spec_loop(self, inv, pre_loop):
        """invariants may use old(...) for function entry and at_loop(...) is not needed yet"""
        return self.spec(inv)

    def s_Break(self, s):
        raise BreakSig()

    def s_Continue(self, s):
        raise ContinueSig()

    def s_With(self, s):
        # the one context manager the target code uses: `with open(path, mode, ...) as f:`
        if len(s.items) == 1 and isinstance(s.items[0].context_expr, ast.Call) and isinstance(s.items[0].context_expr.func, ast.Name) \
                and s.items[0].context_expr.func.id == "open":
            call = s.items[0].context_expr
            path = self.eval(call.args[0])
            mode = self.eval(call.args[1]) if len(call.args) > 1 else S("r")
            fh = HObj("File", None, fresh_name("file"))
            fh.fresh = True
            fh.fields["path"], fh.fields["mode"] = path, mode
            ref = self.alloc(fh)
            if s.items[0].optional_vars is not None:
                self.assign(s.items[0].optional_vars, ref)
            self.effects.append(("open", path, mode))
            self.exec_block(s.body)
            return
        raise OutsideSubset("with")

    def s_Delete(self, s):
        # del xs[i] on a symbolic list (z3 sequence): negative indices count from the end, out of range raises IndexError
        if len(s.targets) == 1 and isinstance(s.targets[0], ast.Subscript) and not isinstance(s.targets[0].slice, ast.Slice):
            base = self.eval(s.targets[0].value)
            idx = self.eval(s.targets[0].slice)
            if isinstance(base, Ref) and isinstance(self.heap[base.oid], HList) and isinstance(idx, SV) and idx.kind == "int":
                o = self.heap[base.oid]
                ln = z3.Length(o.seq)
                i = idx.term
                self.maybe_raise(z3.Or(i >= ln, i < -ln), "IndexError", "list assignment index out of range")
                k = z3.If(i < 0, i + ln, i)
                o.seq = z3.Concat(z3.Extract(o.seq, 0, k), z3.Extract(o.seq, k + 1, ln - k - 1))
                self.written_paths.add(("heap", base.oid))
                return
        raise OutsideSubset("del")

    def s_Assert(self, s):
        if not self.branch(self.truth(self.eval(s.test))):
            raise PyRaise("AssertionError", f"line {s.lineno}")

    def s_FunctionDef(self, s):
        raise OutsideSubset("nested def")

    def s_Global(self, s):
        raise OutsideSubset("global")


class CalleeView:
    """use of a callee contract at a call site (modular step)"""
    def __init__(self, ex: Exec, cc: Contract, env):
        self.ex, self.cc, self.env = ex, cc, env

    def run(self):
        ex, cc = self.ex, self.cc
        # evaluate callee clauses in an environment where the callee's parameter names are bound
        saved_locals, saved_contract, saved_old = ex.locals, ex.contract, ex.old_state
        saved_bound = ex.bound
        ex.bound = {}
        ex.locals = dict(self.env)
        ex.contract = _merged_types(saved_contract, cc)
        try:
            for i, r in enumerate(cc.requires):
                g = ex.spec(r)
                ex.contract = saved_contract
                ex.prove(f"call:{cc.ident}.requires{i}", "requires-at-call", g)
                ex.contract = _merged_types(saved_contract, cc)
                ex.assume(g)
            ex.old_stack.append(saved_old)
            ex.old_state = ex.snapshot()
            # raises
            conds = []
            for exc, spec in cc.raises.items():
                when = spec["when"] if isinstance(spec, dict) else spec
                conds.append((exc, ex.spec(when)))
            # havoc modifies
            for p in cc.modifies:
                self.havoc_path(p)
            res = None
            if cc.returns and cc.returns.startswith("expr:"):
                res = ex.spec_value(cc.returns[5:])
            elif cc.returns and cc.returns != "none":
                res = ex.mk(cc.returns, fresh_name(f"ret_{cc.ident}"))
            else:
                res = NONE
            # exceptional exits
            if conds:
                rc = [c for _, c in conds]
                is_exact = [(not isinstance(s, dict)) or s.get("exact", True) for s in cc.raises.values()]
                # normal continuation: none of the EXACT conditions holds (a non-exact clause only permits the raise)
                none_raised = z3.Not(z3.Or([c for c, e in zip(rc, is_exact) if e] + [z3.BoolVal(False)]))
                excl, seen = [], z3.BoolVal(False)
                for c, e in zip(rc, is_exact):
                    excl.append(z3.And(c, z3.Not(seen)))
                    if e:
                        seen = z3.Or(seen, c)
                k = ex.fork([none_raised] + excl)
                if k > 0:
                    exc = conds[k - 1][0]
                    for cl, e in cc.ensures_exc.items():
                        ex.assume(ex.spec(e))
                    raise PyRaise(exc, f"callee {cc.ident}")
            for cl, e in cc.ensures.items():
                if self.bind_reference_clause(e):
                    continue
                g = ex.spec(e, result=res)
                if z3.is_expr(g) and z3.is_false(z3.simplify(g)):
                    # assuming it would end the path silently (and make everything after the call vacuously true): typically a reference clause
                    # over a havoced object field that is not of the bindable form `self.f is x`
                    raise OutsideSubset(f"postcondition {cl} of callee {cc.ident} is literally false in the modelled state after the call")
                ex.assume(g)
            return res
        finally:
            if ex.old_stack and ex.old_stack[-1] is saved_old:
                ex.old_stack.pop()
            ex.locals, ex.contract, ex.old_state, ex.bound = saved_locals, saved_contract, saved_old, saved_bound

    def bind_reference_clause(self, e):
        """a callee postcondition `self.f is x` (x an object) cannot be assumed over a havoced object field: it is applied as a binding"""
        ex = self.ex
        try:
            t = ast.parse(e, mode="eval").body
        except SyntaxError:
            return False
        if not (isinstance(t, ast.Compare) and len(t.ops) == 1 and isinstance(t.ops[0], ast.Is) and isinstance(t.left, ast.Attribute)):
            return False
        saved = ex.spec_mode
        ex.spec_mode = True
        try:
            right = ex.eval(t.comparators[0])
            base = ex.eval(t.left.value)
        finally:
            ex.spec_mode = saved
        if isinstance(right, Ref) and isinstance(base, Ref) and isinstance(ex.heap[base.oid], HObj):
            ex.heap[base.oid].fields[t.left.attr] = right
            return True
        return False

    def havoc_path(self, p):
        ex = self.ex
        if "[*]." in p:
            base_txt, fld = p.split("[*].")
            saved = ex.spec_mode
            ex.spec_mode = True
            try:
                lref = ex.eval(ast.parse(path_expr(base_txt), mode="eval").body)
            finally:
                ex.spec_mode = saved
            ex.havoc_elem_field(ex.heap[lref.oid], fld)
            return
        node = ast.parse(path_expr(p), mode="eval").body
        saved = ex.spec_mode
        ex.spec_mode = True
        try:
            cur = ex.eval(node)
        finally:
            ex.spec_mode = saved
        if isinstance(node, ast.Attribute):
            ex.spec_mode = True
            try:
                base = ex.eval(node.value)
            finally:
                ex.spec_mode = saved
            if isinstance(base, ElemRef) and isinstance(cur, SV):
                nv = ex.havoc_value(cur, p)
                ex.elem_set(base, node.attr, nv)
                return
            if isinstance(cur, SV):
                typ = self.cc.types.get(p) or ex.types_lookup(p, ex.heap[base.oid], node.attr)
                nv = ex.mk(typ, fresh_name(p)) if typ else ex.havoc_value(cur, p)
                ex.heap[base.oid].fields[node.attr] = nv
                ex.written_paths.add(f"{ex.heap[base.oid].path}.{node.attr}")
                return
        ex.havoc_value(cur, p)


def _merged_types(outer: Contract, inner: Contract):
    m = copy.copy(inner)
    t = dict(outer.types)
    t.update(inner.types)
    m.types = t
    mac = dict(outer.macros)
    mac.update(inner.macros)
    m.macros = mac
    ea = dict(outer.extra_attrs)
    ea.update(inner.extra_attrs)
    m.extra_attrs = ea
    cf = {k: dict(v) for k, v in outer.class_fields.items()}
    for k, v in inner.class_fields.items():
        cf.setdefault(k, {}).update(v)
    m.class_fields = cf
    m.inline = list(outer.inline)
    m.opaque = list(outer.opaque)
    m.backrefs = dict(outer.backrefs)
    m.opaque_new = list(outer.opaque_new)
    m.stub_new = list(outer.stub_new)
    return m


_QCACHE = {}


def _has_quantifier(e):
    # no caching by get_id(): z3 reuses ids of collected terms
    seen, stack, found = set(), [e], False
    while stack:
        t = stack.pop()
        if t.get_id() in seen:
            continue
        seen.add(t.get_id())
        if z3.is_quantifier(t):
            found = True
            break
        stack.extend(t.children())
    return found


def infer_patterns(consts, body):
    """single-term triggers: array reads / uninterpreted applications / seq.nth whose arguments mention a bound variable directly"""
    ids = {c.get_id() for c in consts}
    pats, seen, stack = [], set(), [body]
    while stack:
        t = stack.pop()
        if t.get_id() in seen or not z3.is_app(t):
            continue
        seen.add(t.get_id())
        k = t.decl().kind()
        if k in (z3.Z3_OP_SELECT, z3.Z3_OP_UNINTERPRETED) and t.num_args() > 0:
            if any(a.get_id() in ids for a in t.children()) and all(_mentions_only(a, ids) for a in t.children()):
                vars_here = {a.get_id() for a in t.children() if a.get_id() in ids}
                if vars_here == ids or len(ids) == 1:
                    pats.append(t)
        stack.extend(t.children())
    # de-duplicate, keep a handful
    out, keys = [], set()
    for p_ in pats:
        if p_.get_id() not in keys:
            keys.add(p_.get_id())
            out.append(p_)
    return out[:6]


def _mentions_only(a, ids):
    """argument is either a bound variable itself or does not mention any bound variable"""
    if a.get_id() in ids:
        return True
    stack, seen = [a], set()
    while stack:
        t = stack.pop()
        if t.get_id() in seen:
            continue
        seen.add(t.get_id())
        if t.get_id() in ids:
            return False
        stack.extend(t.children())
    return True


def path_expr(path):
    """'self.children.0.name' -> 'self.children[0].name'  (names of fixed[...] elements use dotted digits)"""
    out = []
    for seg in path.split("."):
        if seg.isdigit() and out:
            out[-1] = out[-1] + f"[{seg}]"
        else:
            out.append(seg)
    return ".".join(out)


def _split_top(s):
    out, depth, cur = [], 0, ""
    for ch in s:
        if ch == "[":
            depth += 1
        elif ch == "]":
            depth -= 1
        if ch == "," and depth == 0:
            out.append(cur.strip())
            cur = ""
        else:
            cur += ch
    if cur.strip():
        out.append(cur.strip())
    return out


def _as_load(t):
    t2 = copy.deepcopy(t)
    for n in ast.walk(t2):
        if hasattr(n, "ctx"):
            n.ctx = ast.Load()
    return t2


def _name_of(e):
    if isinstance(e, ast.Name):
        return e.id
    if isinstance(e, ast.Attribute):
        return e.attr
    raise OutsideSubset("exception class expression")
