"""What the mechanical extraction drops (DESIGN §2.5) -- as data, printed into every evidence file.

1. docstrings, comments, bare string-literal statements, type annotations
2. calls whose target is ``<anything>.logger.<level>(...)`` -- arguments ARE evaluated
3. the explain chain: ``self.matcher._what`` / ``.assign()/.when_do()/.equality()/.matching()/.valuing()``
   and ``.result(..).because(..)`` on their return value
4. timing: ``time.time()``, ``time.perf_counter_ns()`` and ``_up_function_time_*``
5. ``print(...)`` to stdout in library code
"""
import ast

LOG_LEVELS = {"debug", "info", "warning", "warn", "error", "critical", "exception"}
EXPLAIN = {"assign", "when_do", "equality", "matching", "valuing", "result", "because", "_what"}
TIMING_UNITS = {"_up_function_time_match", "_up_function_time_value"}
DROPPED_UNIT_NAMES = set(TIMING_UNITS) | {"_what"}

RULES = [
    "docstrings / bare string statements / annotations",
    "calls X.logger.<level>(...) (arguments still evaluated)",
    "explain chain: matching()/valuing()/assign()/when_do()/equality() and .result()/.because(), Matcher._what",
    "timing calls: time.time(), time.perf_counter_ns(), CsvPath._up_function_time_match/_value",
    "print(...) to stdout inside library code",
]

applied = []   # (file, line, text) recorded per run for the evidence


def _chain_root_names(node):
    """attribute names along a call chain a.b().c.d()"""
    out = []
    while True:
        if isinstance(node, ast.Call):
            node = node.func
        elif isinstance(node, ast.Attribute):
            out.append(node.attr)
            node = node.value
        else:
            if isinstance(node, ast.Name):
                out.append(node.id)
            return list(reversed(out))


def is_dropped_call(n: ast.Call) -> bool:
    f = n.func
    if isinstance(f, ast.Name) and f.id == "print":
        return True
    if isinstance(f, ast.Attribute):
        if f.attr in LOG_LEVELS:
            chain = _chain_root_names(f.value)
            if chain and chain[-1] in ("logger", "_logger"):
                return True
        if f.attr in ("time", "perf_counter_ns") and isinstance(f.value, ast.Name) and f.value.id == "time":
            return False   # value is needed syntactically; handled as opaque number by the executor hook
        chain = _chain_root_names(n)
        # explain chain: ...matching().result(x).because(y)
        if f.attr in EXPLAIN and any(c in ("matching", "valuing", "assign", "when_do", "equality", "_what") for c in chain):
            return True
    return False


EXTERNAL_OPAQUE = {("datetime", "now"), ("time", "time"), ("time", "perf_counter_ns"), ("traceback", "format_exc"),
                   ("timezone", "utc"), ("uuid", "uuid4")}
RULES.append("external calls treated as opaque fresh values: datetime.now(), time.time(), time.perf_counter_ns(), traceback.format_exc()")


def is_external_opaque(n: ast.Call) -> bool:
    f = n.func
    if isinstance(f, ast.Attribute) and isinstance(f.value, ast.Name):
        return (f.value.id, f.attr) in EXTERNAL_OPAQUE
    return False


# pure external functions modelled as uninterpreted functions of their arguments ([A]: the file system does not change under the
# function's feet except through the calls listed as effects)
EXTERNAL_PURE = {"os.path.exists": ("fs_exists", "bool"), "os.path.join": ("path_join", "str"), "os.path.isfile": ("fs_isfile", "bool"),
                 "os.path.isdir": ("fs_isdir", "bool"), "os.path.basename": ("path_basename", "str"), "os.path.dirname": ("path_dirname", "str")}
EXTERNAL_EFFECT = {"os.makedirs", "os.mkdir"}
RULES.append("`with open(p, mode) as f:` and json.dump(x, f) are recorded in an effect log (path, payload); the bytes written are [A] json; "
             "shutil.copy(src, dst) is recorded as (destination, source); the bytes copied are [A] shutil")
RULES.append("external pure calls as uninterpreted functions: os.path.exists/join/isfile/isdir/basename/dirname; os.makedirs/os.mkdir as no-ops on everything a contract mentions")


def dotted(node):
    parts = []
    while isinstance(node, ast.Attribute):
        parts.append(node.attr)
        node = node.value
    if isinstance(node, ast.Name):
        parts.append(node.id)
        return ".".join(reversed(parts))
    return None


def external_kind(n: ast.Call) -> str:
    f = n.func
    if isinstance(f, ast.Attribute) and isinstance(f.value, ast.Name) and f.value.id == "time":
        return "real" if f.attr == "time" else "int"
    return "opaque"


def is_dropped_unit(unit) -> bool:
    return unit.node.name in DROPPED_UNIT_NAMES


def is_trivial_accessor(unit) -> bool:
    """@property whose body is `return self._x` or setter `self._x = v` (after dropping docstrings)"""
    body = strip_body(unit.node.body)
    if len(body) != 1:
        return False
    s = body[0]
    if isinstance(s, ast.Return) and isinstance(s.value, ast.Attribute) and isinstance(s.value.value, ast.Name):
        return True
    if isinstance(s, ast.Assign) and len(s.targets) == 1 and isinstance(s.targets[0], ast.Attribute) \
            and isinstance(s.targets[0].value, ast.Name) and isinstance(s.value, ast.Name):
        return True
    return False


def strip_body(body):
    out = []
    for s in body:
        if isinstance(s, ast.Expr) and isinstance(s.value, ast.Constant) and isinstance(s.value.value, str):
            continue
        out.append(s)
    return out
RULES.append("isinstance(v, C) on an object held as a value is an uninterpreted predicate of the object's identity (pinned for objects the path constructed); "
             "an object constructed by the function is assumed different from every value held by the entry state; "
             "contracts that declare lemmas=['append_nth'] get the (true) fact 'xs.append(x) keeps xs[i] for i < len(xs) and puts x at len(xs)' stated explicitly")
