"""Path-parallel verification: every worker process explores ONE path of one function (a decision prefix),
generates that path's obligations and discharges them in-process (no SMT-LIB round trip for the common case);
undecided VCs go to the CLI back ends from inside the worker.  The parent only schedules prefixes."""
from __future__ import annotations
import os, time, traceback
import multiprocessing as mp
import z3
from . import solve
from .ops import OutsideSubset
from .engine import Obligation, _has_quantifier
from .verify import run_path, FnReport, verify_lemma, MAX_PATHS

_G = {}


class ObRec:
    """what the parent keeps of an obligation"""
    __slots__ = ("fn", "clause", "kind", "path_id", "note", "smt_head", "smtlib")

    def __init__(self, fn, clause, kind, path_id, note, smt_head="", smtlib=""):
        self.fn, self.clause, self.kind, self.path_id, self.note, self.smt_head, self.smtlib = fn, clause, kind, path_id, note, smt_head, smtlib


def _solve_terms(pc, goal, inputs, timeout_ms, thorough, expect_sat=False):
    """in-process: E-matching phase, then default; CLI portfolio on unknown (or always, in thorough)"""
    t0 = time.time()
    neg = goal if expect_sat else z3.Not(goal)
    has_q = any(_has_quantifier(c) for c in pc) or _has_quantifier(goal)
    tried = []
    res = None
    try:
        if has_q and not expect_sat:
            s = z3.Solver()
            s.set("timeout", min(timeout_ms, 6000))
            s.set("smt.mbqi", False)
            s.set("smt.auto_config", False)
            s.add(*pc)
            s.add(neg)
            r = s.check()
            tried.append({"backend": "z3-5.1-api(ematching)", "result": str(r), "seconds": round(time.time() - t0, 4)})
            if r == z3.unsat:
                res = {"result": "unsat", "backend": "z3-5.1-api(ematching)"}
        if res is None:
            t1 = time.time()
            s = z3.Solver()
            s.set("timeout", timeout_ms)
            s.add(*pc)
            s.add(neg)
            r = s.check()
            tried.append({"backend": "z3-5.1-api", "result": str(r), "seconds": round(time.time() - t1, 4)})
            res = {"result": str(r), "backend": "z3-5.1-api"}
            if r == z3.sat:
                m = s.model()
                vals = {}
                for name, t in inputs.items():
                    try:
                        if "[*]." in name:
                            base = name.split("[*].")[0]
                            lt = inputs.get(base + "!len")
                            n = m.eval(lt, model_completion=True).as_long() if lt is not None else 0
                            vals[name] = [solve._model_value(m.eval(z3.Select(t, i), model_completion=True)) for i in range(max(0, min(n, 8)))]
                        else:
                            vals[name] = solve._model_value(m.eval(t, model_completion=True))
                    except Exception:
                        pass
                res["model"] = vals
            elif r == z3.unknown:
                res["reason"] = s.reason_unknown()
    except z3.Z3Exception as e:
        res = {"result": "error", "reason": str(e)[:300], "backend": "z3-5.1-api"}
    if res["result"] not in ("sat", "unsat") or thorough:
        smt2 = solve.to_smt2(pc, goal, expect_sat=expect_sat)
        for which in ("z3old", "cvc5"):
            r2 = solve._check_cli(smt2, which, timeout_ms / 1000.0)
            tried.append({k: r2[k] for k in ("backend", "result", "seconds")})
            if res["result"] not in ("sat", "unsat") and r2["result"] in ("sat", "unsat"):
                res = {"result": r2["result"], "backend": r2["backend"], "model": res.get("model")}
                if not thorough:
                    break
    verdicts = {t["result"] for t in tried if t["result"] in ("sat", "unsat")}
    res["disagreement"] = len(verdicts) > 1
    res["tried"] = tried
    res["seconds"] = res["seconds_total"] = round(time.time() - t0, 4)
    return res


def _explore(task):
    ci, prefix = task
    ctx, contracts, timeout_ms, thorough = _G["ctx"], _G["contracts"], _G["timeout_ms"], _G["thorough"]
    contract = contracts[ci]
    unit = ctx.facts.unit(contract.target)
    out = {"ci": ci, "prefix": prefix, "pending": [], "obls": [], "shapes": {}, "notes": [], "outcome": "end", "error": None}
    try:
        ex, outcome = run_path(ctx, contract, unit, prefix)
    except OutsideSubset as e:
        out["error"] = ("outside-subset", str(e))
        return out
    except Exception as e:
        out["error"] = ("crash", f"{type(e).__name__}: {e}\n{traceback.format_exc()[-1500:]}")
        return out
    out["pending"] = ex.pending
    out["outcome"] = outcome[0] if outcome else "end"
    out["shapes"] = {p: t for p, (t, v) in ex.input_shapes.items()}
    out["notes"] = ex.notes
    obls = list(ex.obls)
    # canary: the pipeline must be able to refute `False` on a feasible normal exit
    if out["outcome"] == "normal" and obls:
        o0 = next((o for o in obls if o.kind == "ensures"), obls[-1])
        obls.append(Obligation(o0.fn, "canary", "cover", o0.pc, z3.BoolVal(True), o0.path_id))
    first_head = True
    for o in obls:
        rec = {"fn": o.fn, "clause": o.clause, "kind": o.kind, "path_id": o.path_id, "note": o.note, "smt_head": "", "smtlib": ""}
        g = o.goal
        if o.kind != "cover" and z3.is_true(g):
            rec["result"] = {"result": "unsat", "seconds": 0.0, "backend": "simplifier", "seconds_total": 0.0, "tried": [], "disagreement": False}
        elif o.kind == "cover" and z3.is_false(g):
            rec["result"] = {"result": "unsat", "seconds": 0.0, "backend": "simplifier", "seconds_total": 0.0, "tried": [], "disagreement": False}
        else:
            pc = o.pc
            if o.kind == "cover":
                pc = [c for c in pc if not _has_quantifier(c)]
                r = _solve_terms(pc, g, {}, min(timeout_ms, 10000), False, expect_sat=True)
            else:
                r = _solve_terms(pc, g, ex.inputs, timeout_ms, thorough)
                if r["result"] not in ("sat", "unsat"):
                    # retry with a doubled budget, then without quantified assumptions (fewer assumptions: unsat is still a proof)
                    r2 = _solve_terms(pc, g, ex.inputs, timeout_ms * 2, True)
                    r2["retried"] = True
                    if r2["result"] in ("sat", "unsat"):
                        r = r2
                    elif any(_has_quantifier(c) for c in pc) and not _has_quantifier(g):
                        r3 = _solve_terms([c for c in pc if not _has_quantifier(c)], g, ex.inputs, timeout_ms, False)
                        if r3["result"] == "unsat":
                            r3["backend"] = r3.get("backend", "?") + " (quantified assumptions dropped)"
                            r = r3
                if r["result"] != "unsat":
                    rec["smtlib"] = solve.to_smt2(pc, g)[:6000]
            rec["result"] = r
            if first_head and o.kind == "ensures":
                rec["smt_head"] = solve.to_smt2(pc, g)[:600]
                first_head = False
        out["obls"].append(rec)
    return out


def verify_parallel(ctx, contracts, timeout_ms=20000, thorough=False, procs=None):
    """returns [FnReport] (obligations are ObRec, results are dicts)"""
    reports = []
    live = []
    for ci, c in enumerate(contracts):
        rep = FnReport(c)
        unit = ctx.facts.unit(c.target)
        if unit is None:
            rep.status, rep.reason = "missing", f"{c.target} not found in the working tree"
        else:
            rep.unit = unit
            live.append(ci)
        reports.append(rep)
    _G.update(ctx=ctx, contracts=contracts, timeout_ms=timeout_ms, thorough=thorough)
    procs = procs or min(16, os.cpu_count() or 4)
    counts = {ci: 0 for ci in live}
    dead = set()
    with mp.get_context("fork").Pool(procs) as pool:
        pending = []
        for ci in live:
            pending.append(pool.apply_async(_explore, ((ci, []),)))
        while pending:
            nxt = []
            progressed = False
            for ar in pending:
                if not ar.ready():
                    nxt.append(ar)
                    continue
                progressed = True
                out = ar.get()
                ci = out["ci"]
                rep = reports[ci]
                if ci in dead:
                    continue
                if out["error"]:
                    kind, msg = out["error"]
                    rep.status, rep.reason = ("outside-subset", msg) if kind == "outside-subset" else ("crash", msg)
                    rep.obligations, rep.results = [], []
                    dead.add(ci)
                    continue
                counts[ci] += 1
                if counts[ci] > MAX_PATHS:
                    rep.status, rep.reason = "outside-subset", f"more than {MAX_PATHS} paths"
                    rep.obligations, rep.results = [], []
                    dead.add(ci)
                    continue
                rep.path_outcomes.append(out["outcome"])
                for p_, t_ in out["shapes"].items():
                    rep.shapes.setdefault(p_, t_)
                rep.notes.extend(out["notes"])
                for rec in out["obls"]:
                    rep.obligations.append(ObRec(rec["fn"], rec["clause"], rec["kind"], tuple(rec["path_id"]), rec["note"], rec["smt_head"], rec["smtlib"]))
                    rep.results.append(rec["result"])
                for pf in out["pending"]:
                    nxt.append(pool.apply_async(_explore, ((ci, pf),)))
            pending = nxt
            if not progressed:
                time.sleep(0.02)
    for ci in live:
        reports[ci].paths = counts[ci]
    return reports
