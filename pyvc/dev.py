"""development runner: python3-vt -m pyvc.dev C02 [filter]"""
import importlib, sys, time
from .facts import Facts
from .contract import Registry
from .engine import Ctx
from .verify import verify_contract, discharge_reports, verify_lemma


def main():
    pid = sys.argv[1]
    flt = sys.argv[2] if len(sys.argv) > 2 else ""
    t0 = time.time()
    facts = Facts()
    reg = Registry()
    mod = importlib.import_module(f"contracts.{pid}")
    for c in mod.contracts():
        reg.add(c)
    for extra in getattr(mod, "USES", []):
        for c in importlib.import_module(f"contracts.{extra}").contracts():
            c._foreign = True
            reg.add(c)
    ctx = Ctx(facts, reg)
    from .parallel import verify_parallel
    own = [c for c in reg.contracts if not ((flt and flt not in c.ident) or c.interface or getattr(c, "_foreign", False))]
    t1 = time.time()
    reps = verify_parallel(ctx, own)
    for rep in reps:
        c = rep.contract
        print(f"[{c.ident}] status={rep.status} {rep.reason[:600]} paths={rep.paths} obligations={len(rep.obligations)} solver={sum(r.get('seconds_total',0) for r in rep.results):.1f}s outcomes={dict((x, rep.path_outcomes.count(x)) for x in set(rep.path_outcomes))}")
    print(f"verify_parallel {time.time()-t1:.1f}s")
    lem = []
    if hasattr(mod, "lemmas") and not flt:
        for l in mod.lemmas():
            lem.append(verify_lemma(ctx, l))
    discharge_reports(lem, timeout_ms=20000)
    reps = reps + lem
    bad = 0
    for rep in reps:
        agg = {}
        for o, r in zip(rep.obligations, rep.results):
            agg.setdefault((o.clause, o.kind), []).append((o, r))
        if getattr(rep, "unit", None) is not None and rep.status == "ok":
            for cl in rep.contract.ensures:
                if not any(k[0] == cl for k in agg):
                    print(f"   {rep.contract.ident}.{cl:40s} VACUOUS: no obligation generated")
                    bad += 1
            inits = {k[0].split(".inv")[0] for k in agg if k[1] == "inv-init"}
            pres = {k[0].split(".inv")[0] for k in agg if k[1] == "inv-preserve"}
            for lp in sorted(inits - pres):
                print(f"   {rep.contract.ident}.{lp:40s} VACUOUS: invariants but no preservation obligation")
                bad += 1
        for (cl, kind), lst in agg.items():
            if kind == "cover":
                ok = any(r["result"] == "sat" for _, r in lst)
                st = "reached" if ok else "UNREACHED"
            else:
                rs = [r["result"] for _, r in lst]
                ok = all(x == "unsat" for x in rs)
                st = "proved" if ok else ("FAILED" if "sat" in rs else "UNKNOWN")
            secs = sum(r.get("seconds_total", 0) for _, r in lst)
            print(f"   {rep.contract.ident}.{cl:40s} {kind:14s} {st:10s} vcs={len(lst)} {secs:.2f}s")
            if not ok:
                bad += 1
                for o, r in lst:
                    if kind != "cover" and r["result"] != "unsat":
                        print("      path", o.path_id, r["result"], r.get("reason", ""), o.note, "model:", r.get("model"))
                        break
    print(f"total {time.time()-t0:.1f}s, not-ok clauses: {bad}")


if __name__ == "__main__":
    main()
