"""Per-contract driver: enumerate paths of the real function, collect obligations, discharge them."""
from __future__ import annotations
import ast, time, traceback
import z3
from . import ops, solve
from .ops import SV, NONE, OutsideSubset
from .engine import (path_expr, Exec, Ctx, PathEnd, PyRaise, ReturnSig, BreakSig, ContinueSig, Ref, HObj, HList, HTuple, HDict,
                     Obligation, _as_load)
from . import dropped as DROPPED
from .contract import Contract, Lemma

MAX_PATHS = 4000


class FnReport:
    def __init__(self, contract):
        self.contract = contract
        self.status = "ok"          # ok | missing | outside-subset
        self.reason = ""
        self.unit = None
        self.paths = 0
        self.obligations = []       # Obligation
        self.results = []           # parallel to obligations
        self.covers = {}            # name -> bool reached
        self.notes = []
        self.path_outcomes = []
        self.shapes = {}


def setup_inputs(ex: Exec, unit, contract: Contract):
    a = unit.node.args
    params = [p.arg for p in a.posonlyargs + a.args]
    defaults = dict(zip(params[len(params) - len(a.defaults):], a.defaults)) if a.defaults else {}
    kwonly = [(p.arg, d) for p, d in zip(a.kwonlyargs, a.kw_defaults)]
    for p in params:
        if p == "self" and unit.cls is not None:
            typ = contract.types.get("self", f"obj:{unit.cls.name}")
            ex.locals["self"] = ex.mk(typ, "self")
            continue
        if p == "cls" and unit.kind == "classmethod":
            from .engine import ClassRef
            ex.locals["cls"] = ClassRef(unit.cls.name, unit.cls)
            continue
        typ = contract.types.get(p)
        if typ is None:
            if p in defaults:
                ex.locals[p] = ex.eval(defaults[p])
                continue
            raise OutsideSubset(f"no type for parameter {p} of {contract.ident}")
        ex.locals[p] = ex.mk(typ, p)
    for p, d in kwonly:
        typ = contract.types.get(p)
        if typ is None:
            if d is not None:
                ex.locals[p] = ex.eval(d)
                continue
            raise OutsideSubset(f"no type for kw-only parameter {p}")
        ex.locals[p] = ex.mk(typ, p)
    ex.root_env = ex.locals
    # force creation of every declared access path so that old() and the frame see it
    for path in contract.types:
        if "." in path or "[" in path:
            try:
                ex.spec_mode = True
                ex.eval(ast.parse(path_expr(path), mode="eval").body)
            except PyRaise:
                pass
            finally:
                ex.spec_mode = False
    ex.force_class_fields()
    # declared aliasing: split into worlds
    for pa, pb in contract.may_alias:
        if ex.fork([z3.BoolVal(True), z3.BoolVal(True)]) == 0:
            continue
        ex.spec_mode = True
        try:
            vb = ex.eval(ast.parse(pb, mode="eval").body)
        finally:
            ex.spec_mode = False
        tgt = ast.parse(pa, mode="eval").body
        ex.spec_mode = True
        try:
            va = ex.eval(tgt)
        finally:
            ex.spec_mode = False
        ex.assign(tgt, vb)
        # the merged object answers to both names: keep fields (and declared types) of either path
        if isinstance(va, Ref) and isinstance(vb, Ref) and isinstance(ex.heap[va.oid], HObj) and isinstance(ex.heap[vb.oid], HObj):
            oa, ob = ex.heap[va.oid], ex.heap[vb.oid]
            for k, v in oa.fields.items():
                ob.fields.setdefault(k, v)
            ex.alias_paths.setdefault(ob.path, []).append(oa.path)
        ex.notes.append(f"alias world: {pa} is {pb}")


def run_path(ctx, contract, unit, prefix):
    ex = Exec(ctx, contract, unit, prefix)
    outcome = None
    try:
        setup_inputs(ex, unit, contract)
        for r in contract.requires:
            ex.assume(ex.spec(r))
        ex.old_state = ex.snapshot()
        ex.entry_params = dict(ex.locals)
        ex.pre_pc_len = len(ex.pc)
        try:
            ex.loop_counter = [0]
            ex.exec_block(DROPPED.strip_body(unit.node.body))
            outcome = ("normal", NONE)
        except ReturnSig as r:
            outcome = ("normal", r.value)
        except PyRaise as pr:
            outcome = ("raised", pr.cls, pr.site)
        except (BreakSig, ContinueSig):
            raise OutsideSubset("break/continue outside loop")
        finish(ex, contract, outcome)
    except PathEnd:
        outcome = ("end",)
    return ex, outcome


def finish(ex: Exec, contract: Contract, outcome):
    # in a postcondition a parameter name denotes the argument the caller passed (its entry binding), whatever the body rebinds it to
    ex.locals.update(getattr(ex, "entry_params", {}))
    if outcome[0] == "normal":
        res = outcome[1]
        for cl, e in contract.ensures.items():
            ex.prove(cl, "ensures", ex.spec(e, result=res))
        for exc, spec in contract.raises.items():
            if isinstance(spec, dict) and spec.get("exact", True):
                when = ex.in_old(lambda w=spec["when"]: ex.spec(w))
                ex.prove(f"raises:{exc}.must", "raises", z3.Not(when), note="normal exit although the contract says it raises")
        for nm, e in contract.covers.items():
            o = ex.prove(f"cover:{nm}", "cover", ex.spec(e, result=res))
    elif outcome[0] == "raised":
        exc = outcome[1]
        matched = None
        for dn in contract.raises:
            from .facts import exc_is_a
            if exc_is_a(ex.facts, exc, dn):
                matched = dn
                break
        if matched is None:
            ex.prove("no_unexpected_exception", "raises", z3.BoolVal(False), note=f"{exc} at {outcome[2]}")
        else:
            spec = contract.raises[matched]
            when = spec["when"] if isinstance(spec, dict) else spec
            ex.prove(f"raises:{matched}.only_when", "raises", ex.in_old(lambda: ex.spec(when)), note=f"{exc} at {outcome[2]}")
            ex.locals["raised"] = ex.const(exc)
            for cl, e in contract.ensures_exc.items():
                ex.prove(cl, "ensures-exc", ex.spec(e))
    # frame: everything declared and not in modifies is unchanged (normal and exceptional exits)
    frame_goals = []
    mods = set(contract.modifies)
    aliased = {}
    for canon, alts in ex.alias_paths.items():
        for a in alts:
            aliased[a] = canon
    for path, (typ, v0) in ex.input_shapes.items():
        if path in mods or any(path.startswith(m + ".") for m in mods):
            continue
        if "!" in path:
            continue      # a field of an object allocated by this call (fresh name): not part of the entry state
        # in an alias world a field reached through the aliased name is governed by the canonical path's frame
        ali = next((a for a in aliased if path.startswith(a + ".")), None)
        if ali is not None:
            cp = aliased[ali] + path[len(ali):]
            if cp in mods or any(cp.startswith(m + ".") for m in mods):
                continue
        try:
            ex.spec_mode = True
            node = ast.parse(path_expr(path), mode="eval").body
            cur = ex.eval(node)
            old = ex.freeze_old(ex.in_old(lambda: ex.eval(node)))
        except (PyRaise, OutsideSubset):
            continue
        finally:
            ex.spec_mode = False
        g = z3.simplify(ex.same_value(cur, old))
        if not z3.is_true(g):
            ex.prove(f"frame:{path}", "frame", g)
    for wp in ex.written_paths:
        if isinstance(wp, str) and wp not in ex.input_shapes and wp not in mods and not any(wp.startswith(m + ".") for m in mods):
            # a write to a path the contract does not know: only harmless on objects allocated by this call
            root = wp.split(".")[0]
            if root in ("self",) or root in ex.old_state["locals"]:
                base_path = wp.rsplit(".", 1)[0]
                known = any(isinstance(o, HObj) and o.path == base_path and oid in ex.old_state["heap"] for oid, o in ex.heap.items())
                if known:
                    ex.prove(f"frame:{wp}", "frame", z3.BoolVal(False), note="write to a path outside the contract's footprint")


def verify_contract(ctx: Ctx, contract: Contract, timeout_ms=20000, thorough=False):
    rep = FnReport(contract)
    unit = ctx.facts.unit(contract.target)
    if unit is None:
        rep.status, rep.reason = "missing", f"{contract.target} not found in the working tree"
        return rep
    rep.unit = unit
    work = [[]]
    seen = 0
    try:
        while work:
            prefix = work.pop()
            ex, outcome = run_path(ctx, contract, unit, prefix)
            work.extend(ex.pending)
            seen += 1
            if seen > MAX_PATHS:
                raise OutsideSubset(f"more than {MAX_PATHS} paths")
            rep.path_outcomes.append(outcome[0] if outcome else "end")
            for p_, (t_, v_) in ex.input_shapes.items():
                rep.shapes.setdefault(p_, t_)
            for o in ex.obls:
                o.inputs = dict(ex.inputs)
                o.shapes = {p: t for p, (t, v) in ex.input_shapes.items()}
                rep.obligations.append(o)
            rep.notes.extend(ex.notes)
    except OutsideSubset as e:
        rep.status, rep.reason = "outside-subset", str(e)
        rep.obligations = []
        return rep
    rep.paths = seen
    ctx.stats["paths"] += seen
    return rep


def discharge_reports(reports, timeout_ms=20000, thorough=False):
    jobs, index = [], []
    for rep in reports:
        for k, o in enumerate(rep.obligations):
            if z3.is_true(o.goal) and o.kind != "cover":
                rep.results.append({"result": "unsat", "seconds": 0.0, "backend": "simplifier", "seconds_total": 0.0, "tried": [], "disagreement": False})
                continue
            if o.kind == "cover" and z3.is_false(o.goal):
                rep.results.append({"result": "unsat", "seconds": 0.0, "backend": "simplifier", "seconds_total": 0.0, "tried": [], "disagreement": False})
                continue
            rep.results.append(None)
            pc = o.pc
            if o.kind == "cover":
                # reachability guard: quantified facts make sat-queries undecidable in practice; dropping them
                # over-approximates reachability (stated in the evidence)
                pc = [c for c in pc if not _has_quant(c)]
            jobs.append((solve.to_smt2(pc, o.goal, expect_sat=(o.kind == "cover")), list(o.inputs.keys())))
            index.append((rep, k))
    res = solve.discharge(jobs, timeout_ms=timeout_ms, thorough=thorough)
    for (rep, k), r in zip(index, res):
        rep.results[k] = r
    # second chance for undecided VCs: drop quantified assumptions (fewer assumptions: an unsat answer is still a proof)
    weak, windex = [], []
    for (rep, k), r in zip(index, res):
        o = rep.obligations[k]
        if o.kind != "cover" and r["result"] not in ("sat", "unsat") and any(_has_quant(c) for c in o.pc) and not _has_quant(o.goal):
            weak.append((solve.to_smt2([c for c in o.pc if not _has_quant(c)], o.goal), list(o.inputs.keys())))
            windex.append((rep, k))
    if weak:
        wres = solve.discharge(weak, timeout_ms=timeout_ms, thorough=False)
        for (rep, k), r in zip(windex, wres):
            if r["result"] == "unsat":
                r["backend"] = r.get("backend", "?") + " (quantified assumptions dropped)"
                r["seconds_total"] = r.get("seconds_total", 0) + rep.results[k].get("seconds_total", 0)
                rep.results[k] = r
    return reports


def _has_quant(e):
    seen = set()
    stack = [e]
    while stack:
        t = stack.pop()
        if t.get_id() in seen:
            continue
        seen.add(t.get_id())
        if z3.is_quantifier(t):
            return True
        stack.extend(t.children())
    return False


def verify_lemma(ctx: Ctx, lem: Lemma):
    """code-free implication, evaluated through the same spec evaluator"""
    c = Contract(target="<lemma>::" + lem.name, types=dict(lem.types), macros=dict(lem.macros))

    class _U:   # minimal stand-in for a FuncUnit
        file, cls, qualname = "<lemma>", None, lem.name
    ex = Exec(ctx, c, _U, [])
    ex.fn_ident = "lemma:" + lem.name
    for p, t in lem.types.items():
        if "." not in p:
            ex.locals[p] = ex.mk(t, p)
    ex.old_state = ex.snapshot()
    for a in lem.assume:
        ex.assume(ex.spec(a))
    o = ex.prove(lem.name, "lemma", ex.spec(lem.goal))
    o.inputs = dict(ex.inputs)
    o.shapes = {}
    rep = FnReport(c)
    rep.unit = None
    rep.obligations = [o]
    rep.paths = 1
    return rep
