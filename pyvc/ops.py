"""Python value semantics over SMT terms.

Scalars are ``SV(kind, term)`` with kind in none|bool|int|real|str|val; ``val`` is the
universal datatype used where the tag is not statically known.  Every operation is
total at the SMT level; operations that can raise in Python return the raise condition
separately so the executor can fork an exceptional path.
"""
from __future__ import annotations
import z3
from dataclasses import dataclass

_Val = z3.Datatype("Val")
_Val.declare("NoneV")
_Val.declare("BoolV", ("bv", z3.BoolSort()))
_Val.declare("IntV", ("iv", z3.IntSort()))
_Val.declare("RealV", ("rv", z3.RealSort()))
_Val.declare("StrV", ("sv", z3.StringSort()))
_Val.declare("OpaqueV", ("ov", z3.IntSort()))
Val = _Val.create()

IntSeq = z3.SeqSort(z3.IntSort())
StrSeq = z3.SeqSort(z3.StringSort())
ValSeq = z3.SeqSort(Val)

TAGS = ("none", "bool", "int", "real", "str", "opaque")


@dataclass(frozen=True)
class SV:
    kind: str
    term: object = None
    tags: object = None      # for kind == "val": frozenset of possible python type tags, None = any

    def __repr__(self):
        return f"SV({self.kind},{self.term},{sorted(self.tags) if self.tags else ''})"

    def may(self, tag):
        if self.kind != "val":
            return self.kind == tag
        return self.tags is None or tag in self.tags


def V(term, tags=None):
    return SV("val", term, frozenset(tags) if tags is not None else None)


NONE = SV("none", None)


def B(b):
    return SV("bool", z3.BoolVal(b) if isinstance(b, bool) else b)


def I(i):
    return SV("int", z3.IntVal(i) if isinstance(i, int) else i)


def S(s):
    return SV("str", z3.StringVal(s) if isinstance(s, str) else s)


def R(r):
    return SV("real", z3.RealVal(r) if isinstance(r, (int, float, str)) else r)


TRUE, FALSE = B(True), B(False)


class OutsideSubset(Exception):
    """the construct is not in the accepted subset; no VC is produced"""


# ----------------------------------------------------------------------------
def to_val(v: SV):
    k = v.kind
    if k == "val":
        return v.term
    if k == "none":
        return Val.NoneV
    if k == "bool":
        return Val.BoolV(v.term)
    if k == "int":
        return Val.IntV(v.term)
    if k == "real":
        return Val.RealV(v.term)
    if k == "str":
        return Val.StrV(v.term)
    raise OutsideSubset(f"to_val of {v}")


def simp(t):
    return z3.simplify(t)


def zif(c, a, b):
    c = z3.simplify(c) if z3.is_expr(c) else z3.BoolVal(bool(c))
    if z3.is_true(c):
        return a
    if z3.is_false(c):
        return b
    return z3.If(c, a, b)


def from_val(term) -> SV:
    """wrap a Val-sorted term, collapsing statically known constructors"""
    t = simp(term)
    if z3.is_app(t):
        d = t.decl().name()
        if d == "NoneV":
            return NONE
        if d == "BoolV":
            return SV("bool", t.arg(0))
        if d == "IntV":
            return SV("int", t.arg(0))
        if d == "RealV":
            return SV("real", t.arg(0))
        if d == "StrV":
            return SV("str", t.arg(0))
    return SV("val", t)


def tag_is(v: SV, tag: str):
    """z3 Bool: v has python type tag"""
    if v.kind != "val":
        return z3.BoolVal(v.kind == tag)
    if not v.may(tag):
        return z3.BoolVal(False)
    if v.tags is not None and len(v.tags) == 1:
        return z3.BoolVal(True)
    t = v.term
    return {"none": Val.is_NoneV, "bool": Val.is_BoolV, "int": Val.is_IntV, "real": Val.is_RealV,
            "str": Val.is_StrV, "opaque": Val.is_OpaqueV}[tag](t)


def is_numeric(v: SV):
    if v.kind in ("bool", "int", "real"):
        return z3.BoolVal(True)
    if v.kind != "val":
        return z3.BoolVal(False)
    return z3.Or([tag_is(v, t) for t in ("bool", "int", "real") if v.may(t)] + [z3.BoolVal(False)])


def is_integral(v: SV):
    if v.kind in ("bool", "int"):
        return z3.BoolVal(True)
    if v.kind != "val":
        return z3.BoolVal(False)
    return z3.Or([tag_is(v, t) for t in ("bool", "int") if v.may(t)] + [z3.BoolVal(False)])


def as_int(v: SV):
    """Int view of bool/int (unspecified otherwise)"""
    if v.kind == "int":
        return v.term
    if v.kind == "bool":
        return z3.If(v.term, z3.IntVal(1), z3.IntVal(0))
    if v.kind == "val":
        if not v.may("bool"):
            return Val.iv(v.term)
        return z3.If(Val.is_BoolV(v.term), z3.If(Val.bv(v.term), z3.IntVal(1), z3.IntVal(0)), Val.iv(v.term))
    return z3.IntVal(0)


def as_real(v: SV):
    if v.kind == "real":
        return v.term
    if v.kind in ("int", "bool"):
        return z3.ToReal(as_int(v))
    if v.kind == "val":
        if not v.may("real"):
            return z3.ToReal(as_int(v))
        return z3.If(Val.is_RealV(v.term), Val.rv(v.term), z3.ToReal(as_int(v)))
    return z3.RealVal(0)


def as_str(v: SV):
    if v.kind == "str":
        return v.term
    if v.kind == "val":
        return Val.sv(v.term)
    return z3.StringVal("")


opaque_truthy = z3.Function("opaque_truthy", z3.IntSort(), z3.BoolSort())


def truthy(v) -> z3.BoolRef:
    if not isinstance(v, SV):
        raise OutsideSubset("truthy of non-scalar handled by executor")
    k = v.kind
    if k == "none":
        return z3.BoolVal(False)
    if k == "bool":
        return v.term
    if k == "int":
        return v.term != 0
    if k == "real":
        return v.term != 0
    if k == "str":
        return z3.Length(v.term) > 0
    t = v.term
    cases = [("none", Val.is_NoneV(t), z3.BoolVal(False)), ("bool", Val.is_BoolV(t), Val.bv(t)),
             ("int", Val.is_IntV(t), Val.iv(t) != 0), ("real", Val.is_RealV(t), Val.rv(t) != 0),
             ("str", Val.is_StrV(t), z3.Length(Val.sv(t)) > 0), ("opaque", Val.is_OpaqueV(t), opaque_truthy(Val.ov(t)))]
    return _chain([c for c in cases if v.may(c[0])])


def _chain(cases):
    """ite chain over the possible tags; the last possible tag needs no test"""
    if not cases:
        return z3.BoolVal(False)
    cur = cases[-1][2]
    for _, test, val in reversed(cases[:-1]):
        cur = z3.If(test, val, cur)
    return cur


def _mk_ite(c, a: SV, b: SV) -> SV:
    """value-level conditional keeping static kind / tag knowledge"""
    if a.kind == b.kind and a.kind in ("bool", "int", "str", "real"):
        return SV(a.kind, z3.If(c, a.term, b.term))
    if a.kind == "none" and b.kind == "none":
        return NONE
    ta = a.tags if a.kind == "val" else frozenset([a.kind])
    tb = b.tags if b.kind == "val" else frozenset([b.kind])
    tags = None if (ta is None or tb is None) else (ta | tb)
    return SV("val", z3.If(c, to_val(a), to_val(b)), tags)


def eq(a: SV, b: SV) -> z3.BoolRef:
    """python == on scalars"""
    ka, kb = a.kind, b.kind
    if ka == "none" or kb == "none":
        other = b if ka == "none" else a
        return tag_is(other, "none")
    if ka == kb and ka in ("bool", "int", "real", "str"):
        return a.term == b.term
    num = ("bool", "int", "real")
    if ka in num and kb in num:
        if "real" in (ka, kb):
            return as_real(a) == as_real(b)
        return as_int(a) == as_int(b)
    if (ka == "str" and kb in num) or (kb == "str" and ka in num):
        return z3.BoolVal(False)
    # at least one val
    both_num = z3.And(is_numeric(a), is_numeric(b))
    both_int = z3.And(is_integral(a), is_integral(b))
    both_str = z3.And(tag_is(a, "str"), tag_is(b, "str"))
    both_none = z3.And(tag_is(a, "none"), tag_is(b, "none"))
    both_opq = z3.And(tag_is(a, "opaque"), tag_is(b, "opaque"))
    can_real = a.may("real") or b.may("real")
    cur = z3.BoolVal(False)
    if a.may("opaque") and b.may("opaque"):
        cur = zif(both_opq, to_val(a) == to_val(b), cur)
    if a.may("none") and b.may("none"):
        cur = zif(both_none, z3.BoolVal(True), cur)
    if a.may("str") and b.may("str"):
        cur = zif(both_str, as_str(a) == as_str(b), cur)
    if can_real:
        cur = zif(both_num, as_real(a) == as_real(b), cur)
    return zif(both_int, as_int(a) == as_int(b), cur)


def same_object(a: SV, b: SV):
    """python `is` on scalars that the target code uses: None, True, False, small ints"""
    if a.kind == "none" or b.kind == "none":
        return tag_is(b if a.kind == "none" else a, "none")
    if a.kind == "bool" or b.kind == "bool":
        bb, other = (a, b) if a.kind == "bool" else (b, a)
        if other.kind == "bool":
            return bb.term == other.term
        if other.kind == "val":
            return z3.And(Val.is_BoolV(other.term), Val.bv(other.term) == bb.term)
        return z3.BoolVal(False)
    return to_val(a) == to_val(b)


def compare(op: str, a: SV, b: SV):
    """returns (result Bool, raises_TypeError Bool) for < <= > >="""
    def rel(x, y):
        return {"<": x < y, "<=": x <= y, ">": x > y, ">=": x >= y}[op]

    def srel(x, y):
        # lexicographic by code point: z3 str.< / str.<=
        lt = z3.StrLT(x, y) if hasattr(z3, "StrLT") else x < y
        if op == "<":
            return x < y
        if op == "<=":
            return x <= y
        if op == ">":
            return y < x
        return y <= x

    num = ("bool", "int", "real")
    if a.kind in num and b.kind in num:
        if "real" in (a.kind, b.kind):
            return rel(as_real(a), as_real(b)), z3.BoolVal(False)
        return rel(as_int(a), as_int(b)), z3.BoolVal(False)
    if a.kind == "str" and b.kind == "str":
        return srel(a.term, b.term), z3.BoolVal(False)
    if a.kind != "val" and b.kind != "val":
        return z3.BoolVal(False), z3.BoolVal(True)
    both_int = z3.And(is_integral(a), is_integral(b))
    both_num = z3.And(is_numeric(a), is_numeric(b))
    both_str = z3.And(tag_is(a, "str"), tag_is(b, "str"))
    can_real = a.may("real") or b.may("real")
    cur = z3.BoolVal(False)
    if a.may("str") and b.may("str"):
        cur = zif(both_str, srel(as_str(a), as_str(b)), cur)
    if can_real:
        cur = zif(both_num, rel(as_real(a), as_real(b)), cur)
    res = zif(both_int, rel(as_int(a), as_int(b)), cur)
    return res, z3.simplify(z3.Not(z3.Or(both_num, both_str)))


def arith(op: str, a: SV, b: SV):
    """returns (SV, raises_TypeError Bool, raises_ZeroDivision Bool)"""
    F = z3.BoolVal(False)
    num = ("bool", "int", "real")
    if a.kind in num and b.kind in num:
        if "real" in (a.kind, b.kind) or op == "/":
            x, y = as_real(a), as_real(b)
            if op == "+":
                return R(x + y), F, F
            if op == "-":
                return R(x - y), F, F
            if op == "*":
                return R(x * y), F, F
            if op == "/":
                return R(x / y), F, y == 0
            raise OutsideSubset(f"real {op}")
        x, y = as_int(a), as_int(b)
        if op == "+":
            return I(x + y), F, F
        if op == "-":
            return I(x - y), F, F
        if op == "*":
            return I(x * y), F, F
        if op == "//":
            # python floor division; z3 div is euclidean-ish (floors for positive divisor)
            q = z3.If(y > 0, x / y, z3.If(y < 0, (-x) / (-y), 0))
            return I(q), F, y == 0
        if op == "%":
            r = z3.If(y > 0, x % y, z3.If(y < 0, -((-x) % (-y)), 0))
            return I(r), F, y == 0
        raise OutsideSubset(f"int {op}")
    if a.kind == "str" and b.kind == "str" and op == "+":
        return S(z3.Concat(a.term, b.term)), F, F
    if a.kind != "val" and b.kind != "val":
        if op == "*" and {a.kind, b.kind} <= {"str", "int"}:
            raise OutsideSubset("str * int")
        return NONE, z3.BoolVal(True), F
    # dynamic: only + - * on ints / strs are folded into val
    both_int = z3.And(is_integral(a), is_integral(b))
    both_num = z3.And(is_numeric(a), is_numeric(b))
    both_str = z3.And(tag_is(a, "str"), tag_is(b, "str"))
    x, y = as_int(a), as_int(b)
    xr, yr = as_real(a), as_real(b)
    can_real_ = a.may("real") or b.may("real")
    can_str_ = a.may("str") and b.may("str")
    rtags = frozenset(t for t, ok in (("int", True), ("real", can_real_), ("str", can_str_ and op == "+")) if ok)
    if op == "+":
        res = z3.If(both_int, Val.IntV(x + y), z3.If(both_num, Val.RealV(xr + yr), Val.StrV(z3.Concat(as_str(a), as_str(b)))))
        return SV("val", res, rtags), z3.Not(z3.Or(both_num, both_str)), F
    if op == "-":
        res = z3.If(both_int, Val.IntV(x - y), Val.RealV(xr - yr))
        return SV("val", res, rtags), z3.Not(both_num), F
    if op == "*":
        res = z3.If(both_int, Val.IntV(x * y), Val.RealV(xr * yr))
        return SV("val", res, rtags), z3.Not(both_num), F
    if op == "/":
        return SV("val", Val.RealV(xr / yr)), z3.Not(both_num), yr == 0
    if op == "%" and not (a.may("real") or b.may("real")) and not (a.may("str")):
        # integral modulo on dynamically typed operands (a str left operand would be %-formatting: excluded by the tag test)
        r = z3.If(y > 0, x % y, z3.If(y < 0, -((-x) % (-y)), 0))
        return SV("val", Val.IntV(r), frozenset(("int",))), z3.Not(both_int), y == 0
    raise OutsideSubset(f"dynamic {op}")


# ---- str()/f-string ---------------------------------------------------------
real_to_str = z3.Function("real_to_str", z3.RealSort(), z3.StringSort())
opaque_to_str = z3.Function("opaque_to_str", z3.IntSort(), z3.StringSort())


def int_to_str(i):
    return z3.If(i >= 0, z3.IntToStr(i), z3.Concat(z3.StringVal("-"), z3.IntToStr(-i)))


def to_str(v: SV):
    k = v.kind
    if k == "none":
        return z3.StringVal("None")
    if k == "bool":
        return z3.If(v.term, z3.StringVal("True"), z3.StringVal("False"))
    if k == "int":
        return int_to_str(v.term)
    if k == "real":
        return real_to_str(v.term)
    if k == "str":
        return v.term
    t = v.term
    cases = [("none", Val.is_NoneV(t), z3.StringVal("None")),
             ("bool", Val.is_BoolV(t), z3.If(Val.bv(t), z3.StringVal("True"), z3.StringVal("False"))),
             ("int", Val.is_IntV(t), int_to_str(Val.iv(t))), ("real", Val.is_RealV(t), real_to_str(Val.rv(t))),
             ("str", Val.is_StrV(t), Val.sv(t)), ("opaque", Val.is_OpaqueV(t), opaque_to_str(Val.ov(t)))]
    cases = [c for c in cases if v.may(c[0])]
    cur = cases[-1][2]
    for _, test, val in reversed(cases[:-1]):
        cur = z3.If(test, val, cur)
    return cur


# ---- int()/float() on strings ----------------------------------------------
py_int_ok = z3.Function("py_int_ok", z3.StringSort(), z3.BoolSort())
py_int_of = z3.Function("py_int_of", z3.StringSort(), z3.IntSort())
py_float_ok = z3.Function("py_float_ok", z3.StringSort(), z3.BoolSort())
py_float_of = z3.Function("py_float_of", z3.StringSort(), z3.RealSort())
py_strip = z3.Function("py_strip", z3.StringSort(), z3.StringSort())
py_lower = z3.Function("py_lower", z3.StringSort(), z3.StringSort())
py_upper = z3.Function("py_upper", z3.StringSort(), z3.StringSort())
py_round = z3.Function("py_round", z3.RealSort(), z3.IntSort(), z3.RealSort())


def int_parse_axioms(s):
    """facts about int(s) for a particular string term s (instantiated on use, no quantifier)"""
    n = z3.StrToInt(s)
    return [z3.Implies(n >= 0, z3.And(py_int_ok(s), py_int_of(s) == n)),
            z3.Implies(z3.Length(s) == 0, z3.Not(py_int_ok(s)))]


def strip_axioms(s):
    r = py_strip(s)
    ws = [z3.StringVal(c) for c in (" ", "\t", "\n", "\r", "\x0b", "\x0c")]

    def is_ws_at(x, i):
        c = z3.SubString(x, i, 1)
        return z3.Or([c == w for w in ws])
    return [z3.Contains(s, r), z3.Length(r) <= z3.Length(s),
            z3.Implies(z3.Length(r) > 0, z3.And(z3.Not(is_ws_at(r, 0)), z3.Not(is_ws_at(r, z3.Length(r) - 1)))),
            z3.Implies(z3.And(z3.Length(s) > 0, z3.Not(is_ws_at(s, 0)), z3.Not(is_ws_at(s, z3.Length(s) - 1))), r == s),
            z3.Implies(z3.Length(s) == 0, r == s)]


# ---- sequences -----------------------------------------------------------------
def seq_sort(elem: str):
    return {"int": IntSeq, "str": StrSeq, "val": ValSeq}[elem]


def elem_term(elem: str, v: SV):
    """coerce scalar to element sort of a typed list; returns (term, fits Bool)"""
    if elem == "val":
        return to_val(v), z3.BoolVal(True)
    if elem == "int":
        if v.kind in ("int", "bool"):
            return as_int(v), z3.BoolVal(True)
        if v.kind == "val":
            return as_int(v), is_integral(v)
        return z3.IntVal(0), z3.BoolVal(False)
    if elem == "str":
        if v.kind == "str":
            return v.term, z3.BoolVal(True)
        if v.kind == "val":
            return Val.sv(v.term), Val.is_StrV(v.term)
        return z3.StringVal(""), z3.BoolVal(False)
    raise OutsideSubset(elem)


def elem_sv(elem: str, term) -> SV:
    if elem == "val":
        return from_val(term)
    return SV(elem, term)


seq_max = z3.Function("seq_max", IntSeq, z3.IntSort())
seq_min = z3.Function("seq_min", IntSeq, z3.IntSort())

# recursive spec predicate over integer sequences, unfolded by the executor at every append:
#   strictly_increasing([]) ; strictly_increasing(s ++ [v]) == strictly_increasing(s) and all(x < v for x in s)
seq_incr = z3.Function("strictly_increasing", IntSeq, z3.BoolSort())

_PS = z3.RecFunction("prefix_sum", z3.ArraySort(z3.IntSort(), z3.IntSort()), z3.IntSort(), z3.IntSort())
_a, _k = z3.Const("ps_a", z3.ArraySort(z3.IntSort(), z3.IntSort())), z3.Int("ps_k")
z3.RecAddDefinition(_PS, [_a, _k], z3.If(_k <= 0, 0, _PS(_a, _k - 1) + z3.Select(_a, _k - 1)))


def prefix_sum(arr, k):
    return _PS(arr, k)

_IOTA = z3.RecFunction("iota", z3.IntSort(), IntSeq)
_n = z3.Int("iota_n")
z3.RecAddDefinition(_IOTA, [_n], z3.If(_n <= 0, z3.Empty(IntSeq), z3.Concat(_IOTA(_n - 1), z3.Unit(_n - 1))))


def iota(k):
    return _IOTA(k)

# split_dot(s) = s.split("."): the standard recursive definition (head up to the first dot, then the split of the rest)
_SPL = z3.RecFunction("split_dot", z3.StringSort(), StrSeq)
_ss = z3.String("spl_s")
_sd = z3.IndexOf(_ss, z3.StringVal("."), z3.IntVal(0))
z3.RecAddDefinition(_SPL, [_ss], z3.If(_sd < 0, z3.Unit(_ss),
                                      z3.Concat(z3.Unit(z3.SubString(_ss, 0, _sd)), _SPL(z3.SubString(_ss, _sd + 1, z3.Length(_ss) - _sd - 1)))))


def split_dot(s):
    return _SPL(s)

dict_nonempty = z3.Function("dict_nonempty", z3.ArraySort(z3.StringSort(), z3.BoolSort()), z3.BoolSort())
