"""Sidecar contract objects (DESIGN §3.1).  Pure data; the text of every clause is a Python
expression in the spec language, used both for the SMT proof and for native evaluation."""
from __future__ import annotations
from dataclasses import dataclass, field


@dataclass
class Contract:
    target: str                       # "csvpath/x.py::Class.method"
    types: dict                       # access path / parameter -> type string
    requires: list = field(default_factory=list)
    modifies: list = field(default_factory=list)     # access paths (post-state may differ from old)
    ensures: dict = field(default_factory=dict)      # clause -> expr (normal exits)
    raises: dict = field(default_factory=dict)       # ExcName -> {"when": expr over old state, "exact": bool}
    ensures_exc: dict = field(default_factory=dict)  # clause -> expr (exceptional exits; `raised` is the class name)
    invariants: dict = field(default_factory=dict)   # loop ordinal -> [exprs]
    loop_index: dict = field(default_factory=dict)   # loop ordinal -> name of ghost index / history var
    loop_havoc: dict = field(default_factory=dict)   # loop ordinal -> [paths] (overrides the syntactic analysis)
    inline: list = field(default_factory=list)       # callee qualnames executed from source
    macros: dict = field(default_factory=dict)       # name -> (params, expr)
    may_alias: list = field(default_factory=list)    # [(path_a, path_b)]
    returns: str = "val"                             # type of result when used as a callee contract
    property_clauses: dict = field(default_factory=dict)   # clause -> property id(s)
    covers: dict = field(default_factory=dict)       # name -> expr that must be reachable at some normal exit
    variant: str = ""                                # several contracts per function (case splits on argument shape)
    extra_attrs: dict = field(default_factory=dict)  # class name -> attrs added dynamically (attribute safety)
    doc: dict = field(default_factory=dict)          # clause -> sentence of documentation / property it is taken from
    bounded: dict = field(default_factory=dict)      # native bounded-scope description (stand-in; DESIGN §5.2)
    native: dict = field(default_factory=dict)       # hints for the native harness (class keys, stubs)
    pure: bool = False
    class_fields: dict = field(default_factory=dict)   # class name -> {attr: type}: field types (incl. ghost fields g_*) by class
    list_literals: dict = field(default_factory=dict)   # local name -> list type: an empty `[]` assigned to that name is a typed symbolic list
    loop_counts: dict = field(default_factory=dict)     # loop ordinal -> ghost int path incremented each time the loop takes an item (pulls of a generator)
    stub_new: list = field(default_factory=list)      # classes constructed as a fresh object WITHOUT running __init__ (their methods are interface contracts)
    opaque_new: list = field(default_factory=list)    # classes whose construction is treated as an opaque fresh value (helper objects no clause mentions)
    yield_to: str = ""                                # generator functions: ghost list (of record indices / values) that `yield` appends to
    backrefs: dict = field(default_factory=dict)      # "Class.attr" -> root-level path: object-typed field of LIST ELEMENTS that points back at a named object
    opaque: list = field(default_factory=list)        # macros kept as uninterpreted functions while verifying THIS function (hide definitions the proof does not need)
    interface: bool = False            # [A] interface contract on an abstract collaborator: used at call sites, never verified against a body
    assumptions: list = field(default_factory=list)  # [A] statements this contract rests on
    callee_variants: dict = field(default_factory=dict)  # callee qualname -> which of its contract variants this caller is checked against
    lemmas: list = field(default_factory=list)        # named true facts the engine states explicitly while verifying THIS function ("append_nth": what xs.append(x) does to xs[i])

    @property
    def ident(self):
        q = self.target.split("::")[1]
        return q + (f"[{self.variant}]" if self.variant else "")


@dataclass
class Lemma:
    """code-free implication over spec expressions (discharged by the same back ends)"""
    name: str
    types: dict
    assume: list
    goal: str
    macros: dict = field(default_factory=dict)
    property_id: str = ""
    doc: str = ""


class Registry:
    def __init__(self):
        self.contracts = []        # all
        self.by_target = {}        # target -> [contracts]
        self.lemmas = []

    def add(self, c):
        if isinstance(c, Lemma):
            self.lemmas.append(c)
            return c
        if any(x.variant == c.variant and x.interface == c.interface for x in self.by_target.get(c.target, [])):
            return c      # the same contract reached through two modules
        self.contracts.append(c)
        self.by_target.setdefault(c.target, []).append(c)
        return c

    def callee(self, target):
        cs = self.by_target.get(target)
        return cs if cs else None
