#!/venv/bin/python
"""Bounded check for C01: collect()/next() return exactly the scanned lines on which the match components hold (oracle = a reference evaluator written
from the property statement and docs/functions/*.md: comparison functions are the numeric / string operators, '==' compares as written or as values,
a bare header is an existence test, not/and/or/in/empty/exists/yes/no/mod/add as documented; no library code is used by the oracle).

 files    150 (thorough 3000) generated files: header a,b,n,m,c + 1..7 records; a,b words; n,m integers 0..120 incl. multi-digit; c often empty;
          blank records; ragged (short) records
 programs 1..4 components (thorough 1..5) drawn from: #a == "x", #n == 5, #a == #b, #c, not(#c), empty(#c), exists(#c), gt/gte/lt/lte/above/below(#n, K | #m),
          in(#a, "x|y"), yes(), no(), not(..)/or(..,..)/and(..,..) over the former, mod(line_number(), 2) == 0, add(#n, 1) == K, @v = #n, <cond> -> @w = #a;
          logic-mode AND and OR; scans * and 1*
 clause   collect() == [offered line | all (any) component predicates hold], each once, in file order; next() yields the same lines
 Failures whose program contains an ordinal comparison whose operands, on some offered line, are (i) equal under lt/below/before or (ii) ordered differently as
 strings than as numbers are tagged (input.known_lt_equal / input.known_string_order): these are the two recorded findings of AboveBelow.
"""
import os, sys
sys.path.insert(0, os.path.dirname(os.path.abspath(__file__)))
from blib import Bounded, run_guarded

WORDS = ["x", "y", "zed", "x", "X", "Zed"]
HEAD = ["a", "b", "n", "m", "c"]


def gen_file(rnd):
    rows = [list(HEAD)]
    for i in range(rnd.randint(1, 7)):
        k = rnd.random()
        if k < 0.15:
            rows.append([])
            continue
        r = [rnd.choice(WORDS), rnd.choice(WORDS), rnd.choice(["0", "1", "2", "5", "9", "10", "12", "100", "120", "5", "05", "5.0"]), str(rnd.choice([0, 3, 5, 9, 10, 11, 99])), rnd.choice(["", "", "v", " "])]
        if k > 0.85:
            r = r[:rnd.randint(1, 4)]
        rows.append(r)
    return rows


def cell(r, name):
    i = HEAD.index(name)
    return r[i].strip() if i < len(r) else None


def is_none(v):
    return v is None or f"{v}".strip() == ""


def num(v):
    return None if is_none(v) else float(v)


class Ctx:
    pass


def gen_atom(rnd):
    k = rnd.choice(["eqs", "eqn", "eqh", "ex", "notex", "empty", "exists", "ord", "ordh", "in", "yes", "no", "mod", "add"])
    if k == "eqs":
        w = rnd.choice(["x", "y", "zed", "q"])
        return (f'#a == "{w}"', lambda r, i, w=w: cell(r, "a") == w, None)
    if k == "eqn":
        v = rnd.choice([0, 5, 10, 12])
        return (f"#n == {v}", lambda r, i, v=v: cell(r, "n") == str(v), None)
    if k == "eqh":
        return ("#a == #b", lambda r, i: f"{cell(r, 'a')}".strip() == f"{cell(r, 'b')}".strip(), None)
    if k == "ex":
        return ("#c", lambda r, i: not is_none(cell(r, "c")), None)
    if k == "notex":
        return ("not(#c)", lambda r, i: is_none(cell(r, "c")), None)
    if k == "empty":
        return ("empty(#c)", lambda r, i: is_none(cell(r, "c")), None)
    if k == "exists":
        return ("exists(#c)", lambda r, i: not is_none(cell(r, "c")), None)
    if k in ("ord", "ordh"):
        f = rnd.choice(["gt", "gte", "lt", "lte", "above", "below"])
        op = {"gt": lambda x, y: x > y, "above": lambda x, y: x > y, "gte": lambda x, y: x >= y, "lt": lambda x, y: x < y, "below": lambda x, y: x < y,
              "lte": lambda x, y: x <= y}[f]
        if k == "ord":
            K = rnd.choice([0, 5, 9, 10, 11, 100])
            rhs_txt, rhs = str(K), (lambda r, K=K: K)
        else:
            rhs_txt, rhs = "#m", (lambda r: cell(r, "m"))

        def pred(r, i, op=op, rhs=rhs):
            x, y = cell(r, "n"), rhs(r)
            if is_none(x) or is_none(y):
                return False if (is_none(x) != is_none(y)) else None      # both absent: the documents do not say
            try:
                return op(float(x), float(y))
            except ValueError:
                return op(f"{x}".strip(), f"{y}".strip())      # above.md: number, then date, then string comparison

        def known(r, f=f, rhs=rhs):
            x, y = cell(r, "n"), rhs(r)
            if is_none(x) or is_none(y):
                return set()
            try:
                float(x), float(y)
            except ValueError:
                return {"known_lt_equal"} if f in ("lt", "below") and f"{x}".strip() == f"{y}".strip() else set()
            out = set()
            if f in ("lt", "below") and float(x) == float(y):
                out.add("known_lt_equal")
            sx, sy = f"{x}".strip(), f"{y}".strip()
            if (sx > sy) != (float(x) > float(y)) or (sx < sy) != (float(x) < float(y)):
                out.add("known_string_order")
            return out
        return (f"{f}(#n, {rhs_txt})", pred, known)
    if k == "in":
        return ('in(#a, "x|zed")', lambda r, i: cell(r, "a") in ("x", "zed"), None)
    if k == "yes":
        return ("yes()", lambda r, i: True, None)
    if k == "no":
        return ("no()", lambda r, i: False, None)
    if k == "mod":
        return ("mod(line_number(), 2) == 0", lambda r, i: i % 2 == 0, None)
    K = rnd.choice([1, 6, 11])
    return (f"add(#n, 1) == {K}", lambda r, i, K=K: None if cell(r, "n") == "n" else ((0.0 if is_none(cell(r, "n")) else float(cell(r, "n"))) + 1 == K), None)


def gen_component(rnd, depth=1):
    k = rnd.random()
    if depth > 0 and k < 0.3:
        kind = rnd.choice(["not", "or", "and"])
        a = gen_component(rnd, 0)
        b = gen_component(rnd, 0)
        while a[0].startswith("@") or " -> " in a[0] or a[0].startswith("#c"):
            a = gen_component(rnd, 0)
        while b[0].startswith("@") or " -> " in b[0] or b[0].startswith("#c"):
            b = gen_component(rnd, 0)
        kn = lambda r, a=a, b=b: (a[2](r) if a[2] else set()) | (b[2](r) if b[2] else set())

        def tri(f, r, i):
            v = f(r, i)
            return v
        if kind == "not":
            return (f"not({a[0]})", lambda r, i, a=a: None if a[1](r, i) is None else (not a[1](r, i)), a[2])
        if kind == "or":
            def p_or(r, i, a=a, b=b):
                x, y = a[1](r, i), b[1](r, i)
                if x is True or y is True:
                    return True
                return None if (x is None or y is None) else False
            return (f"or({a[0]}, {b[0]})", p_or, kn)

        def p_and(r, i, a=a, b=b):
            x, y = a[1](r, i), b[1](r, i)
            if x is False or y is False:
                return False
            return None if (x is None or y is None) else True
        return (f"and({a[0]}, {b[0]})", p_and, kn)
    if k < 0.4:
        return ("@v = #n", lambda r, i: "neutral", None)     # a side-effect component does not affect the other components' matching: neutral in AND and in OR
    if k < 0.5 and depth > 0:
        a = gen_atom(rnd)
        return (f"{a[0]} -> @w = #a", a[1], a[2])
    return gen_atom(rnd)


def main():
    b = Bounded()
    from csvpath import CsvPath
    rnd = b.rnd
    N = 150 if not b.thorough() else 3000
    items = []
    for k in range(N):
        rows = gen_file(rnd)
        comps = [gen_component(rnd) for _ in range(rnd.randint(1, 4 if not b.thorough() else 5))]
        items.append((k, rows, comps, rnd.choice(["AND", "AND", "OR"]), rnd.choice(["*", "1*"])))

    def work(b, item):
        with b.fresh_dir():
            work1(b, item)

    def work1(b, item):
        k, rows, comps, mode, scan = item
        body = " ".join(c[0] for c in comps)
        key = {"rows": rows, "match": body, "logic": mode, "scan": scan}
        b.case(key, randomised=True)
        fn = b.write_csv("f.csv", rows)
        outer = "~ logic-mode: OR ~ " if mode == "OR" else ""
        try:
            with b.quiet():
                p = CsvPath()
                got = [list(x) for x in p.parse(f"{outer}${fn}[{scan}][ {body} ]").collect()]
                p2 = CsvPath()
                p2.parse(f"{outer}${fn}[{scan}][ {body} ]")
                got_next = [list(x) for x in p2.next()]
        except Exception as e:
            b.fail("program_runs", key, f"{type(e).__name__}: {str(e)[:200]}")
            return
        if p.errors:
            return      # a component raised on some line: the error policy decides (C05); not this property's oracle
        want, undetermined, tags = [], False, set()
        for i, r in enumerate(rows):
            if not r or (scan == "1*" and i < 1):
                continue
            votes = [c[1](r, i) for c in comps]
            votes = [(mode == "AND") if v == "neutral" else v for v in votes]
            for c in comps:
                if c[2]:
                    tags |= c[2](r)
            if any(v is None for v in votes):
                undetermined = True
                break
            if (all(votes) if mode == "AND" else any(votes)):
                want.append(r)
        if undetermined:
            return
        inp = {**key, "known_lt_equal": "known_lt_equal" in tags, "known_string_order": "known_string_order" in tags,
               "shape": "+".join(sorted(tags)) or "no-known-trigger"}
        if got != want:
            b.fail("returned_lines_are_exactly_the_matching_scanned_lines", inp, "collect()", got, want)
        elif got_next != got:
            b.fail("next_yields_the_same_lines_as_collect", inp, "next()", got_next, got)

    b.fan_out(work, items)
    b.sample({"example": {"rows": items[0][1], "match": " ".join(c[0] for c in items[0][2]), "logic": items[0][3], "scan": items[0][4]}})
    b.finish()


run_guarded(main)
