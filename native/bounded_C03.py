#!/venv/bin/python
"""Bounded check for C03: variables and run counters end up with the values the csvpath assigns (oracle = a reference fold written from the
property statement and docs/functions/*.md; no code of the library is used by the oracle).

 files   120 (thorough 2500) generated files: 1..7 records of 4 cells (A: ids, B: few repeated words, H: repeated names never empty, Q: numbers/empty),
         blank records anywhere (also first and last), header record first
 scans   *, 1*, 2-4, 0+2+3
 programs (all over the generated files, every scan):
   P1 positions    @n = line_number() @c = count_lines() @s = count_scans() @m = count() push("ln", line_number()) + per-line print of all four
   P2 aggregates   tally(#H) tally.tb(#B, #H) first.seen(#H) sum.total(#Q) subtotal.byh(#H, #Q)                 (scan 1*: the header record is not a number)
   P3 onmatch      #B == "x" @m.onmatch = count() push.onmatch("hits", #A) tally.onmatch(#B) @all = count_scans()
   P4 dependent    @a = line_number() @b = add(@a, 1) @c = @b @t.key = @c  + per-line print          (assignments that depend on earlier components of the line)
   P5 stacks       push("s", #A) push.distinct("d", #B) push.notnone("nn", #Q) ; push("s", #A) push("s", #B) @top = pop("s")
 clause  variables after the run == the fold; per-line printouts == the fold's value at that line; scan_count / match_count == lines offered / matched
"""
import os, sys
sys.path.insert(0, os.path.dirname(os.path.abspath(__file__)))
from blib import Bounded, run_guarded

WORDS = ["x", "y", "x", "zed"]
NAMES = ["ann", "bob", "ann", "cy", "bob"]
SCANS = {"*": lambda i: True, "1*": lambda i: i >= 1, "2-4": lambda i: 2 <= i <= 4, "0+2+3": lambda i: i in (0, 2, 3)}


def gen_file(rnd):
    n = rnd.randint(1, 7)
    rows = [["A", "B", "H", "Q"]]
    for i in range(n):
        if rnd.random() < 0.2:
            rows.append([])
        else:
            rows.append([f"r{i}", rnd.choice(WORDS + [""]), rnd.choice(NAMES), rnd.choice(["1", "2", "10", "", "3.5", "0", "7"])])
    if rnd.random() < 0.15:
        rows.insert(0, [])
    return rows


def offered(rows, scan):
    """[(physical line number, record, count_lines, count_scans)] for the non-blank records in the scan"""
    out, data, scans = [], 0, 0
    for i, r in enumerate(rows):
        if r:
            data += 1
        if r and SCANS[scan](i):
            scans += 1
            out.append((i, r, data, scans))
    return out


def headers_of(rows):
    return next((r for r in rows if r), [])


def cell(rows, rec, name):
    h = headers_of(rows)
    return rec[h.index(name)].strip()


def num(s):
    return float(s) if s.strip() != "" else 0.0


def main():
    b = Bounded()
    from csvpath import CsvPath
    from csvpath.util.printer import TestPrinter
    rnd = b.rnd
    N = 120 if not b.thorough() else 2500
    files = [gen_file(rnd) for _ in range(N)]
    fixed = [
        [[], ["A", "B", "H", "Q"], ["r0", "x", "ann", "1"], ["r1", "y", "ann", "2"]],                       # first physical line blank
        [["A", "B", "H", "Q"], ["r0", "x", "A", "1"], ["A", "x", "ann", "2"], ["r2", "x", "A", "0"]],        # a value first seen on line 0 comes back
        [["A", "B", "H", "Q"], ["r0", "x", "ann", "0"], ["r1", "x", "ann", "0"], []],                        # zeros, trailing blank
    ]
    items = [(k, rows) for k, rows in enumerate(fixed + files)]

    def work(b, item):
        with b.fresh_dir():
            work1(b, item)

    def run(b, rows, scan, body):
        fn = b.write_csv("f.csv", rows)
        tp = TestPrinter()
        with b.quiet():
            p = CsvPath(print_default=False)
            p.add_printer(tp)
            p.parse(f"${fn}[{scan}][ {body} ]")
            p.fast_forward()
        return p, list(tp.lines)

    def check(b, key, fam, got, want, what):
        if got != want:
            b.fail(f"{fam}", key, what, got, want)

    def work1(b, item):
        k, rows = item
        for scan in SCANS:
            off = offered(rows, scan)
            key = {"rows": rows, "scan": scan}
            b.case(key, randomised=k >= 3)
            hdr_first = bool(headers_of(rows)) and headers_of(rows) == ["A", "B", "H", "Q"]
            if not hdr_first:
                continue
            # ---------------- P1 positions
            try:
                p, out = run(b, rows, scan, '@n = line_number() @c = count_lines() @s = count_scans() @m = count() push("ln", line_number()) '
                                            'print("$.variables.n ; $.variables.c ; $.variables.s")')
            except Exception as e:
                b.fail("program_runs", {**key, "family": "P1"}, f"{type(e).__name__}: {e}")
                continue
            want_lines = [f"{i} ; {d} ; {s}" for j, (i, r, d, s) in enumerate(off)]
            check(b, {**key, "family": "P1"}, "per_line_values_of_the_position_functions", out, want_lines, "per-line printout 'line_number ; count_lines ; count_scans'")
            if off:
                i, r, d, s = off[-1]
                wantv = {"n": i, "c": d, "s": s, "m": len(off), "ln": [x[0] for x in off]}
                gotv = {kk: p.variables.get(kk) for kk in wantv}
                check(b, {**key, "family": "P1"}, "variables_after_the_run", gotv, wantv, "variables")
            check(b, {**key, "family": "P1"}, "scan_count_and_match_count", [p.scan_count, p.match_count], [len(off), len(off)], "[scan_count, match_count]")
            # ---------------- P4 dependent assignments
            try:
                p, out = run(b, rows, scan, '@a = line_number() @b = add(@a, 1) @c = @b @t.key = @c print("$.variables.a ; $.variables.b ; $.variables.c ; $.variables.t.key")')
            except Exception as e:
                b.fail("program_runs", {**key, "family": "P4"}, f"{type(e).__name__}: {e}")
                continue
            def nums(line):
                try:
                    return [float(x) for x in line.split(" ; ")]
                except ValueError:
                    return line
            check(b, {**key, "family": "P4"}, "assignments_see_earlier_components_of_the_same_line", [nums(x) for x in out],
                  [[float(i), float(i + 1), float(i + 1), float(i + 1)] for (i, r, d, s) in off], "per-line printout 'a ; b ; c ; t.key' (as numbers)")
            if off:
                i = off[-1][0]
                gotv = {kk: p.variables.get(kk) for kk in ("a", "b", "c", "t")}
                check(b, {**key, "family": "P4"}, "variables_after_the_run", gotv, {"a": i, "b": i + 1, "c": i + 1, "t": {"key": i + 1}}, "variables")
            # ---------------- P3 filter + onmatch
            try:
                p, out = run(b, rows, scan, '#B == "x" @m.onmatch = count() push.onmatch("hits", #A) tally.onmatch(#B) @all = count_scans()')
            except Exception as e:
                b.fail("program_runs", {**key, "family": "P3"}, f"{type(e).__name__}: {e}")
                continue
            hits = [(i, r) for (i, r, d, s) in off if cell(rows, r, "B") == "x"]
            wantv = {"m": len(hits) if hits else None, "hits": [cell(rows, r, "A") for i, r in hits] if hits else None,
                     "tally_B": {"x": len(hits)} if hits else None, "all": off[-1][3] if off else None}
            gotv = {kk: p.variables.get(kk) for kk in wantv}
            check(b, {**key, "family": "P3"}, "onmatch_bookkeeping_counts_matching_lines_only", gotv, wantv, "variables")
            check(b, {**key, "family": "P3"}, "scan_count_and_match_count", [p.scan_count, p.match_count], [len(off), len(hits)], "[scan_count, match_count]")
            # ---------------- P5 stacks
            try:
                p, out = run(b, rows, scan, 'push("s", #A) push.distinct("d", #B) push.notnone("nn", #Q)')
                p2, out2 = run(b, rows, scan, 'push("s", #A) push("s", #B) @top = pop("s")')
            except Exception as e:
                b.fail("program_runs", {**key, "family": "P5"}, f"{type(e).__name__}: {e}")
                continue
            if off:
                d_ = []
                for (i, r, dd, s) in off:
                    v = cell(rows, r, "B")
                    if v not in d_:
                        d_.append(v)
                wantv = {"s": [cell(rows, r, "A") for (i, r, dd, s) in off], "d": d_, "nn": [cell(rows, r, "Q") for (i, r, dd, s) in off if cell(rows, r, "Q") != ""]}
                gotv = {kk: p.variables.get(kk, []) for kk in wantv}
                check(b, {**key, "family": "P5"}, "stacks_hold_the_pushed_values_in_order", gotv, wantv, "variables")
                gotv2 = {"s": p2.variables.get("s"), "top": p2.variables.get("top")}
                check(b, {**key, "family": "P5"}, "pop_removes_exactly_the_top_item", gotv2,
                      {"s": [cell(rows, r, "A") for (i, r, dd, s) in off], "top": cell(rows, off[-1][1], "B")}, "variables after push, push, pop on every line")
            # ---------------- P2 aggregates (scan must skip the header record: it is not a number)
            hdr_idx = next(i for i, r in enumerate(rows) if r)
            if SCANS[scan](hdr_idx):
                body = 'tally(#H) tally.tb(#B, #H) first.seen(#H)'
            else:
                body = 'tally(#H) tally.tb(#B, #H) first.seen(#H) sum.total(#Q) subtotal.byh(#H, #Q)'
            try:
                p, out = run(b, rows, scan, body)
            except Exception as e:
                b.fail("program_runs", {**key, "family": "P2"}, f"{type(e).__name__}: {e}")
                continue
            if p.errors:
                b.fail("program_runs", {**key, "family": "P2"}, "errors collected", [f"{e.error}" for e in p.errors][:2])
                continue
            if off:
                tally_h, tb_b, tb_h, tb, seen, total, byh = {}, {}, {}, {}, {}, 0.0, {}
                for (i, r, dd, s) in off:
                    hv, bv, qv = cell(rows, r, "H"), cell(rows, r, "B"), cell(rows, r, "Q")
                    tally_h[hv] = tally_h.get(hv, 0) + 1
                    tb_h[hv] = tb_h.get(hv, 0) + 1
                    if bv != "":
                        tb_b[bv] = tb_b.get(bv, 0) + 1
                    tb[f"{bv}|{hv}"] = tb.get(f"{bv}|{hv}", 0) + 1
                    seen.setdefault(hv, i)
                    if "sum.total" in body:
                        total += num(qv)
                        byh[hv] = byh.get(hv, 0.0) + num(qv)
                wantv = {"tally_H": tally_h, "tb_B": tb_b or None, "tb_H": tb_h, "tb": tb, "seen": seen}
                if "sum.total" in body:
                    wantv.update({"total": total, "byh": byh})
                gotv = {kk: p.variables.get(kk) for kk in wantv}
                check(b, {**key, "family": "P2"}, "aggregates_hold_the_fold_over_the_offered_lines", gotv, wantv, "variables")

    b.fan_out(work, items)
    b.sample({"example": {"rows": files[0], "scan": "1*", "program": "P2"}})
    b.finish()


run_guarded(main)
