#!/venv/bin/python
"""Bounded check for C17: what runs is what was written (oracle = the generated AST itself and the property statement).

 scope  generated match parts of 1..4 components (thorough 1..5), nesting depth <= 3, over: headers (#name, #N, #"quoted name", qualifiers),
        variables (@v, qualifiers, tracking names), terms (strings with spaces/punctuation, signed ints incl. > 2**53, decimals, regexes),
        references ($grp.variables.x), 60 function names with valid arity and name qualifiers, '==', '=', '->';
        each AST is rendered in a canonical layout and in 3 random layouts (blanks, tabs, newlines, '~...~' comments between components,
        optional outer comment without mode settings).
 clause the Lark tree has no _ambig node; the component tree equals the AST (kinds, names, qualifiers, operators, argument order, literal values and
        their types); every layout gives the same tree; the run results (lines, variables) of a re-laid-out text equal those of the canonical text.
 Programs the library's own argument validation rejects in the canonical layout are skipped (counted); at least 70% must be accepted.
"""
import os, sys
sys.path.insert(0, os.path.dirname(os.path.abspath(__file__)))
from blib import Bounded, run_guarded

# name -> list of argument-kind tuples (v = any value, s = string term, n = number term, h = header, f = function/equality, r = regex)
FUNCS = {
    "yes": [()], "no": [()], "count": [(), ("e",)], "count_lines": [()], "count_scans": [()], "line_number": [()], "count_headers": [()],
    "firstline": [()], "firstscan": [()], "firstmatch": [()], "last": [()], "stop": [(), ("e",)], "skip": [(), ("e",)], "fail": [()],
    "failed": [()], "valid": [()], "none": [()], "not": [("v",), ("e",)], "length": [("v",)], "lower": [("v",)], "upper": [("v",)], "strip": [("v",)],
    "exists": [("v",)], "empty": [("v",)], "int": [("v",)], "float": [("v",)], "first": [("h",), ("h", "h")], "tally": [("h",), ("h", "h")],
    "min": [("v",)], "max": [("v",)], "sum": [("v",)], "abs": [("v",)], "round": [("v",), ("v", "n")], "in": [("v", "s")],
    "equals": [("v", "v")], "gt": [("v", "v")], "lt": [("v", "v")], "gte": [("v", "v")], "lte": [("v", "v")], "above": [("v", "v")], "below": [("v", "v")],
    "add": [("v", "v"), ("v", "v", "v")], "subtract": [("v", "v")], "multiply": [("v", "v")], "divide": [("v", "v")], "mod": [("v", "v")],
    "concat": [("v", "v"), ("v", "v", "v")], "starts_with": [("v", "s")], "ends_with": [("v", "s")], "substring": [("v", "n")],
    "regex": [("r", "v")], "between": [("v", "v", "v")], "or": [("e", "e"), ("e", "e", "e")], "and": [("e", "e")],
    "push": [("s", "v")], "push_distinct": [("s", "v")], "pop": [("s",)], "peek": [("s", "n")], "stack": [("s",)], "every": [("v", "n")],
    "counter": [(), ("n",)], "percent": [("s",)], "subtotal": [("h", "h")], "any": [(), ("v",)], "all": [("h", "h")], "print": [("s",)],
}
FQUALS = ["onmatch", "onchange", "asbool", "nocontrib", "once", "latch", "notnone", "distinct", "increase", "myname", "n1"]
HNAMES = ["a", "b", "name", "last_name", "Qty", "0", "1", "12", "col-x"]
QHNAMES = ["last name", "Unit Price 2", "a.b"]
VNAMES = ["v", "x", "total", "t1", "my_var", "Count"]
VQUALS = ["latch", "onchange", "asbool", "notnone", "nocontrib", "onmatch", "increase", "decrease", "key", "k2"]
STRINGS = ["x", "x y", "", " lead", "a,b", "it's", "p|q", "~t", "(", "]", "#h", "@v", "1", "-> ==", "tab\there"]
INTS = ["0", "1", "-7", "+3", "42", "007", "9007199254740993", "-12345678901234567890"]
DECS = ["1.0", "-3.00", "2.50", "+0.5", "10.25", "123456789.125"]
REGEX = ["/a.b+/", "/^x$/", "/[0-9]{2}/", "/a\\/b/", "/ q /"]


def gen_term(rnd):
    k = rnd.random()
    if k < 0.4:
        s = rnd.choice(STRINGS)
        return ("term", "str", s)
    if k < 0.7:
        t = rnd.choice(INTS)
        return ("term", "int", t)
    return ("term", "float", rnd.choice(DECS))


def gen_header(rnd):
    if rnd.random() < 0.2:
        return ("hdr", rnd.choice(QHNAMES), [], True)
    q = rnd.sample(["asbool", "nocontrib", "notnone"], rnd.choice([0, 0, 0, 1, 2]))
    return ("hdr", rnd.choice(HNAMES), q, False)


def gen_var(rnd):
    return ("var", rnd.choice(VNAMES), rnd.sample(VQUALS, rnd.choice([0, 0, 1, 2, 3])))


def gen_value(rnd, depth):
    k = rnd.random()
    if depth <= 0 or k < 0.25:
        return gen_term(rnd)
    if k < 0.45:
        return gen_header(rnd)
    if k < 0.6:
        return gen_var(rnd)
    if k < 0.65:
        return ("ref", "grp", ["variables", rnd.choice(VNAMES)])
    return gen_fn(rnd, depth - 1)


def gen_fn(rnd, depth):
    name = rnd.choice(sorted(FUNCS))
    sig = rnd.choice(FUNCS[name])
    args = []
    for kd in sig:
        if kd == "s":
            args.append(("term", "str", rnd.choice([s for s in STRINGS if s.strip() and s.isalnum()] + ["a|b", "s1"])))
        elif kd == "n":
            args.append(("term", "int", rnd.choice(["1", "2", "10"])))
        elif kd == "h":
            args.append(gen_header(rnd))
        elif kd == "r":
            args.append(("term", "regex", rnd.choice(REGEX)))
        elif kd == "e":
            if depth <= 0:
                args.append(("fn", rnd.choice(["yes", "no", "firstline"]), [], []))
            else:
                args.append(gen_eq(rnd, depth - 1) if rnd.random() < 0.6 else gen_fn(rnd, depth - 1))
        else:
            args.append(gen_value(rnd, depth))
    return ("fn", name, rnd.sample(FQUALS, rnd.choice([0, 0, 0, 1, 2])), args)


def gen_left(rnd, depth):
    k = rnd.random()
    if k < 0.35:
        return gen_header(rnd)
    if k < 0.55:
        return gen_var(rnd)
    return gen_fn(rnd, depth)


def gen_eq(rnd, depth):
    r = gen_value(rnd, depth) if rnd.random() < 0.8 else gen_left(rnd, depth)
    if r[0] == "term" and r[1] == "regex":
        r = gen_term(rnd)
    return ("eq", [gen_left(rnd, depth), r])


def gen_component(rnd, depth):
    k = rnd.random()
    if k < 0.25:
        return gen_left(rnd, depth)
    if k < 0.5:
        return gen_eq(rnd, depth)
    if k < 0.7:
        return ("assign", [gen_var(rnd), gen_value(rnd, depth)])
    left = gen_left(rnd, depth) if rnd.random() < 0.5 else gen_eq(rnd, depth)
    act = gen_fn(rnd, depth) if rnd.random() < 0.6 else ("assign", [gen_var(rnd), gen_value(rnd, depth)])
    return ("when", [left, act])


def render(n, rnd=None):
    """canonical text when rnd is None, otherwise random blanks inside argument lists and around operators"""
    def sp():
        if rnd is None:
            return " "
        # names may contain '-', so "@x->" is a different token sequence from "@x ->": blanks around operators are only ever ADDED, never removed
        return rnd.choice([" ", "  ", "\t", " \n", " \n  "])
    k = n[0]
    if k == "term":
        if n[1] == "str":
            return '"' + n[2] + '"'
        return n[2]
    if k == "hdr":
        if n[3]:
            return '#"' + n[1] + '"'
        return "#" + ".".join([n[1]] + n[2])
    if k == "var":
        return "@" + ".".join([n[1]] + n[2])
    if k == "ref":
        return "$" + ".".join([n[1]] + n[2])
    if k == "fn":
        inner = ("," + (" " if rnd is None else rnd.choice(["", " ", "\n  "]))).join(render(a, rnd) for a in n[3])
        pad = "" if rnd is None else rnd.choice(["", " ", "\n"])
        return ".".join([n[1]] + n[2]) + "(" + pad + inner + pad + ")"
    op = {"eq": "==", "assign": "=", "when": "->"}[k]
    return render(n[1][0], rnd) + sp() + op + sp() + render(n[1][1], rnd)


COMMENTS = ["~ a note ~", "~~", "~ id-like: text with, punctuation (and brackets] ~", "~ multi\n line ~"]


def layout(components, rnd):
    out = rnd.choice(["", " ", "\n", "\n   "])
    for c in components:
        if rnd.random() < 0.3:
            out += rnd.choice(COMMENTS) + rnd.choice(["", " ", "\n"])
        out += render(c, rnd) + rnd.choice([" ", "\n", "  \n\t", " \n"])
    if rnd.random() < 0.3:
        out += rnd.choice(COMMENTS) + rnd.choice(["", " "])
    return out


def expect(n):
    k = n[0]
    if k == "term":
        if n[1] == "str":
            return ("term", "str", n[2])
        if n[1] == "regex":
            return ("term", "str", n[2])
        v = int(n[2]) if n[1] == "int" else float(n[2])
        return ("term", type(v).__name__, v)
    if k == "hdr":
        return ("hdr", n[1] if n[3] else n[1], [] if n[3] else list(n[2]))
    if k in ("var", "ref"):
        return (k, n[1], list(n[2]))
    if k == "fn":
        return ("fn", n[1], list(n[2]), [expect(a) for a in n[3]])
    return (k, [expect(n[1][0]), expect(n[1][1])])


def main():
    b = Bounded()
    from csvpath import CsvPath
    from csvpath.matching.lark_parser import LarkParser
    from csvpath.matching.productions import Expression, Equality, Term, Header, Variable, Reference
    from csvpath.matching.functions.function import Function
    import lark

    def norm(m):
        if m is None:
            return None
        if isinstance(m, Expression):
            return ("expr", [norm(c) for c in m.children])
        if isinstance(m, Function):
            ch = m.children
            if len(ch) == 1 and isinstance(ch[0], Equality) and ch[0].op == ",":
                args = [norm(c) for c in ch[0].children]
            else:
                args = [norm(c) for c in ch]
            return ("fn", m.name, list(m.qualifiers), args)
        if isinstance(m, Equality):
            return ({"==": "eq", "=": "assign", "->": "when", ",": "args"}.get(m.op, m.op), [norm(c) for c in m.children])
        if isinstance(m, Header):
            return ("hdr", m.name, list(m.qualifiers))
        if isinstance(m, Variable):
            return ("var", m.name, list(m.qualifiers))
        if isinstance(m, Reference):
            return ("ref", m.name, list(m.qualifiers))
        if isinstance(m, Term):
            return ("term", type(m.value).__name__, m.value)
        return ("?", type(m).__name__)

    def tree_of(text):
        with b.quiet():
            p = CsvPath()
            mt = p.parse(f"$f.csv[*][{text}]", disposably=True)
        return [norm(e[0]) for e in mt.expressions]

    def ambig(text):
        t = LarkParser().parse(f"[{text}]")
        return any(getattr(st, "data", None) == "_ambig" for st in t.iter_subtrees())

    rnd = b.rnd
    N = 500 if not b.thorough() else 6000
    progs = []
    for i in range(N):
        comps = [gen_component(rnd, rnd.choice([1, 2, 3])) for _ in range(rnd.randint(1, 4 if not b.thorough() else 5))]
        progs.append((i, comps, rnd.randrange(1 << 30)))
    # fixed corner programs: qualifier chains and numeric literals (the things a tree comparison is most likely to lose)
    fixed = [
        [("assign", [("var", "v", ["latch", "onchange", "asbool"]), ("fn", "count", ["onmatch", "n1"], [])])],
        [("eq", [("hdr", "a", [], False), ("term", "float", "1.0")]), ("eq", [("hdr", "b", [], False), ("term", "int", "9007199254740993")])],
        [("fn", "push", ["distinct", "notnone", "onmatch"], [("term", "str", "s1"), ("hdr", "last name", [], True)])],
        [("when", [("fn", "gt", [], [("hdr", "0", [], False), ("term", "float", "-3.00")]), ("assign", [("var", "t1", ["k2", "onmatch"]), ("term", "float", "2.50")])])],
        [("fn", "add", ["abc", "d", "e"], [("term", "int", "1"), ("term", "int", "-7"), ("term", "float", "10.25")])],
        [("fn", "tally", ["abc", "de", "f", "onmatch"], [("hdr", "name", [], False)])],
    ]
    for k, comps in enumerate(fixed):
        progs.append((N + k, comps, rnd.randrange(1 << 30)))

    def work(b, item):
        with b.fresh_dir():
            work1(b, item)

    def work1(b, item):
        import random as _r
        i, comps, seed = item
        lr = _r.Random(seed)
        canon = " ".join(render(c) for c in comps)
        b.case(canon, randomised=i < N)
        try:
            if ambig(canon):
                b.fail("exactly_one_component_tree", {"text": canon}, "the Lark tree has an _ambig node (two readings)")
        except lark.exceptions.LarkError as e:
            b.fail("documented_grammar_parses", {"text": canon}, f"{type(e).__name__}: {str(e)[:200]}")
            return
        try:
            got = tree_of(canon)
        except Exception as e:
            # the library's own validation (arity / argument types) rejected it: not a parse-fidelity matter
            b.rejected = getattr(b, "rejected", 0) + 1
            b.fail("__rejected__", {"text": canon}, f"{type(e).__name__}: {str(e)[:160]}")
            return
        want = [("expr", [expect(c)]) for c in comps]
        if got != want:
            b.fail("tree_equals_source", {"text": canon}, "component tree", got, want)
            return
        texts = [layout(comps, lr) for _ in range(3)]
        for t in texts:
            try:
                if ambig(t):
                    b.fail("exactly_one_component_tree", {"text": t}, "the Lark tree has an _ambig node (two readings)")
                g2 = tree_of(t)
            except Exception as e:
                b.fail("layout_does_not_change_the_tree", {"canonical": canon, "layout": t}, f"{type(e).__name__}: {str(e)[:200]}")
                continue
            if g2 != got:
                b.fail("layout_does_not_change_the_tree", {"canonical": canon, "layout": t}, "component tree", g2, got)
        # run results of the re-laid-out text (time-/random-valued and printing functions left out of the comparison)
        if any(w in canon for w in ("now(", "random(", "print(", "$grp")):
            return
        rows = ["a,b,name,last_name,Qty,last name,Unit Price 2,col-x", "1,x,ann,lee,3,q r,2.5,c1", "2,y,bob,kim,10,s t,3,c2", "1,x,ann,ray,7,u,1.0,c3", ",,,,,,,", "12,x y,z,w,0,v,9,c4"]
        fn = b.write_lines("f.csv", rows)

        def run(text, outer=""):
            with b.quiet():
                p = CsvPath()
                p.parse(f"{outer}${fn}[*][{text}]")
                lines = p.collect()
            # variables may be self-referential (a stack pushed onto itself): compare their repr, which marks cycles
            return [list(x) for x in lines], repr({k: v for k, v in p.variables.items()}), p.is_valid
        try:
            base = run(canon)
        except Exception as e:
            return      # a run-time error of the program itself: C05's subject
        for t, outer in ((texts[0], ""), (canon, "~ a remark about this csvpath, nothing more ~ "), (texts[1], "~ note ~\n")):
            try:
                r2 = run(t, outer)
            except Exception as e:
                r2 = f"{type(e).__name__}: {str(e)[:160]}"
            if r2 != base:
                b.fail("layout_does_not_change_the_results", {"canonical": canon, "layout": t, "outer_comment": outer}, "(lines, variables, is_valid)", r2, base)

    b.fan_out(work, progs)
    rej = [f for f in b.failures if f["clause"] == "__rejected__"]
    b.failures = [f for f in b.failures if f["clause"] != "__rejected__"]
    total = b.enumerated + b.random
    if total and len(rej) > 0.3 * total:
        b.fail("generator_is_within_the_documented_grammar", {"rejected": len(rej), "of": total}, "more than 30% of generated programs were rejected by validation",
               [r["why"] for r in rej[:5]])
    b.sample({"example_text": '@v.latch = count.onmatch.n1() ~ note ~ gt(#"last name", -3.00) -> push.distinct("s1", #0)', "accepted": total - len(rej), "rejected_by_validation": len(rej)})
    b.finish()


run_guarded(main)
