#!/venv/bin/python
"""Bounded complement for C02: closes the [A] glue (PLY reduction order, lexer) end to end on the real Scanner and the real CsvPath.

 scope  every scan part of the property's own finite space: '*', 'N*', 'a-b' in either order, '+'-lists of <= 3 ascending non-overlapping items
        (numbers and forward ranges), bounds 0..N+2;  files of N records (quick N<=4, thorough N<=7) with blank records in every position
        (quick: every single blank position + no blank; thorough: every subset).
 clause parse(s): for all l: includes(l) == (l in Den(s)); is_last(max Den(s));
        run:  returned line numbers == scan_count lines == Den(s) ∩ non-blank records
"""
import itertools, os, sys
sys.path.insert(0, os.path.dirname(os.path.abspath(__file__)))
from blib import Bounded, run_guarded


def den(item_list, n_max):
    out = set()
    for it in item_list:
        if it[0] == "n":
            out.add(it[1])
        elif it[0] == "r":
            a, b = it[1], it[2]
            out |= set(range(min(a, b), max(a, b) + 1))
        elif it[0] == "tail":
            out |= set(range(it[1], n_max + 50))
        elif it[0] == "all":
            out |= set(range(0, n_max + 50))
    return out


def text(item_list):
    parts = []
    for it in item_list:
        parts.append({"n": lambda: str(it[1]), "r": lambda: f"{it[1]}-{it[2]}", "tail": lambda: f"{it[1]}*", "all": lambda: "*"}[it[0]]())
    return "+".join(parts)


def scan_parts(hi, max_items):
    yield [("all",)]
    for n in range(hi + 1):
        yield [("tail", n)]
    for a in range(hi + 1):
        for c in range(hi + 1):
            yield [("r", a, c)]            # lone range, either order
    singles = [("n", k) for k in range(hi + 1)] + [("r", a, c) for a in range(hi + 1) for c in range(a, hi + 1)]

    def lo(it):
        return it[1]

    def hi_of(it):
        return it[1] if it[0] == "n" else it[2]
    for k in range(1, max_items + 1):
        for combo in itertools.combinations(singles, k):
            combo = sorted(combo, key=lo)
            if all(hi_of(combo[i]) < lo(combo[i + 1]) for i in range(len(combo) - 1)):
                if k == 1 and combo[0][0] == "r":
                    continue
                yield list(combo)


def main():
    b = Bounded()
    from csvpath import CsvPath
    from csvpath.scanning.scanner import Scanner
    N = 7 if b.thorough() else 4
    hi = N + 2
    seen_parts = set()
    parts = []
    for p in scan_parts(hi, 3):
        t = text(p)
        if t not in seen_parts:
            seen_parts.add(t)
            parts.append((t, p))
    # ---- the parse half on the real Scanner (real PLY)
    for t, p in parts:
        b.case("parse:" + t)
        D = den(p, hi)
        try:
            with b.quiet():
                sc = Scanner()
                sc.parse(f"$f[{t}]")
        except Exception as e:
            b.fail("parse_denotes", t, f"raised {type(e).__name__}: {e}")
            continue
        got = {l for l in range(0, hi + 4) if sc.includes(l)}
        want = {l for l in D if l < hi + 4}
        if got != want:
            b.fail("parse_denotes", t, "includes() disagrees with the denotation", sorted(got), sorted(want))
        if not sc.all_lines:
            last = max(D)
            lasts = [l for l in range(0, hi + 4) if sc.is_last(l)]
            if lasts != [last]:
                b.fail("is_last_is_max", t, "is_last() is not exactly the largest denoted line", lasts, [last])
    b.sample({"scan part": parts[min(40, len(parts) - 1)][0], "denotation": sorted(l for l in den(parts[min(40, len(parts) - 1)][1], hi) if l < hi + 4)})
    # ---- the run half: real CsvPath over files with blanks (one forked worker per file shape)
    run_parts = parts if b.thorough() else parts[::12]
    items = []
    for n in range(1, N + 1):
        blank_sets = [()] + [(i,) for i in range(n)]
        if b.thorough():
            blank_sets = [c for k in range(0, min(n, 3) + 1) for c in itertools.combinations(range(n), k)]
        for blanks in blank_sets:
            items.append((n, blanks))

    def work(b, item):
        with b.fresh_dir():
            work1(b, item)

    def work1(b, item):
        n, blanks = item
        lines = ["" if i in blanks else f"r{i},v" for i in range(n)]
        fn = b.write_lines(f"f_{n}_{'_'.join(map(str, blanks))}.csv", lines)
        # thorough: every scan part for files of up to 4 records, a 1-in-6 slice (offset by the file shape) for longer files
        these = run_parts if (not b.thorough() or n <= 4) else run_parts[(n + len(blanks)) % 6::6]
        for t, p in these:
            key = f"run:{t} n={n} blanks={list(blanks)}"
            b.case(key)
            D = den(p, hi)
            want = [i for i in range(n) if i in D and i not in blanks]
            try:
                with b.quiet():
                    path = CsvPath()
                    path.parse(f"${fn}[{t}][yes() push(\"seen\", line_number())]")
                    got_lines = path.collect()
            except Exception as e:
                b.fail("run_offers_exactly", key, f"raised {type(e).__name__}: {e}")
                continue
            got = [int(r[0][1:]) for r in got_lines]
            if got != want:
                b.fail("run_returns_exactly_the_denoted_nonblank_lines", key, "returned lines", got, want)
            if path.scan_count != len(want):
                b.fail("scan_count_is_lines_offered", key, "scan_count", path.scan_count, len(want))
            seen = path.variables.get("seen", [])
            if list(seen) != want:
                b.fail("matched_exactly_the_offered_lines", key, "lines on which the match part ran", list(seen), want)

    b.fan_out(work, items)
    b.exhaustive = False
    b.finish()


run_guarded(main)
