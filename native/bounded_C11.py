#!/venv/bin/python
"""Bounded check for C11 against the abstract view the property itself gives:
   store : name -> list of versions (content bytes, source file name); current(name) = last version.

 scope  every operation sequence of length <= 4 (thorough <= 5) over
        {add(name in 2, source file in 2 -- one.csv and two, the second without an extension --, content in 3), mutate(source file), remove(name), new instance}
 clause after every step: get_named_file(name) names a file whose bytes are the current content and whose name is sha256(bytes)+ext;
        the manifest gained exactly one entry (carrying that fingerprint) iff the registration changed the current version (bytes or source file name);
        every version ever registered is still on disk, unmodified; a fresh instance sees the same state.
"""
import hashlib, itertools, json, os, sys
sys.path.insert(0, os.path.dirname(os.path.abspath(__file__)))
from blib import Bounded, run_guarded
import mlib

CONTENTS = [b"a,b\n1,2\n", b"a,b\n3,4\n", b"x\n"]
NAMES = ["n1", "n2"]
SOURCES = ["src/one.csv", "src/two"]          # the second source file has no extension


def sha(b_):
    return hashlib.sha256(b_).hexdigest()


def main():
    b = Bounded()
    ops = [("add", n, s, c) for n in NAMES for s in range(2) for c in range(3)] + [("mutate", s) for s in range(2)] + [("remove", n) for n in NAMES] + [("new",)]
    L = 4 if not b.thorough() else 5
    seqs = []
    for n in range(1, L + 1):
        if n <= 2:
            seqs += list(itertools.product(ops, repeat=n))
        else:
            allp = list(itertools.product(ops, repeat=n))
            b.rnd.shuffle(allp)
            seqs += allp[: (1500 if not b.thorough() else 20000)]
            b.exhaustive = False

    def work(b, seq):
        with b.fresh_dir():
            work1(b, seq)

    def manifest_of(paths, name):
        home = paths.file_manager.named_file_home(name)
        mp = os.path.join(home, "manifest.json")
        if not os.path.exists(mp):
            return []
        return mlib.jload(mp)

    def work1(b, seq):
        key = " ; ".join("/".join(map(str, o)) for o in seq)
        b.case(key)
        os.makedirs("src", exist_ok=True)
        src_content = {}
        model = {}          # name -> [ (bytes, source basename) ]
        ever = {}           # stored path -> bytes   (every version ever registered, until its name is removed)
        with b.quiet():
            paths = mlib.new_paths()
        for step, op in enumerate(seq):
            where = f"{key} @step{step}"
            try:
                with b.quiet():
                    if op[0] == "add":
                        _, name, s, c = op
                        with open(SOURCES[s], "wb") as f:
                            f.write(CONTENTS[c])
                        src_content[s] = CONTENTS[c]
                        before = len(manifest_of(paths, name))
                        paths.file_manager.add_named_file(name=name, path=SOURCES[s])
                        after = manifest_of(paths, name)
                        cur = model.get(name, [])
                        changed = (not cur) or cur[-1] != (CONTENTS[c], os.path.basename(SOURCES[s]))
                        if changed:
                            cur = cur + [(CONTENTS[c], os.path.basename(SOURCES[s]))]
                        model[name] = cur
                        if len(after) - before != (1 if changed else 0):
                            b.fail("manifest_gains_one_entry_per_change", where, "manifest entries added", len(after) - before, 1 if changed else 0)
                        elif changed and after and after[-1].get("fingerprint") != sha(CONTENTS[c]):
                            b.fail("manifest_entry_carries_the_fingerprint", where, "fingerprint", after[-1].get("fingerprint"), sha(CONTENTS[c]))
                    elif op[0] == "mutate":
                        s = op[1]
                        if s in src_content:
                            with open(SOURCES[s], "wb") as f:
                                f.write(b"MUTATED," + src_content[s])
                    elif op[0] == "remove":
                        name = op[1]
                        if name in model:
                            paths.file_manager.remove_named_file(name)
                            model.pop(name)
                            ever = {p: v for p, v in ever.items() if f"{os.sep}{name}{os.sep}" not in p}
                    else:
                        paths = mlib.new_paths()
            except Exception as e:
                b.fail("operation_succeeds", where, f"{type(e).__name__}: {e}")
                return
            # ---- the view after the step
            for name in NAMES:
                with b.quiet():
                    try:
                        got = paths.file_manager.get_named_file(name)
                    except Exception as e:
                        got = f"{type(e).__name__}: {e}"
                if name not in model:
                    if got is not None and os.path.exists(str(got)):
                        b.fail("removed_or_unknown_name_has_no_file", where, f"get_named_file({name})", got, None)
                    continue
                content, _src = model[name][-1]
                if not (isinstance(got, str) and os.path.exists(got)):
                    b.fail("current_version_is_the_latest_registered_content", where, f"get_named_file({name})", got, "an existing file")
                    continue
                with open(got, "rb") as f:
                    data = f.read()
                if data != content:
                    b.fail("current_version_is_the_latest_registered_content", where, f"bytes of get_named_file({name})", data[:40], content[:40])
                base = os.path.basename(got)
                ext = os.path.splitext(_src)[1]
                if base != sha(data) + ext:
                    b.fail("file_name_is_the_sha256_of_its_bytes", where, "file name", base, sha(data) + ext)
                ever[got] = content
            for p_, content in ever.items():
                if not os.path.exists(p_):
                    b.fail("every_version_stays_on_disk", where, "a registered version disappeared", p_)
                else:
                    with open(p_, "rb") as f:
                        if f.read() != content:
                            b.fail("registered_versions_are_immutable", where, "a registered version was modified", p_)

    b.fan_out(work, seqs)
    b.sample({"example": "add/n1/0/0 ; mutate/0 ; add/n1/0/1 ; add/n1/0/0 ; new"})
    b.finish()


run_guarded(main)
