#!/venv/bin/python
"""Bounded complement for C13: stop, skip, advance and last control the run as documented (oracle = the property statement and docs/functions/stop.md,
advance.md, last.md; the contracts on Matcher.matches / _consider_line / CsvPath.next / Stop / Skip / Advance / Last are proved, this script closes the
glue on the real CsvPath).

 programs  k marker components push("m<j>", line_number()) (k = 1..3, always matching) with ONE control component inserted at every position p = 0..k:
             stop(line_number() == F)      skip(line_number() == F)      advance(n) (n = 1, 2)      last.nocontrib() -> push("l", line_number()) (last position only)
           and, for stop/skip at positions 1..k-1, the same programs with the FIRST marker qualified onmatch (push.onmatch(...)): an onmatch component
           asks the matcher for the verdict of the whole line, i.e. it evaluates the other components itself (only the 'after' markers and the
           returned lines are compared for these; what the onmatch marker itself does on the firing line is C14's subject)
 files     N = 1..6 one-cell records, with no blank record, one interior blank record, a trailing blank record
 scans     *, 1*, 1-3; for advance also the windows with a gap 0-1+4-5 and 1+3+5 (files of >= 5 records): lines in the gap do not use up the advance
 clause    markers before the control component run on every evaluated line, markers after it do not run on the line where stop/skip fires; no line
           after a stop is evaluated; the stop line is returned only if stop is the final component; a skipped line is not returned and the next
           line proceeds normally; advance(n): after an evaluated line the next n scanned lines are neither evaluated, returned nor counted as matches;
           last fires exactly once, on the scan's/file's final line, also when the file ends in a blank record
"""
import os, sys
sys.path.insert(0, os.path.dirname(os.path.abspath(__file__)))
from blib import Bounded, run_guarded

SCANS = {"*": lambda i: True, "1*": lambda i: i >= 1, "1-3": lambda i: 1 <= i <= 3}
GAP_SCANS = {"0-1+4-5": lambda i: i in (0, 1, 4, 5), "1+3+5": lambda i: i in (1, 3, 5)}     # windows with a gap (advance programs only)
SCANS_ALL = {**SCANS, **GAP_SCANS}


def files(thorough):
    out = []
    for n in range(1, 7):
        base = [["x"] for i in range(n)]
        out.append(base)
        if n >= 3:
            out.append(base[:1] + [[]] + base[1:])
        out.append(base + [[]])
    # a record's only cell names its physical line number
    return [[[f"r{i}"] if r else [] for i, r in enumerate(rows)] for rows in out]


def main():
    b = Bounded()
    from csvpath import CsvPath
    items = []
    for rows in files(b.thorough()):
        nrec = len(rows)
        for scan in SCANS:
            for k in (1, 2, 3) if b.thorough() else (1, 2):
                for p in range(k + 1):
                    for F in range(nrec):
                        if rows[F] and SCANS[scan](F):
                            items.append(("stop", rows, scan, k, p, F))
                            items.append(("skip", rows, scan, k, p, F))
                            if 1 <= p < k and scan == "*" and nrec <= 4:
                                items.append(("stop+onmatch", rows, scan, k, p, F))
                                items.append(("skip+onmatch", rows, scan, k, p, F))
                    for n in (1, 2):
                        items.append(("advance", rows, scan, k, p, n))
                        if scan == "*" and nrec >= 5:
                            for gs in GAP_SCANS:
                                items.append(("advance", rows, gs, k, p, n))
                    if p == k:
                        # the properties place a 'last() ->' component last (what runs after it on the final line is not specified)
                        items.append(("last", rows, scan, k, p, None))

    def work(b, item):
        with b.fresh_dir():
            work1(b, item)

    def work1(b, item):
        kind, rows, scan, k, p, arg = item
        onmatch = kind.endswith("+onmatch")
        kind = kind.split("+")[0]
        key = {"control": kind, "rows": rows, "scan": scan, "markers": k, "position": p, "arg": arg}
        if onmatch:
            key["first_marker_onmatch"] = True
        b.case(key)
        fn = b.write_csv("f.csv", rows)
        markers = [f'push("m{j}", line_number())' for j in range(k)]
        if onmatch:
            markers[0] = 'push.onmatch("m0", line_number())'
        ctl = {"stop": f"stop(line_number() == {arg})", "skip": f"skip(line_number() == {arg})", "advance": f"advance({arg})",
               "last": 'last.nocontrib() -> push("l", line_number())'}[kind]
        comps = markers[:p] + [ctl] + markers[p:]
        try:
            with b.quiet():
                path = CsvPath()
                path.parse(f"${fn}[{scan}][ {' '.join(comps)} ]")
                got = [list(x) for x in path.collect()]
        except Exception as e:
            b.fail("program_runs", key, f"{type(e).__name__}: {str(e)[:160]}")
            return
        if path.errors:
            b.fail("program_runs", key, "errors collected", [f"{e.error}" for e in path.errors][:2])
            return
        offered = [i for i, r in enumerate(rows) if r and SCANS_ALL[scan](i)]
        before = [f"m{j}" for j in range(p)]
        after = [f"m{j}" for j in range(p, k)]
        v = {m: list(path.variables.get(m, []) or []) for m in before + after}
        ret = [int(r[0][1:]) for r in got]
        if kind == "stop":
            F = arg
            ev = [i for i in offered if i <= F]
            want_before, want_after = ev, [i for i in ev if i < F]
            want_ret = [i for i in ev if i < F] + ([F] if p == k else [])
        elif kind == "skip":
            F = arg
            want_before, want_after = offered, [i for i in offered if i != F]
            want_ret = [i for i in offered if i != F]
        elif kind == "advance":
            n = arg
            ev, j = [], 0
            while j < len(offered):
                ev.append(offered[j])
                j += n + 1
            want_before = want_after = want_ret = ev
        else:
            want_before = want_after = want_ret = offered
        for names, want, what in ((before, want_before, "before"), (after, want_after, "after")):
            if onmatch and what == "before":
                continue
            for m in names:
                if v[m] != want:
                    b.fail({"stop": "no_component_after_a_stop_and_no_later_line", "skip": "no_component_after_a_skip_next_line_normal",
                            "advance": "advanced_lines_have_no_side_effect", "last": "markers_unaffected_by_last"}[kind],
                           key, f"lines on which marker {m} ({what} the control component) ran", v[m], want)
                    return
        if ret != want_ret:
            b.fail({"stop": "stop_line_returned_only_if_stop_is_final", "skip": "skipped_line_is_not_returned", "advance": "advanced_lines_are_not_returned",
                    "last": "last_nocontrib_does_not_change_the_lines"}[kind], key, "returned lines", ret, want_ret)
        if kind == "advance" and path.match_count != len(want_ret):
            b.fail("advanced_lines_do_not_count_as_matches", key, "match_count", path.match_count, len(want_ret))
        if kind == "last":
            l = list(path.variables.get("l", []) or [])
            # the final line: the scan's last line if the window ends inside the file, else the file's last physical line (blank or not)
            phys_last = len(rows) - 1
            in_scan = [i for i in range(len(rows)) if SCANS[scan](i)]
            if scan == "1-3" and phys_last >= 3:
                final = 3
            else:
                final = phys_last
            want_l = [final] if (in_scan and final in in_scan) else []
            if offered == [] and not (rows and not rows[-1] and final in in_scan):
                want_l = want_l if want_l and not rows[final] else []
            if l != want_l:
                b.fail("last_fires_exactly_once_on_the_final_line", key, "lines on which last() fired", l, want_l)

    b.fan_out(work, items)
    b.sample({"example": {"control": "stop", "rows": [["r0"], ["r1"], ["r2"]], "scan": "*", "markers": 2, "position": 1, "arg": 1}})
    b.finish()


run_guarded(main)
