#!/venv/bin/python
"""Bounded complement for C05 (and the error half of C04): errors in match components are handled exactly as the error policy says
(oracle = the property statement; the contracts on ErrorHandler._handle_if / ErrorCommsManager / Expression.matches / Matcher.matches are proved,
this script closes the glue between them on the real CsvPath).

 scope  all 63 non-empty subsets of {raise, collect, stop, fail, print, quiet} x 5 error kinds (a Python exception inside a function at top level,
        on the right-hand side of an assignment, nested inside not(), on the left of a when/do, and followed by a stop() that fires on the same
        line) x the offending line at every position of a 4-record file incl. the file's first physical line, line 0 (quick: 0, first, middle,
        last) x 7 validation-mode overrides (none; no-raise,no-stop; raise; no-fail; fail; no-print; print,stop)
 clause the exception reaches the caller iff raise; an error record with the offending line's number is collected iff collect; is_valid is False iff
        fail; no later line is evaluated iff stop; a message goes to the printer iff print; the offending line is not returned
"""
import itertools, os, sys
sys.path.insert(0, os.path.dirname(os.path.abspath(__file__)))
from blib import Bounded, run_guarded

FLAGS = ["raise", "collect", "stop", "fail", "print", "quiet"]
KINDS = {
    "top_level": 'add(#0, 1)',
    "right_hand_side": '@v = add(#0, 1)',
    "nested": 'not(add(#0, 1) == 99)',
    "when_left": 'add(#0, 1) == 2 -> @w = 1',
    "before_a_stop_on_the_same_line": 'add(#0, 1) stop(#0 == "oops")',
}
OVERRIDES = {"none": ("", {}), "no_raise_no_stop": ("validation-mode: no-raise, no-stop", {"raise": False, "stop": False}), "raise": ("validation-mode: raise", {"raise": True}),
             "no_fail": ("validation-mode: no-fail", {"fail": False}), "fail": ("validation-mode: fail", {"fail": True}),
             "no_print": ("validation-mode: no-print", {"print": False}), "print_stop": ("validation-mode: print, stop", {"print": True, "stop": True})}


def main():
    b = Bounded()
    from csvpath import CsvPath
    from csvpath.util.printer import TestPrinter
    subsets = [list(c) for k in range(1, len(FLAGS) + 1) for c in itertools.combinations(FLAGS, k)]
    N = 4
    positions = list(range(0, N + 1)) if b.thorough() else [0, 1, 2, N]      # 0: the file's first physical line (no header row, scan *)
    items = [(pol, kind, pos, ov) for pol in subsets for kind in KINDS for pos in positions for ov in OVERRIDES]
    if not b.thorough():
        items = [it for k, it in enumerate(items) if it[3] == "none" or k % 5 == 0]
        b.exhaustive = False

    def work(b, item):
        with b.fresh_dir():
            work1(b, item)

    def work1(b, item):
        pol, kind, pos, ov = item
        key = {"policy": pol, "kind": kind, "offending_line": pos, "override": ov}
        b.case(key)
        rows = (["n,t"] if pos > 0 else ["oops,r0"]) + [("oops,r%d" % i if i == pos else "%d,r%d" % (i, i)) for i in range(1, N + 1)]
        scan = "1*" if pos > 0 else "*"
        fn = b.write_lines("f.csv", rows)
        comment, forced = OVERRIDES[ov]
        eff = {f: (f in pol) for f in FLAGS}
        eff.update(forced)
        tp = TestPrinter()
        raised = None
        lines = None
        with b.quiet():
            p = CsvPath(print_default=False)
            p.add_printer(tp)
            p.config.csvpath_errors_policy = list(pol)
            try:
                p.parse(f"~ id: e {comment} ~ ${fn}[{scan}][ push(\"seen\", line_number()) {KINDS[kind]} ]")
                lines = p.collect()
            except Exception as e:
                raised = e
        seen = list(p.variables.get("seen", []) or [])
        # ---- raise
        if (raised is not None) != eff["raise"]:
            b.fail("exception_reaches_the_caller_iff_raise", key, "raised to the caller", None if raised is None else f"{type(raised).__name__}: {str(raised)[:80]}", eff["raise"])
            return
        # ---- collect (with line number)
        errs = list(p.errors or [])
        if eff["collect"]:
            # one failing component may be reported through more than one handler (value and vote): at least one record, every record on that line
            if len(errs) < 1 or any(e.line_count != pos for e in errs):
                b.fail("error_record_with_line_number_iff_collect", key, "collected errors (line numbers)", [e.line_count for e in errs], [pos])
        elif errs:
            b.fail("error_record_with_line_number_iff_collect", key, "collected errors although 'collect' is not in force", [e.line_count for e in errs], [])
        # ---- fail
        if p.is_valid != (not eff["fail"]):
            b.fail("is_valid_false_iff_fail", key, "is_valid", p.is_valid, not eff["fail"])
        # ---- print
        printed = [x for x in tp.lines if x]
        if bool(printed) != eff["print"]:
            b.fail("message_printed_iff_print", key, "printer lines", printed[:2], eff["print"])
        # ---- stop: no later line is evaluated
        if raised is None:
            later = [x for x in seen if x > pos]
            if (eff["stop"] or kind == "before_a_stop_on_the_same_line") and later:
                b.fail("run_stops_at_that_line_iff_stop", key, "lines evaluated after the offending line", later, [])
            if not eff["stop"] and kind != "before_a_stop_on_the_same_line" and later != list(range(pos + 1, N + 1)):
                b.fail("run_stops_at_that_line_iff_stop", key, "lines evaluated after the offending line", later, list(range(pos + 1, N + 1)))
            # ---- the offending line does not match
            got = [list(x) for x in (lines or [])]
            if any(r and r[0] == "oops" for r in got):
                b.fail("offending_line_does_not_match", key, "returned lines", got)

    b.fan_out(work, items)
    b.sample({"example": {"policy": ["collect", "fail"], "kind": "right_hand_side", "offending_line": 2, "override": "none"}})
    b.finish()


run_guarded(main)
