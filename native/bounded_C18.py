#!/venv/bin/python
"""Bounded check for C18: a run that aborts still leaves a truthful, readable record (oracle = the property statement).

 scope  every (member index, line number) abort point in groups of 1..3 csvpaths over a file of 5 lines (quick: lines 0..4, groups 1 and 3;
        thorough: groups 1..4, files of 5 and 8 lines), for the three serial run methods and the three breadth-first ones; each followed by
        one further run of the same group on the same CsvPaths instance over a clean file.
 abort  member i computes int(#<i+1>) under `validation-mode: raise`; the cell at (abort line, column i+1) is not an integer.
"""
import glob, hashlib, os, sys
sys.path.insert(0, os.path.dirname(os.path.abspath(__file__)))
from blib import Bounded, run_guarded
import mlib


def write_csv(fname, nlines, nmembers, bad_member=None, bad_line=None):
    with open(fname, "w", encoding="utf-8") as f:
        for ln in range(nlines):
            cells = [str(ln + 10)] + [("x" if (i == bad_member and ln == bad_line) else str(ln + 10)) for i in range(nmembers)]
            f.write(",".join(cells) + "\n")
    return fname


def snapshot(root):
    snap = {}
    for d, _, files in os.walk(root):
        for fn in files:
            p = os.path.join(d, fn)
            with open(p, "rb") as f:
                snap[p] = hashlib.sha256(f.read()).hexdigest()
    return snap


def main():
    b = Bounded()
    sizes = [1, 3] if not b.thorough() else [1, 2, 3, 4]
    nls = [5] if not b.thorough() else [5, 8]
    items = [(n, nl, bm, bl, m) for n in sizes for nl in nls for bm in range(n) for bl in range(nl) for m in mlib.METHODS]

    def work(b, item):
        with b.fresh_dir():
            work1(b, item)

    def work1(b, item):
        n, nl, bm, bl, method = item
        key = f"members={n} lines={nl} abort_member={bm} abort_line={bl} method={method}"
        b.case(key)
        group = [f"~ id: p{i} validation-mode: raise, no-print ~ $[*][ @v{i} = int(#{i + 1}) ]" for i in range(n)]
        with b.quiet():
            bad = write_csv("bad.csv", nl, n, bm, bl)
            good = write_csv("good.csv", nl, n)
            paths = mlib.new_paths()
            paths.file_manager.add_named_file(name="bad", path=bad)
            paths.file_manager.add_named_file(name="good", path=good)
            paths.paths_manager.add_named_paths(name="grp", paths=group)
            stores_before = snapshot("inputs")
            out, exc = mlib.run(paths, method, "grp", "bad")
        if exc is None:
            b.fail("exception_reaches_the_caller", key, "the run did not raise")
            return
        runs = sorted(glob.glob(os.path.join("archive", "grp", "*")))
        if len(runs) != 1:
            b.fail("aborted_run_has_its_directory", key, "run directories", runs)
            return
        run_dir = runs[0]
        try:
            man = mlib.jload(os.path.join(run_dir, "manifest.json"))
            if man.get("status") == "complete":
                b.fail("run_manifest_never_claims_complete", key, "status", man.get("status"))
        except Exception as e:
            b.fail("run_manifest_readable", key, f"{type(e).__name__}: {e}")
        by_line = method in mlib.BY_LINE
        for i in range(n):
            started = by_line or i <= bm
            d = os.path.join(run_dir, f"p{i}")
            mk = f"{key} member=p{i}"
            if not started:
                continue
            try:
                errs = mlib.jload(os.path.join(d, "errors.json"))
                mlib.jload(os.path.join(d, "vars.json"))
                mlib.jload(os.path.join(d, "meta.json"))
                mm = mlib.jload(os.path.join(d, "manifest.json"))
            except Exception as e:
                b.fail("started_members_have_readable_records", mk, f"{type(e).__name__}: {e}")
                continue
            if i == bm:
                if not any(e.get("line_count") == bl for e in errs):
                    b.fail("aborting_error_recorded_with_its_line", mk, "errors.json line numbers", [e.get("line_count") for e in errs], bl)
                if mm.get("completed") is not False:
                    b.fail("aborted_member_says_completed_false", {"members": n, "lines": nl, "abort_member": bm, "abort_line": bl, "method": method},
                           "completed", mm.get("completed"), False, key=mk)
            elif not by_line and i < bm:
                if errs or mm.get("completed") is not True:
                    b.fail("earlier_members_keep_complete_results", mk, "errors/completed", [len(errs), mm.get("completed")], [0, True])
        if snapshot("inputs") != stores_before:
            b.fail("stores_unchanged", key, "inputs/ (named-files, named-paths) changed")
        aborted_record = snapshot(run_dir)
        with b.quiet():
            out2, exc2 = mlib.run(paths, method, "grp", "good")
        if exc2 is not None:
            b.fail("subsequent_run_archives_normally", key, f"follow-up run raised {type(exc2).__name__}: {exc2}")
            return
        runs2 = sorted(glob.glob(os.path.join("archive", "grp", "*")))
        if len(runs2) != 2:
            b.fail("subsequent_run_archives_normally", key, "the follow-up run has no run directory of its own", runs2)
            return
        new_dir = [r for r in runs2 if r != run_dir][0]
        try:
            man2 = mlib.jload(os.path.join(new_dir, "manifest.json"))
            if man2.get("status") != "complete":
                b.fail("subsequent_run_archives_normally", key, "follow-up run manifest status", man2.get("status"), "complete")
        except Exception as e:
            b.fail("subsequent_run_archives_normally", key, f"{type(e).__name__}: {e}")
        if snapshot(run_dir) != aborted_record:
            b.fail("aborted_record_not_overwritten", key, "the follow-up run changed the aborted run's record")

    b.fan_out(work, items)
    b.sample({"example": "members=3 lines=5 abort_member=1 abort_line=2 method=next_by_line, then one more run on the same instance"})
    b.finish()


run_guarded(main)
