#!/venv/bin/python
"""Bounded check for C09: after a named-paths run, the archive says what the run did (oracle = the property statement: the files on disk
are compared with the in-memory results and with their own bytes).

 scope  4 groups of csvpaths (stop, fail, fail_and_stop, errors, two print streams, unmatched keep, collect projection, identities and no identity)
        x 2 files (cells with quotes, delimiters, newlines, blanks) x the six run methods
"""
import os, sys
sys.path.insert(0, os.path.dirname(os.path.abspath(__file__)))
from blib import Bounded, run_guarded
import mlib

ROWS1 = [["id", "what", "note"], ["1", "x,y", 'say "hi"'], ["2", "two\nlines", "z"], ["3", "", "w"], ["4", "k", "v"]]
ROWS2 = [["id", "what", "note"], ["7", "a", "b"], [], ["8", "c;d", "'q'"]]
GROUPS = {
    "plain": ["~ id: first ~ $[*][ @n = count_lines() yes() ]", "~ id: second ~ $[1*][ #id == \"2\" push(\"seen\", #id) ]", "$[*][ tally(#what) ]"],
    "stops": ["~ id: gate ~ $[*][ @seen = line_number() #id == \"2\" -> fail_and_stop() ]", "~ id: adder ~ $[1*][ @total = add(\"five\", none()) ]",
              "~ id: counter ~ $[*][ @lines = count_lines() ]"],
    "prints": ["~ id: p1 ~ $[*][ print(\"line $.csvpath.count_lines seen\") print(\"also $.headers.id\", \"audit\") ]",
               "~ id: p2 ~ $[1-2][ #id == \"1\" -> stop() print(\"x\") ]"],
    "keep": ["~ id: k1 unmatched-mode: keep ~ $[*][ #id == \"1\" ]", "~ id: k2 ~ $[*][ #id == \"3\" -> fail() yes() ]"],
}


def main():
    b = Bounded()
    files = {"f1": ROWS1, "f2": ROWS2}
    items = [(g, f, m) for g in GROUPS for f in files for m in mlib.METHODS]

    def work(b, item):
        with b.fresh_dir():
            work1(b, item)

    def work1(b, item):
        g, fkey, method = item
        key = f"group={g} file={fkey} method={method}"
        b.case(key)
        with b.quiet():
            fn = mlib.write_rows(f"{fkey}.csv", files[fkey])
            paths = mlib.new_paths()
            paths.file_manager.add_named_file(name=fkey, path=fn)
            paths.paths_manager.add_named_paths(name=g, paths=GROUPS[g])
            out, exc = mlib.run(paths, method, g, fkey)
        if exc is not None:
            b.fail("run_returns", key, f"run raised {type(exc).__name__}: {exc}")
            return
        results = paths.results_manager.get_named_results(g)
        if len(results) != len(GROUPS[g]):
            b.fail("one_directory_per_member", key, "number of results", len(results), len(GROUPS[g]))
            return
        run_dir = results[0].run_dir
        try:
            man = mlib.jload(os.path.join(run_dir, "manifest.json"))
        except Exception as e:
            b.fail("run_manifest_readable", key, f"{type(e).__name__}: {e}")
            return
        if man.get("status") != "complete":
            b.fail("run_manifest_status_complete", key, "status", man.get("status"), "complete")
        mem_valid, mem_completed, mem_errors = [], [], 0
        for i, r in enumerate(results):
            ident = r.csvpath.identity if r.csvpath.identity else str(i)
            d = os.path.join(run_dir, ident)
            mk = f"{key} member={ident}"
            if not os.path.isdir(d):
                b.fail("member_directory_named_by_identity_or_index", mk, "missing directory", sorted(os.listdir(run_dir)), ident)
                continue
            for need in ("meta.json", "vars.json", "errors.json", "manifest.json"):
                if not os.path.exists(os.path.join(d, need)):
                    b.fail("member_files_present", mk, f"{need} missing", sorted(os.listdir(d)))
            try:
                vars_disk = mlib.jload(os.path.join(d, "vars.json"))
                errs_disk = mlib.jload(os.path.join(d, "errors.json"))
                mm = mlib.jload(os.path.join(d, "manifest.json"))
            except Exception as e:
                b.fail("member_files_readable", mk, f"{type(e).__name__}: {e}")
                continue
            if vars_disk != mlib.jsonable(r.csvpath.variables):
                b.fail("vars_json_equals_final_variables", mk, "vars.json", vars_disk, mlib.jsonable(r.csvpath.variables))
            if len(errs_disk) != len(r.errors):
                b.fail("errors_json_equals_collected_errors", mk, "errors.json length", len(errs_disk), len(r.errors))
            mem_errors += len(r.errors)
            pos = r.get_printouts() or {}
            has_po = any(v for v in pos.values())
            pp = os.path.join(d, "printouts.txt")
            if has_po:
                if not os.path.exists(pp):
                    b.fail("printouts_txt_holds_printouts", mk, "printouts.txt missing")
                else:
                    disk_po = mlib.parse_printouts(pp)
                    want = {k: [x for s in v for x in f"{s}".split("\n")] for k, v in pos.items()}
                    if disk_po != want:
                        b.fail("printouts_txt_holds_printouts", mk, "printouts.txt parses back differently", disk_po, want)
            if method in ("collect_paths", "collect_by_line"):
                # the lines the member collected: what the same csvpath collects on the same file (the members here use no cross-path signal)
                from csvpath import CsvPath
                with b.quiet():
                    solo = CsvPath()
                    src = GROUPS[g][i]
                    k = src.index("$")
                    try:
                        lines = solo.parse(src[:k] + "$" + os.path.abspath(fn) + src[k + 1:]).collect()
                    except Exception:
                        lines = None
                dp = os.path.join(d, "data.csv")
                disk_lines = mlib.read_csv(dp) if os.path.exists(dp) else []
                if lines is not None and disk_lines != [[f"{c}" for c in ln] for ln in lines]:
                    b.fail("data_csv_parses_back_to_collected_lines", mk, "data.csv", disk_lines, lines)
                if r.lines is not None and hasattr(r.lines, "__len__") and len(r.lines) != len(disk_lines):
                    b.fail("data_csv_parses_back_to_collected_lines", mk, "count of collected lines vs data.csv rows", len(disk_lines), len(r.lines))
                if r.unmatched:
                    up = os.path.join(d, "unmatched.csv")
                    disk_un = mlib.read_csv(up) if os.path.exists(up) else []
                    if disk_un != [[f"{c}" for c in ln] for ln in r.unmatched]:
                        b.fail("unmatched_csv_parses_back_to_unmatched_lines", mk, "unmatched.csv", disk_un, r.unmatched)
            mem_valid.append(r.csvpath.is_valid)
            mem_completed.append(r.csvpath.completed)
            if mm.get("valid") != r.csvpath.is_valid:
                b.fail("member_manifest_valid", mk, "valid", mm.get("valid"), r.csvpath.is_valid)
            if mm.get("completed") != r.csvpath.completed:
                b.fail("member_manifest_completed", mk, "completed", mm.get("completed"), r.csvpath.completed)
            fps = mm.get("file_fingerprints") or {}
            for fname in os.listdir(d):
                if fname == "manifest.json":
                    continue
                if fname not in fps:
                    b.fail("member_manifest_fingerprints_every_file", mk, f"{fname} has no fingerprint", sorted(fps))
                elif fps[fname] != mlib.sha256(os.path.join(d, fname)):
                    b.fail("member_manifest_fingerprints_match_bytes", mk, f"{fname} fingerprint differs from the bytes on disk")
            for fname in fps:
                if not os.path.exists(os.path.join(d, fname)):
                    b.fail("member_manifest_fingerprints_match_bytes", mk, f"fingerprint for missing file {fname}")
        if man.get("all_valid") != all(mem_valid):
            b.fail("run_manifest_all_valid", key, "all_valid", man.get("all_valid"), all(mem_valid))
        if man.get("all_completed") != all(mem_completed):
            b.fail("run_manifest_all_completed", key, "all_completed", man.get("all_completed"), all(mem_completed))
        if man.get("error_count") != mem_errors:
            b.fail("run_manifest_error_count", key, "error_count", man.get("error_count"), mem_errors)

    b.fan_out(work, items)
    b.sample({"example": "group=stops file=f1 method=next_by_line: archive/stops/<run>/{gate,adder,counter}/..."})
    b.finish()


run_guarded(main)
