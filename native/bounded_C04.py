#!/venv/bin/python
"""Bounded complement for C04: the validity verdict is False exactly when the csvpath failed the file (oracle = the property statement).

 scope A  a single CsvPath over a 5-record file: a conditional fail() / fail_and_stop() firing at every line K in 0..5 (5 = never) placed before or
          after a component recording valid() / failed() per line, scans * and 1*, plus an error-provoking component under every policy
          with / without 'fail' (16 subsets of {collect, fail, print, stop} + quiet)
 scope B  named-paths groups of 2..3 members drawn from {never fails, fails at line 1, fails at line 3, fail_and_stop at 2, errors under a 'fail'
          policy} (all ordered pairs, 20 triples; thorough all triples) run with collect_paths and collect_by_line:
          results_manager.is_valid(name) and the run manifest's all_valid == conjunction of the members' verdicts; the same two-member groups over a
          zero-byte file and a header-only file (there the members' own verdicts are taken as observed, only the conjunction is checked)
 clause   is_valid starts True and is False at the end iff a fail fired on a scanned line (or an error was handled under 'fail'); the per-line
          verdict seen by valid()/failed() is True up to the firing line and False from it on (never back to True)
"""
import itertools, os, sys
sys.path.insert(0, os.path.dirname(os.path.abspath(__file__)))
from blib import Bounded, run_guarded
import mlib

N = 5
ROWS = [["n", "t"]] + [[str(i), f"r{i}"] for i in range(1, N)]          # physical lines 0..4


def main():
    b = Bounded()
    from csvpath import CsvPath
    items = []
    for fn_name in ("fail", "fail_and_stop"):
        for K in range(0, N + 1):
            for order in ("fail_first", "observe_first"):
                for scan in ("*", "1*"):
                    items.append(("A", fn_name, K, order, scan))
    for pol in [list(c) for k in range(1, 5) for c in itertools.combinations(["collect", "fail", "print", "stop"], k)] + [["quiet"], ["quiet", "fail"]]:
        for pos in (1, 3):
            items.append(("E", pol, pos))
    members = {"ok": '~ id: ok ~ $[*][ yes() ]', "f1": '~ id: f1 ~ $[*][ #n == "1" -> fail() ]', "f3": '~ id: f3 ~ $[*][ #n == "3" -> fail() yes() ]',
               "fs2": '~ id: fs2 ~ $[*][ #n == "2" -> fail_and_stop() ]', "none": '~ id: none ~ $[*][ #n == "77" -> fail() ]'}
    verdict = {"ok": True, "f1": False, "f3": False, "fs2": False, "none": True}
    groups = list(itertools.permutations(members, 2))
    triples = list(itertools.permutations(members, 3))
    groups += triples if b.thorough() else triples[::3]
    for g in groups:
        for method in ("collect_paths", "collect_by_line"):
            items.append(("B", g, method))
    for g in (("ok", "none"), ("ok", "f1")):
        for method in ("collect_paths", "fast_forward_paths", "collect_by_line", "fast_forward_by_line"):
            for file in ("zero_bytes", "header_only"):
                items.append(("B", g, method, file))
    b.exhaustive = b.thorough()

    def work(b, item):
        with b.fresh_dir():
            (work_a if item[0] == "A" else work_e if item[0] == "E" else work_b)(b, item)

    def work_a(b, item):
        _, fn_name, K, order, scan = item
        key = {"function": fn_name, "fires_at_line": K, "order": order, "scan": scan}
        b.case(key)
        fn = mlib.write_rows("f.csv", ROWS)
        cond = f'line_number() == {K} -> {fn_name}()'
        obs = 'push("valid_seen", valid()) push("failed_seen", failed()) push("lines", line_number())'
        body = f"{cond} {obs}" if order == "fail_first" else f"{obs} {cond}"
        with b.quiet():
            p = CsvPath()
            p.parse(f"${os.path.abspath(fn)}[{scan}][ {body} ]")
            p.fast_forward()
        first = 0 if scan == "*" else 1
        scanned = list(range(first, N))
        fires = K in scanned
        if p.is_valid != (not fires):
            b.fail("is_valid_false_iff_a_fail_fired", key, "is_valid after the run", p.is_valid, not fires)
        lines = list(p.variables.get("lines", []) or [])
        vs = list(p.variables.get("valid_seen", []) or [])
        fsn = list(p.variables.get("failed_seen", []) or [])
        stops = fn_name == "fail_and_stop" and fires
        want_lines = [i for i in scanned if not stops or i < K or (i == K and order == "observe_first")]
        # (with fail_and_stop placed first, the firing line's later components are not evaluated: C13)
        if lines != want_lines:
            return      # which lines are evaluated around a stop is C13's subject; the verdict clauses below need the observation points
        want_valid = [not (fires and (i > K or (i == K and order == "fail_first"))) for i in lines]
        if vs != want_valid or fsn != [not v for v in want_valid]:
            b.fail("valid_and_failed_report_the_verdict_as_of_the_current_line", key, "valid() per evaluated line", [vs, fsn], [want_valid, [not v for v in want_valid]])
        if any(v and not w for v, w in zip(vs[1:], vs[:-1])):
            b.fail("once_false_never_true_again", key, "valid() per evaluated line", vs)

    def work_e(b, item):
        _, pol, pos = item
        key = {"policy": pol, "offending_line": pos}
        b.case(key)
        rows = [["n", "t"]] + [["oops" if i == pos else str(i), f"r{i}"] for i in range(1, N)]
        fn = mlib.write_rows("e.csv", rows)
        with b.quiet():
            p = CsvPath(print_default=False)
            p.config.csvpath_errors_policy = list(pol)
            p.parse(f"${os.path.abspath(fn)}[1*][ @v = add(#n, 1) ]")
            p.fast_forward()
        if p.is_valid != ("fail" not in pol):
            b.fail("error_invalidates_iff_policy_has_fail", key, "is_valid after the run", p.is_valid, "fail" not in pol)

    def work_b(b, item):
        g, method = item[1], item[2]
        file = item[3] if len(item) > 3 else "five_records"
        key = {"group": list(g), "method": method}
        if file != "five_records":
            key["file"] = file
        b.case(key)
        fn = os.path.abspath(mlib.write_rows("g.csv", {"five_records": ROWS, "zero_bytes": [], "header_only": ROWS[:1]}[file]))
        with b.quiet():
            paths = mlib.new_paths()
            paths.file_manager.add_named_file(name="g", path=fn)
            paths.paths_manager.add_named_paths(name="grp", paths=[members[m] for m in g])
            out, exc = mlib.run(paths, method, "grp", "g")
        if exc is not None:
            b.fail("run_returns", key, f"{type(exc).__name__}: {exc}")
            return
        results = paths.results_manager.get_named_results("grp")
        got_members = [r.csvpath.is_valid for r in results]
        if file == "five_records":
            want = all(verdict[m] for m in g)
            if got_members != [verdict[m] for m in g]:
                b.fail("member_verdicts", key, "members' is_valid", got_members, [verdict[m] for m in g])
        else:
            want = all(got_members)
        with b.quiet():
            rmv = paths.results_manager.is_valid("grp")
        if rmv != want:
            b.fail("results_manager_is_valid_is_the_conjunction", key, "results_manager.is_valid(name)", rmv, want)
        man = mlib.jload(os.path.join(results[0].run_dir, "manifest.json"))
        if man.get("all_valid") != want:
            b.fail("run_manifest_all_valid_is_the_conjunction", key, "manifest all_valid", man.get("all_valid"), want)

    b.fan_out(work, items)
    b.sample({"example": {"function": "fail", "fires_at_line": 2, "order": "fail_first", "scan": "1*"}})
    b.finish()


run_guarded(main)
