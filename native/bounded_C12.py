#!/venv/bin/python
"""Bounded check for C12 (oracle = the property statement: what was added comes back, selected by identity).

 scope  lists of 1..4 csvpaths drawn from 8 texts (outer comments with id / name / Id / no identity, inner comments, newlines);
        all sequences of length <= 3 (thorough <= 4) of {add(list), re-add(same list), replace(other list), remove, new instance} on 2 group names.
 clause get_named_paths(name) == the added csvpaths up to surrounding whitespace, same order; name#id and $name.csvpaths.id == exactly that member;
        :from / :to == suffix / prefix at it; the manifest gains one entry (fingerprint of the stored group file) per change of content, none for an identical re-add.
"""
import hashlib, itertools, os, sys
sys.path.insert(0, os.path.dirname(os.path.abspath(__file__)))
from blib import Bounded, run_guarded
import mlib

TEXTS = [
    ("a", '~ id: a ~ $[*][ yes() ]'),
    ("b", '~ name: b\n   description: second ~\n$[1*][\n   #x == "1"\n   ~ inner comment ~\n   @v = #x ]'),
    ("c", '~ Id: c ~ $[0-3][ no() ]'),
    ("", '$[*][ count() > 1 ]'),
    ("d", '~ a free note then id: d ~ $[*][ @k = line_number() ]'),
    ("e", '~ name: e ~ $[2*][ print("e $.csvpath.count_lines") ]'),
    ("f", '~ ID: f name: ignored ~ $[*][ tally(#x) ]'),
    ("", '~ just a remark ~ $[*][ yes() ]'),
]
LISTS = [[0, 1, 2], [3, 0], [4, 5, 6, 1], [7], [1, 2, 0, 4]]
GROUPS = ["g1", "g2"]


def main():
    b = Bounded()
    ops = [("add", g, li) for g in GROUPS for li in range(len(LISTS))] + [("remove", g) for g in GROUPS] + [("new",)]
    L = 3 if not b.thorough() else 4
    seqs = [s for n in range(1, L + 1) for s in itertools.product(ops, repeat=n)]
    if not b.thorough():
        short = [s for s in seqs if len(s) <= 2]
        long_ = [s for s in seqs if len(s) == 3]
        b.rnd.shuffle(long_)
        seqs = short + long_[:500]
        b.exhaustive = False

    def work(b, seq):
        with b.fresh_dir():
            work1(b, seq)

    def manifest(paths, g):
        mp = os.path.join(paths.paths_manager.named_paths_home(g), "manifest.json")
        return mlib.jload(mp) if os.path.exists(mp) else []

    def work1(b, seq):
        key = " ; ".join("/".join(map(str, o)) for o in seq)
        b.case(key)
        with b.quiet():
            paths = mlib.new_paths()
        model = {}       # group -> list index
        for step, op in enumerate(seq):
            where = f"{key} @step{step}"
            try:
                with b.quiet():
                    if op[0] == "add":
                        _, g, li = op
                        before = manifest(paths, g) if paths.paths_manager.has_named_paths(g) else []
                        paths.paths_manager.add_named_paths(name=g, paths=[TEXTS[i][1] for i in LISTS[li]])
                        after = manifest(paths, g)
                        changed = model.get(g) != li
                        model[g] = li
                        if len(after) - len(before) != (1 if changed else 0):
                            b.fail("manifest_gains_one_entry_per_change_of_content", where, "manifest entries added", len(after) - len(before), 1 if changed else 0)
                        if after:
                            gf = os.path.join(paths.paths_manager.named_paths_home(g), "group.csvpaths")
                            if after[-1].get("fingerprint") != mlib.sha256(gf):
                                b.fail("manifest_fingerprints_the_stored_group_file", where, "fingerprint", after[-1].get("fingerprint"), mlib.sha256(gf))
                    elif op[0] == "remove":
                        paths.paths_manager.remove_named_paths(op[1])
                        model.pop(op[1], None)
                    else:
                        paths = mlib.new_paths()
            except Exception as e:
                b.fail("operation_succeeds", where, f"{type(e).__name__}: {e}")
                return
            for g in GROUPS:
                if g not in model:
                    continue
                want = [TEXTS[i][1].strip() for i in LISTS[model[g]]]
                ids = [TEXTS[i][0] for i in LISTS[model[g]]]
                try:
                    with b.quiet():
                        got = paths.paths_manager.get_named_paths(g)
                except Exception as e:
                    b.fail("round_trip", where, f"get_named_paths({g}) raised {type(e).__name__}: {e}")
                    continue
                if [x.strip() for x in (got or [])] != want:
                    b.fail("round_trip", where, f"get_named_paths({g})", got, want)
                    continue
                for pos, ident in enumerate(ids):
                    if not ident or ids.index(ident) != pos:
                        continue
                    for form in (f"{g}#{ident}", f"${g}.csvpaths.{ident}"):
                        try:
                            with b.quiet():
                                one = paths.paths_manager.get_named_paths(form)
                        except Exception as e:
                            one = f"{type(e).__name__}: {e}"
                        if not isinstance(one, list) or [x.strip() for x in one] != [want[pos]]:
                            b.fail("select_by_identity", f"{where} {form}", "selected", one, [want[pos]])
                    for suffix, exp in ((":from", want[pos:]), (":to", want[:pos + 1])):
                        try:
                            with b.quiet():
                                sel = paths.paths_manager.get_named_paths(f"${g}.csvpaths.{ident}{suffix}")
                        except Exception as e:
                            sel = f"{type(e).__name__}: {e}"
                        if not isinstance(sel, list) or [x.strip() for x in sel] != exp:
                            b.fail("from_to_select_suffix_prefix", f"{where} ${g}.csvpaths.{ident}{suffix}", "selected", sel, exp)

    b.fan_out(work, seqs)
    b.sample({"example": "add/g1/0 ; add/g1/2 ; add/g1/0 ; new   then g1#b, $g1.csvpaths.c:from ..."})
    b.finish()


run_guarded(main)
