#!/venv/bin/python
"""Bounded check for C10: every run gets its own run directory and never touches an earlier run's results (oracle = the property statement).

 scope  sequences of length <= 3 (thorough <= 4; all of length <= 2, stride samples of the longer ones, every history of one group/one method) of runs drawn from {2 named-paths groups} x {new instance, reused instance} x
        {collect_paths, fast_forward_by_line} x {clock step: same second, +1 s, 12:59:59 -> 13:00:00, 23:59:59 -> 00:00:00 next day};
        the wall clock is the environment: csvpath.csvpaths.datetime is replaced by a scripted clock.
"""
import datetime as _dt, glob, hashlib, itertools, os, sys
sys.path.insert(0, os.path.dirname(os.path.abspath(__file__)))
from blib import Bounded, run_guarded
import mlib

GROUPS = {"ga": ["~ id: m ~ $[*][ yes() ]"], "gb": ["~ id: m ~ $[1*][ #a == \"1\" ]", "~ id: n ~ $[*][ no() ]"]}
STEPS = {"same": 0, "plus1": 1, "to13": None, "midnight": None}


def snapshot(root):
    snap = {}
    for d, _, files in os.walk(root):
        for fn in files:
            p = os.path.join(d, fn)
            with open(p, "rb") as f:
                snap[p] = hashlib.sha256(f.read()).hexdigest()
    return snap


def main():
    b = Bounded()
    import csvpath.csvpaths as cps

    class Clock:
        now_value = _dt.datetime(2031, 5, 17, 12, 59, 58, tzinfo=_dt.timezone.utc)

    class FakeDT(_dt.datetime):
        @classmethod
        def now(cls, tz=None):
            return Clock.now_value
    cps.datetime = FakeDT
    L = 3 if not b.thorough() else 4
    kinds = list(itertools.product(["ga", "gb"], ["new", "reused"], ["collect_paths", "fast_forward_by_line"], list(STEPS)))
    seqs = []
    for n in range(1, L + 1):
        for combo in itertools.product(kinds, repeat=n):
            seqs.append(combo)
    if b.thorough():
        # all sequences of length <= 2, a 1-in-4 slice of length 3, a 1-in-400 slice of length 4, and every length-4 history of one group under one run method
        short = [s for s in seqs if len(s) <= 2]
        l3 = [s for s in seqs if len(s) == 3][::4]
        l4 = [s for s in seqs if len(s) == 4][::400]
        one = [k for k in kinds if k[0] == "ga" and k[2] == "collect_paths"]
        focus = [c for c in itertools.product(one, repeat=4)]
        seqs = short + l3 + l4 + focus
        b.exhaustive = False
    if not b.thorough():
        # all sequences of length <= 2, and a stride sample of length 3
        short = [s for s in seqs if len(s) <= 2]
        long_ = [s for s in seqs if len(s) == 3][:: max(1, len(seqs) // 600)]
        # every length-3 sequence of one group under one run method (the same-second / later-second histories the property names)
        one = [k for k in kinds if k[0] == "ga" and k[2] == "collect_paths"]
        focus = [c for c in itertools.product(one, repeat=3)]
        seqs = short + long_ + focus
        b.exhaustive = False

    def work(b, seq):
        with b.fresh_dir():
            work1(b, seq)

    def work1(b, seq):
        key = " ; ".join("/".join(k) for k in seq)
        b.case(key)
        Clock.now_value = _dt.datetime(2031, 5, 17, 12, 59, 58, tzinfo=_dt.timezone.utc)
        fn = mlib.write_rows("data.csv", [["a", "b"], ["1", "x"], ["2", "y"]])
        inst = None
        history = []      # (group, run_dir, clock)
        for (g, how, method, step) in seq:
            if step == "same":
                pass
            elif step == "plus1":
                Clock.now_value = Clock.now_value + _dt.timedelta(seconds=1)
            elif step == "to13":
                Clock.now_value = Clock.now_value.replace(hour=13, minute=0, second=0) if Clock.now_value.hour < 13 else Clock.now_value + _dt.timedelta(hours=1)
            else:
                Clock.now_value = (Clock.now_value + _dt.timedelta(days=1)).replace(hour=0, minute=0, second=0)
            with b.quiet():
                if inst is None or how == "new":
                    inst = mlib.new_paths()
                    inst.file_manager.add_named_file(name="data", path=fn)
                    for gn, ps in GROUPS.items():
                        inst.paths_manager.add_named_paths(name=gn, paths=ps)
                before = snapshot("archive") if os.path.isdir("archive") else {}
                dirs_before = set(glob.glob("archive/*/*"))
                out, exc = mlib.run(inst, method, g, "data")
            if exc is not None:
                b.fail("run_completes", key, f"{type(exc).__name__}: {exc}")
                return
            dirs_after = set(glob.glob("archive/*/*"))
            new_dirs = dirs_after - dirs_before
            if len(new_dirs) != 1:
                b.fail("own_run_directory", key, "a run must create exactly one run directory no earlier run used", sorted(new_dirs))
                return
            nd = new_dirs.pop()
            if os.path.basename(os.path.dirname(nd)) != g:
                b.fail("under_its_own_named_paths_name", key, "run directory parent", nd, g)
            after = snapshot("archive")
            # files OF earlier runs: everything below archive/<group>/<run>/ (archive-level and group-level manifests are registries, not run results)
            changed = [p for p, h in before.items() if after.get(p) != h and len(os.path.normpath(p).split(os.sep)) >= 4]
            if changed:
                b.fail("earlier_runs_untouched", key, "files of earlier runs changed", changed[:4])
            history.append((g, nd, Clock.now_value))
        # chronological order by directory name for runs started in different seconds
        for g in GROUPS:
            runs = [(c, os.path.basename(d)) for (gg, d, c) in history if gg == g]
            for (c1, n1), (c2, n2) in itertools.combinations(runs, 2):
                if c1 < c2 and not (n1 < n2):
                    b.fail("directory_names_order_chronologically", key, "later run does not sort after the earlier one", [n1, n2])
            # :last / :first with the date prefix
            if runs:
                with b.quiet():
                    rm = inst.results_manager
                    for tok, pick in ((":last", max), (":first", min)):
                        distinct = sorted({c for c, _ in runs})
                        want_clock = pick(distinct)
                        wants = [n for c, n in runs if c == want_clock]
                        if len(wants) != 1:
                            continue        # several runs in the wanted second: the property only orders different seconds
                        try:
                            got = rm.data_file_for_reference(f"${g}.results.2031-{tok}.m")
                        except Exception as e:
                            got = f"{type(e).__name__}: {e}"
                        want = os.path.join("archive", g, wants[0], "m", "data.csv")
                        if os.path.exists(want) and os.path.normpath(str(got)) != os.path.normpath(want):
                            b.fail("last_first_resolve_chronologically", key + f" {g}{tok}", "reference resolves to", got, want)

    b.fan_out(work, seqs)
    b.sample({"example": "ga/new/collect_paths/plus1 ; ga/reused/collect_paths/same ; ga/reused/fast_forward_by_line/to13"})
    b.finish()


run_guarded(main)
