#!/venv/bin/python
"""Bounded check for C06: lines are delivered as they are in the file; headers are the first data line.
   Oracle: csv.reader's own parse of the bytes csv.writer wrote (the csv module is the oracle for itself) and the property statement.

 scope  files written by csv.writer from cells over a 14-symbol alphabet (letters, space, both quote chars, the four delimiters, newline, a
        non-ASCII letter, U+FEFF), 0..6 records of 0..4 cells, blank records anywhere, delimiters {, ; | TAB} x quote chars {" '};
        300 seeded files (thorough 5000) + fixed corner files (leading BOM cell, all-empty first record, header cells with quotes/delimiters).
"""
import csv, io, os, sys
sys.path.insert(0, os.path.dirname(os.path.abspath(__file__)))
from blib import Bounded, run_guarded

ALPHA = ["a", "b", "Z", " ", '"', "'", ",", ";", "|", "\t", "\n", "é", "﻿", "1"]


def clean(h, docs_chars=";,|\t`"):
    h = h.strip()
    for ch in docs_chars:
        h = h.replace(ch, "")
    return h


def main():
    b = Bounded()
    from csvpath import CsvPath
    rnd = b.rnd
    files = []
    corner = [
        [["﻿name", "qty"], ["x", "1"]],
        [["", ""], ["name", "qty"], ["x", "1"]],
        [[], [""], ["name", "qty"], ["x", "1"]],
        [[' "q" ', "a,b", "c;d"], ["1", "2", "3"], ["4"]],
        [["h1", "h2", "h3"], ["only"], [], ["a", "b", "c"], ["x", "y"]],
        [["a"]],
        [],
    ]
    for rows in corner:
        for d in [",", ";", "|", "\t"]:
            for q in ['"', "'"]:
                files.append((rows, d, q, False))
    N = 300 if not b.thorough() else 5000
    for _ in range(N):
        nrec = rnd.randint(0, 6)
        rows = []
        for _r in range(nrec):
            if rnd.random() < 0.2:
                rows.append([])
            else:
                rows.append(["".join(rnd.choice(ALPHA) for _c in range(rnd.randint(0, 4))) for _k in range(rnd.randint(1, 4))])
        files.append((rows, rnd.choice([",", ";", "|", "\t"]), rnd.choice(['"', "'"]), True))

    def work(b, item):
        with b.fresh_dir():
            work1(b, item)

    def work1(b, item):
        rows, d, q, randomised = item
        key = {"rows": rows, "delimiter": d, "quotechar": q}
        b.case(key, randomised=randomised)
        with open("f.csv", "w", newline="", encoding="utf-8") as f:
            csv.writer(f, delimiter=d, quotechar=q).writerows(rows)
        with open("f.csv", "r", newline="", encoding="utf-8") as f:
            parsed = [r for r in csv.reader(f, delimiter=d, quotechar=q)]
        try:
            with b.quiet():
                p = CsvPath(delimiter=d, quotechar=q)
                p.parse(f"${os.path.abspath('f.csv')}[*][yes()]")
                got = p.collect()
                headers = list(p.headers or [])
        except Exception as e:
            if not parsed:
                return         # an empty file: nothing to deliver (the run's end-of-file bookkeeping is outside this property)
            b.fail("run_completes", key, f"{type(e).__name__}: {e}")
            return
        want = [r for r in parsed if len(r) > 0]
        if [list(x) for x in got] != want:
            b.fail("returned_lines_have_exactly_the_cells_of_the_record", key, "collected lines", got, want)
        first = next((r for r in parsed if len(r) > 0), [])
        want_h = [clean(c) for c in first]
        if headers != want_h:
            b.fail("headers_are_the_cells_of_the_first_nonblank_record", key, "headers", headers, want_h)
        # #name and #index address the same cell; a header missing from a short row reads as absent
        if want and len(set(want_h)) == len(want_h) and all(h and h.isascii() and h.replace("_", "").isalnum() and not h.isdecimal() for h in want_h):
            for i, h in enumerate(want_h):
                try:
                    with b.quiet():
                        pn = CsvPath(delimiter=d, quotechar=q)
                        pn.parse(f"${os.path.abspath('f.csv')}[*][push(\"v\", #{h}) yes()]")
                        pn.fast_forward()
                        pi = CsvPath(delimiter=d, quotechar=q)
                        pi.parse(f"${os.path.abspath('f.csv')}[*][push(\"v\", #{i}) yes()]")
                        pi.fast_forward()
                except Exception as e:
                    b.fail("name_and_index_address_the_same_cell", key, f"{type(e).__name__}: {e}")
                    break
                vn, vi = pn.variables.get("v"), pi.variables.get("v")
                exp = [(r[i].strip() if i < len(r) else None) for r in want]
                if vn != vi:
                    b.fail("name_and_index_address_the_same_cell", {**key, "header": h}, f"#{h} vs #{i}", vn, vi)
                if vi != exp:
                    b.fail("short_row_reads_as_absent", {**key, "header": h}, f"values read through #{i}", vi, exp)

    b.fan_out(work, files)
    b.sample({"example": {"rows": [["h1", "h2"], ["a,b", "c\nd"], [], ["x"]], "delimiter": ";", "quotechar": "'"}})
    b.finish()


run_guarded(main)
