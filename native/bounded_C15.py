#!/venv/bin/python
"""Bounded complement for C15 (labelled bounded; oracle = the property statement).

 scope A  MetadataParser: every comment built from <=3 'key: value' fields (keys/values from a small vocabulary) with free text around them
          (characters other than ~ [ ] $), x 3 csvpath bodies: metadata[key] == value, scan and match parts unchanged.
 scope B  print-mode: PrintMode.update_printers on every printer list of length <= 4 over {StdOutPrinter, TestPrinter}, for
          print-mode no-default: exactly the stdout printer(s up to the first) removed, nothing else.
 scope C  end to end: return-mode no-matches == scanned lines minus default-mode lines; run-mode no-run reads nothing; unmatched-mode keep:
          collected + unmatched == records scanned, each once, in order  (files <= 5 records incl. blanks, 4 match parts, 3 scans).
"""
import itertools, os, sys
sys.path.insert(0, os.path.dirname(os.path.abspath(__file__)))
from blib import Bounded, run_guarded


def main():
    b = Bounded()
    from csvpath import CsvPath
    from csvpath.util.printer import StdOutPrinter, TestPrinter
    from csvpath.util.metadata_parser import MetadataParser

    # ---------------------------------------------------------------- scope A: metadata
    class Holder:
        def __init__(self):
            import logging
            self.logger = logging.getLogger("x")
            self.logger.disabled = True
            self.metadata = {}
    keys = ["id", "name", "test-key", "a_b"]
    vals = ["x", "two words", "v1", "has.dot"]
    edge_vals = [".5", "(draft) v2", "-5", "\"quoted\""]          # values that begin with a character that is not a letter or digit
    texts = ["", "free text", "note; with, punctuation!", "see:: below", "odd : : colons;"]
    bodies = ["$f.csv[*][yes()]", "$f.csv[1-3][#a == \"b\" @x = 1]", "$f.csv[0+2][count() > 1]"]
    combos = []
    for n in (1, 2):
        for ks in itertools.permutations(keys, n):
            for vs in itertools.product(vals, repeat=n):
                combos.append(list(zip(ks, vs)))
    if not b.thorough():
        combos = combos[::7]
    for ev in edge_vals:
        combos += [[("id", ev)], [("name", ev), ("id", "x")], [("id", "x"), ("test-key", ev)]]
    # a value that contains the NEXT key's name as a substring of one of its words
    combos += [[("name", "a valid idea"), ("id", "x")], [("id", "rename it"), ("name", "x")], [("test-key", "a_b_c and a_b"), ("a_b", "v1")]]
    for fields in combos:
        for pre in texts:
            for body in bodies:
                comment = (pre + " " if pre else "") + " ".join(f"{k}: {v}" for k, v in fields)
                src = f"~ {comment} ~ {body}"
                b.case(src)
                h = Holder()
                try:
                    out = MetadataParser(h).extract_metadata(instance=h, csvpath=src)
                except Exception as e:
                    b.fail("metadata_fields_available", src, f"raised {type(e).__name__}: {e}")
                    continue
                if out.strip() != body:
                    b.fail("comment_never_changes_scan_or_match", src, "csvpath text changed", out, body)
                for k, v in fields:
                    if h.metadata.get(k) != v:
                        b.fail("metadata_fields_available", src, f"metadata[{k!r}]", h.metadata.get(k), v)
                        break
    b.sample({"scope": "A", "example": "~ free text id: x ~ $f.csv[*][yes()]"})

    # ---------------------------------------------------------------- scope B: print-mode no-default
    kinds = {"S": StdOutPrinter, "T": TestPrinter}
    for n in range(0, 5):
        for combo in itertools.product("ST", repeat=n):
            for mode in ("no-default", "default"):
                key = f"printers={''.join(combo)} mode={mode}"
                b.case(key)
                p = CsvPath()
                with b.quiet():
                    p.printers = [kinds[c]() for c in combo]
                    before = list(p.printers)
                    p.metadata["print-mode"] = mode
                    try:
                        p.modes.print_mode.update_printers()
                    except Exception as e:
                        b.fail("print_mode_removes_stdout_only", key, f"raised {type(e).__name__}: {e}")
                        continue
                after = list(p.printers)
                if mode == "no-default":
                    non_std_before = [x for x in before if not isinstance(x, StdOutPrinter)]
                    non_std_after = [x for x in after if not isinstance(x, StdOutPrinter)]
                    if non_std_after != non_std_before:
                        b.fail("print_mode_removes_stdout_only", key, "a non-stdout printer was removed or reordered",
                               [type(x).__name__ for x in after], [type(x).__name__ for x in before])
                    elif any(isinstance(x, StdOutPrinter) for x in before) and len(after) != len(before) - 1:
                        b.fail("print_mode_removes_stdout_only", key, "stdout printer not removed (exactly one removal expected)",
                               [type(x).__name__ for x in after], [type(x).__name__ for x in before])
                else:
                    if [x for x in after if not isinstance(x, StdOutPrinter)] != [x for x in before if not isinstance(x, StdOutPrinter)]:
                        b.fail("print_mode_removes_stdout_only", key, "print-mode default changed the other printers")

    # ---------------------------------------------------------------- scope C: end to end
    files = [["a,b", "1,x", "2,y", "3,x"], ["a,b", "", "1,x", "", "2,x"], ["a,b", "1,x", "2,y", ""], ["a,b"]]
    matches = ['#b == "x"', "yes()", "no()", 'line_number() == 2 -> stop()', '#a == "2" -> skip()', 'below(count(), 3)', '#b == "x" @c = count()']
    scans = ["*", "1-2", "0+2"]
    for fi, lines in enumerate(files):
        fn = b.write_lines(f"f{fi}.csv", lines)
        recs = [ln.split(",") if ln != "" else [] for ln in lines]
        for sc in scans:
            for m in matches:
                key = f"file{fi} [{sc}][{m}]"
                b.case(key)
                try:
                    with b.quiet():
                        d = CsvPath()
                        dl = d.parse(f"${fn}[{sc}][{m}]").collect()
                        nm = CsvPath()
                        nl = nm.parse(f"~ return-mode: no-matches ~ ${fn}[{sc}][{m}]").collect()
                        nr = CsvPath()
                        rl = nr.parse(f"~ run-mode: no-run ~ ${fn}[{sc}][{m}]").collect()
                        um = CsvPath()
                        ul = um.parse(f"~ unmatched-mode: keep ~ ${fn}[{sc}][{m}]").collect()
                        plain = CsvPath()
                        pl = plain.parse(f"${fn}[{sc}][yes()]").collect()
                except Exception as e:
                    b.fail("end_to_end_runs", key, f"raised {type(e).__name__}: {e}")
                    continue
                if rl != [] or nr.scan_count != 0:
                    b.fail("no_run_reads_nothing", key, "run-mode no-run returned lines or scanned", [rl, nr.scan_count], [[], 0])
                if "stop()" not in m and "skip()" not in m:
                    # complement over the scanned lines (stop/skip change what is scanned/evaluated; covered by the proved clauses)
                    scanned = pl
                    merged = sorted(dl + nl, key=lambda r: scanned.index(r) if r in scanned else -1)
                    if len(dl) + len(nl) != len(scanned) or any(r not in scanned for r in dl + nl):
                        b.fail("no_matches_is_the_complement", key, "default + no-matches != scanned lines", [dl, nl], scanned)
                if ul != dl:
                    b.fail("unmatched_keep_does_not_change_collected", key, "collected lines differ under unmatched-mode keep", ul, dl)
                unm = um.unmatched or []
                read = [r for r in recs]   # records read
                # collected + unmatched together: each record that was read and considered, once, in order
                seen = ul + unm
                if len(set(map(tuple, seen))) != len(seen) and len(set(map(tuple, recs))) == len(recs):
                    b.fail("partition_each_once", key, "a record appears twice in collected + unmatched", seen)
                if any(r not in read for r in seen):
                    b.fail("partition_only_records_read", key, "collected/unmatched holds a line that is not a record of the file", seen, read)
                if "stop()" not in m and sc == "*" and "" not in lines and len(seen) != len(read):
                    b.fail("partition_covers_records_read", key, "collected + unmatched != records read", seen, read)
    b.sample({"scope": "C", "example": "file1 [*][#b == \"x\"] in 4 modes"})
    b.finish()


run_guarded(main)
