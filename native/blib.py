"""Helpers for the bounded native scripts (run under /venv/bin/python against the tree under test).

A script reads {"repo":…, "tier":…, "seed":…, …} on stdin and prints one JSON object:
  {"enumerated": n, "random": m, "distinct": d, "exhaustive": bool, "failures": [{clause, input, key, why, observed, expected}], "samples": […]}
Everything runs in a private temp directory (the library creates config/, logs/, cache/, archive/ relative to the cwd).
These checks are the BOUNDED stand-in / complement of DESIGN §5.2: labelled bounded, never counted as proved.
"""
import contextlib, csv, io, json, os, random, shutil, sys, tempfile, traceback


class Bounded:
    def __init__(self):
        self.args = json.load(sys.stdin)
        self.repo = self.args.get("repo", "/repo")
        sys.path.insert(0, self.repo)
        self.tier = self.args.get("tier", "quick")
        self.rnd = random.Random(self.args.get("seed", 0))
        self.work = tempfile.mkdtemp(prefix="verif-bounded-")
        os.chdir(self.work)
        self.enumerated = 0
        self.random = 0
        self.keys = set()
        self.failures = []
        self.samples = []
        self.exhaustive = True
        self._assert_tree()

    def _assert_tree(self):
        import csvpath
        assert os.path.realpath(csvpath.__file__).startswith(os.path.realpath(self.repo)), csvpath.__file__

    def thorough(self):
        return self.tier == "thorough"

    def case(self, key, randomised=False):
        if randomised:
            self.random += 1
        else:
            self.enumerated += 1
        self.keys.add(key if isinstance(key, str) else json.dumps(key, sort_keys=True, default=str))

    def fail(self, clause, input_, why, observed=None, expected=None, key=None):
        if len(self.failures) < 5000:
            self.failures.append({"clause": clause, "input": input_, "key": key or json.dumps(input_, sort_keys=True, default=str),
                                  "why": why, "observed": observed, "expected": expected})

    def sample(self, s):
        if len(self.samples) < 3:
            self.samples.append(s)

    def write_csv(self, name, rows, delimiter=",", quotechar='"'):
        with open(name, "w", newline="", encoding="utf-8") as f:
            w = csv.writer(f, delimiter=delimiter, quotechar=quotechar)
            for r in rows:
                w.writerow(r)
        return os.path.abspath(name)

    def write_lines(self, name, lines):
        """records given as raw text lines ('' is a blank record)"""
        with open(name, "w", encoding="utf-8") as f:
            f.write("\n".join(lines))
            if lines:
                f.write("\n")
        return os.path.abspath(name)

    @contextlib.contextmanager
    def quiet(self):
        with contextlib.redirect_stdout(io.StringIO()), contextlib.redirect_stderr(io.StringIO()):
            yield

    @contextlib.contextmanager
    def fresh_dir(self):
        d = tempfile.mkdtemp(prefix="case-", dir=self.work)
        prev = os.getcwd()
        os.chdir(d)
        try:
            yield d
        finally:
            os.chdir(prev)
            shutil.rmtree(d, ignore_errors=True)

    def fan_out(self, worker, items, procs=16):
        """run worker(self, item) for every item in forked children (each in its own temp cwd); merge cases and failures"""
        import multiprocessing as mp

        def child(chunk, q):
            sub = tempfile.mkdtemp(prefix="verif-bounded-w-")
            os.chdir(sub)
            self.work = sub
            self.enumerated = self.random = 0
            self.keys, self.failures = set(), []
            err = None
            try:
                for it in chunk:
                    worker(self, it)
            except Exception as e:
                err = f"{type(e).__name__}: {e} {traceback.format_exc()[-800:]}"
            os.chdir("/")
            shutil.rmtree(sub, ignore_errors=True)
            q.put((self.enumerated, self.random, list(self.keys), self.failures, err))
        procs = max(1, min(procs, len(items)))
        chunks = [items[i::procs] for i in range(procs)]
        ctx = mp.get_context("fork")
        q = ctx.Queue()
        ps = [ctx.Process(target=child, args=(c, q)) for c in chunks]
        for p_ in ps:
            p_.start()
        import queue as _queue
        got = 0
        while got < len(ps):
            try:
                e, r, ks, fs, err = q.get(timeout=10)
            except _queue.Empty:
                # a worker that died without reporting (killed, out of memory) must not look like "no failures"
                if sum(1 for p_ in ps if p_.exitcode is not None) > got and q.empty():
                    for p_ in ps:
                        p_.terminate()
                    raise RuntimeError("a bounded worker process ended without reporting its results")
                continue
            got += 1
            if err:
                # stop the other workers first: the interpreter joins live children at exit and they would block on the unread queue
                for p_ in ps:
                    p_.terminate()
                raise RuntimeError("bounded worker failed: " + err)
            self.enumerated += e
            self.random += r
            self.keys |= set(ks)
            self.failures.extend(fs)
        for p_ in ps:
            p_.join()

    def _diverse(self):
        """keep a few failures per (clause, shape) so that every class of failing input is reported"""
        out, cnt = [], {}
        for f in self.failures:
            shape = None
            if isinstance(f.get("input"), dict):
                # the declared shape, else the input's flags and short labels (so a known class of failing input cannot crowd out another one)
                shape = f["input"].get("shape") or tuple(sorted((k_, v_) for k_, v_ in f["input"].items() if isinstance(v_, (bool, str)) and len(str(v_)) <= 24))
            k = (f["clause"], shape)
            cnt[k] = cnt.get(k, 0) + 1
            if cnt[k] <= 3:
                out.append(f)
        return out[:400]

    def finish(self):
        self.failures = self._diverse()
        os.chdir("/")
        shutil.rmtree(self.work, ignore_errors=True)
        json.dump({"enumerated": self.enumerated, "random": self.random, "distinct": len(self.keys), "exhaustive": self.exhaustive and self.random == 0,
                   "failures": self.failures, "samples": self.samples}, sys.stdout, default=str)


def run_guarded(main):
    try:
        main()
    except Exception as e:   # the script itself broke: the driver reports a checker error, not a violation
        os.chdir("/")
        json.dump({"error": f"{type(e).__name__}: {e}", "trace": traceback.format_exc()[-1500:]}, sys.stdout)
