#!/venv/bin/python
"""Bounded check for C20: data and values flow between csvpaths as declared (oracle = the property statement).

 scope A  chains of 2..3 filter csvpaths with source-mode: preceding on every suffix (all 2^k-1 suffix choices) x 3 files x serial run methods
          x file dialect {comma; semicolon-delimited read by CsvPaths(delimiter=';') (every 4th chain)}:
          a preceding member reads exactly the lines its predecessor collected, its manifest names that data.csv as actual input, and the
          lines each Result hands back are the lines in its data.csv.
 scope B  variable references $grp.variables.v[.key] and header references $grp.headers.h (cells with and without surrounding blanks, an empty
          cell) after 1..3 runs of the producing group whose final values include 0, '', False and tracked values; a results reference used as
          a file name -- by ':last', ':first' and by the exact run directory name -- replays the member's data.csv.
"""
import itertools, os, sys
sys.path.insert(0, os.path.dirname(os.path.abspath(__file__)))
from blib import Bounded, run_guarded
import mlib

FILTERS = ['#b == "x"', 'not(#a == "2")', 'yes()', 'gt(#a, 1)', '#b == "nothing"']
FILES = {"f1": [["a", "b"], ["1", "x"], ["2", "x"], ["3", "y"], ["4", "x"]],
         "f2": [["a", "b"], ["1", "y"], ["2", "x"], ["3", "x"]],
         "f3": [["a", "b"], ["2", "x"], ["9", "x"]]}


def main():
    b = Bounded()
    from csvpath import CsvPath
    import datetime as _dt
    import csvpath.csvpaths as cps

    class Clock:
        t = _dt.datetime(2031, 5, 17, 10, 0, 0, tzinfo=_dt.timezone.utc)

    class FakeDT(_dt.datetime):
        @classmethod
        def now(cls, tz=None):
            # every run starts in its own second (same-second runs are C10's subject, not this one's)
            Clock.t = Clock.t + _dt.timedelta(seconds=1)
            return Clock.t
    cps.datetime = FakeDT
    chains = [c for n in (2, 3) for c in itertools.permutations(range(len(FILTERS)), n)]
    if not b.thorough():
        chains = chains[::3]
        b.exhaustive = False
    items = [("chain", c, f, m, ",") for c in chains for f in FILES for m in ("collect_paths",)] + \
            [("chain", c, "f1", "collect_paths", ";") for c in chains[::4]] + \
            [("ref", k, None, None, None) for k in range(6)]

    def work(b, item):
        with b.fresh_dir():
            (work_chain if item[0] == "chain" else work_ref)(b, item)

    def work_chain(b, item):
        _, chain, fkey, method, delim = item
        n = len(chain)
        fn = os.path.abspath(mlib.write_rows(f"{fkey}.csv", FILES[fkey], delimiter=delim))
        # source-mode preceding on every non-empty suffix of the chain starting at position >= 1
        for start in range(1, n):
            key = f"chain={[FILTERS[i] for i in chain]} file={fkey} method={method} preceding_from={start}" + ("" if delim == "," else f" delimiter={delim!r}")
            b.case(key)
            group = []
            for pos, fi in enumerate(chain):
                mode = " source-mode: preceding" if pos >= start else ""
                group.append(f"~ id: m{pos}{mode} ~ $[*][ {FILTERS[fi]} ]")
            with b.quiet():
                paths = mlib.new_paths() if delim == "," else mlib.new_paths(delimiter=delim)
                paths.file_manager.add_named_file(name=fkey, path=fn)
                paths.paths_manager.add_named_paths(name="chain", paths=group)
                out, exc = mlib.run(paths, method, "chain", fkey)
            # what each member must read and collect: computed with the standalone CsvPath on the declared input
            expected_in = [None] * n
            expected_out = [None] * n
            ok = True
            for pos, fi in enumerate(chain):
                src_file = fn
                if pos >= start:
                    prev = expected_out[pos - 1]
                    if not prev:
                        # the predecessor collected nothing (no data.csv): the member must not fall back to some other input
                        ok = False
                        if exc is None:
                            results = paths.results_manager.get_named_results("chain")
                            if pos < len(results):
                                r = results[pos]
                                dp = os.path.join(r.run_dir, r.identity_or_index, "data.csv")
                                got = mlib.read_csv(dp) if os.path.exists(dp) else []
                                if got:
                                    b.fail("preceding_member_reads_exactly_its_predecessors_lines", f"{key} member=m{pos}",
                                           "the predecessor collected no lines, yet the member collected", got, [])
                        break
                    src_file = os.path.abspath(mlib.write_rows(f"in_{pos}.csv", prev))
                    expected_in[pos] = prev
                with b.quiet():
                    # (the original file is read in its own dialect; a predecessor's data is a plain comma file)
                    p = CsvPath() if (delim == "," or pos >= start) else CsvPath(delimiter=delim)
                    expected_out[pos] = [list(x) for x in p.parse(f"${src_file}[*][ {FILTERS[fi]} ]").collect()]
            if not ok:
                continue
            if exc is not None:
                b.fail("chain_runs", key, f"{type(exc).__name__}: {exc}")
                continue
            if method != "collect_paths":
                continue
            results = paths.results_manager.get_named_results("chain")
            for pos, r in enumerate(results):
                d = os.path.join(r.run_dir, r.identity_or_index)
                dp = os.path.join(d, "data.csv")
                got = mlib.read_csv(dp) if os.path.exists(dp) else []
                if got != expected_out[pos]:
                    b.fail("preceding_member_reads_exactly_its_predecessors_lines", f"{key} member=m{pos}", "collected lines", got, expected_out[pos])
                with b.quiet():
                    back = [list(x) for x in r.lines.next()] if hasattr(r.lines, "next") else [list(x) for x in (r.lines or [])]
                if back != got:
                    b.fail("result_hands_back_the_lines_in_its_data_csv", f"{key} member=m{pos}", "Result.lines", back, got)
                mm = mlib.jload(os.path.join(d, "manifest.json"))
                if pos >= start:
                    want_in = os.path.join(results[pos - 1].run_dir, results[pos - 1].identity_or_index, "data.csv")
                    if os.path.normpath(str(mm.get("actual_data_file"))) != os.path.normpath(want_in):
                        b.fail("manifest_names_the_actual_input", f"{key} member=m{pos}", "actual_data_file", mm.get("actual_data_file"), want_in)
                else:
                    stored = paths.file_manager.get_named_file(fkey)
                    if os.path.normpath(str(mm.get("actual_data_file"))) != os.path.normpath(stored):
                        b.fail("manifest_names_the_actual_input", f"{key} member=m{pos}", "actual_data_file", mm.get("actual_data_file"), stored)

    def replays(paths, key):
        """a results reference used as a file name replays exactly the referenced member's data.csv"""
        srcs = paths.results_manager.get_named_results("stock")[0]
        src_data = os.path.join(srcs.run_dir, srcs.identity_or_index, "data.csv")
        run_name = os.path.basename(srcs.run_dir)
        first_name = sorted(os.listdir(os.path.dirname(srcs.run_dir)))[0]
        first_data = os.path.join(os.path.dirname(srcs.run_dir), first_name, srcs.identity_or_index, "data.csv")
        for form, ref, ref_data in ((":last", "$stock.results.2:last.p", src_data), (":first", "$stock.results.2:first.p", first_data),
                                    ("exact run directory name", f"$stock.results.{run_name}.p", src_data)):
            with b.quiet():
                paths.paths_manager.add_named_paths(name="replay", paths=['~ id: r ~ $[*][ yes() ]'])
                out3, exc3 = mlib.run(paths, "collect_paths", "replay", ref)
            if exc3 is not None:
                b.fail("results_reference_replays_data_csv", f"{key} reference by {form}", f"{type(exc3).__name__}: {str(exc3)[:200]}")
                continue
            rs = paths.results_manager.get_named_results("replay")[0]
            rd = os.path.join(rs.run_dir, rs.identity_or_index, "data.csv")
            got = mlib.read_csv(rd) if os.path.exists(rd) else []
            want = mlib.read_csv(ref_data) if os.path.exists(ref_data) else []
            if got != want:
                b.fail("results_reference_replays_data_csv", f"{key} reference by {form}", "lines replayed", got, want)

    def work_ref(b, item):
        k = item[1]
        # producing group: leaves variables with falsy and tracked final values; run 1..3 times over files of different length
        pad = " fig " if k >= 3 else "fig"
        datas = [[["sku", "name"], ["1", "apple"], ["2", "pear"], ["3", "fig"]],
                 [["sku", "name"], ["1", "apple"], ["2", "pear"], ["3", "fig"], ["4", "kiwi"]],
                 [["sku", "name"], ["7", "plum"]]]
        datas = [[[c if c != "fig" else pad for c in row] for row in rows] + ([["5", ""]] if k % 2 else []) for rows in datas]
        producer = ['~ id: p ~ $[*][ @remaining = subtract(4, line_number()) @lastname = #name tally(#name) @flag = equals(line_number(), 99) ]']
        runs = (k % 3) + 1
        key = f"reference case {k}: producer run {runs} time(s)"
        b.case(key)
        with b.quiet():
            paths = mlib.new_paths()
            for i, rows in enumerate(datas):
                paths.file_manager.add_named_file(name=f"d{i}", path=os.path.abspath(mlib.write_rows(f"d{i}.csv", rows)))
            paths.paths_manager.add_named_paths(name="stock", paths=producer)
            consumer = ['~ id: c ~ $[*][ @seen = $stock.variables.remaining @name = $stock.variables.lastname @flag = $stock.variables.flag '
                        '@t = $stock.variables.tally_name.apple @names = $stock.headers.name ]']
            paths.paths_manager.add_named_paths(name="report", paths=consumer)
            for i in range(runs):
                paths.collect_paths(filename=f"d{i}", pathsname="stock")
                if i < runs - 1:
                    # the same references are used again after every further run of the group, on the same CsvPaths instance (they must follow the runs)
                    replays(paths, f"{key} (after producer run {i + 1} of {runs})")
            final = dict(paths.results_manager.get_variables("stock"))
            out, exc = mlib.run(paths, "collect_paths", "report", "d0")
        if exc is not None:
            b.fail("reference_run_completes", key, f"{type(exc).__name__}: {exc}")
            return
        r = paths.results_manager.get_named_results("report")[0]
        errs = [f"{e.error}" for e in r.errors]
        v = r.csvpath.variables
        for var, src in (("seen", "remaining"), ("name", "lastname"), ("flag", "flag")):
            if var not in v or v[var] != final.get(src) or type(v[var]) is not type(final.get(src)):
                b.fail("variable_reference_is_the_final_value_of_the_most_recent_run", f"{key} ${'{'}stock.variables.{src}{'}'}",
                       "value seen by the referencing csvpath", [v.get(var, '<unset>'), errs[:1]], final.get(src))
        want_t = (final.get("tally_name") or {}).get("apple")
        if v.get("t") != want_t:
            b.fail("tracked_variable_reference", key, "$stock.variables.tally_name.apple", [v.get("t", "<unset>"), errs[:1]], want_t)
        # a header reference is the list of values collected under that header by the group's most recent run
        srcs = paths.results_manager.get_named_results("stock")[0]
        src_data = os.path.join(srcs.run_dir, srcs.identity_or_index, "data.csv")
        collected = mlib.read_csv(src_data) if os.path.exists(src_data) else []
        want_names = [row[1] for row in collected if len(row) > 1]
        if v.get("names") != want_names:
            b.fail("header_reference_is_the_list_of_values_collected_under_the_header",
                   {"case": key, "padded_cell": pad != "fig", "empty_cell": bool(k % 2), "shape": f"padded={pad != 'fig'} empty={bool(k % 2)}"},
                   "$stock.headers.name", [v.get("names", "<unset>"), errs[:1]], want_names)
        replays(paths, key)

    b.fan_out(work, items)
    b.sample({"example": "chain=[#b == \"x\", yes()] with source-mode: preceding on the second member; $stock.variables.remaining after 2 runs"})
    b.finish()


run_guarded(main)
