#!/venv/bin/python
"""Bounded check for C19: results depend only on the csvpath, the file and the configuration (a relation between histories of the real code; no model).

 jobs   12 (csvpath, file, delimiter) jobs over 5 files: plain headers + blank line + empty cells; header cells with quotes / spaces / a leading quote;
        a ';'-delimited file; a quoted header cell containing a newline; a first line that is one empty cell.  Jobs include one that changes the
        headers in place (append()), header counting / printing, tallies, stacks, a job raising per-line errors, last().
 oracle every job's result tuple (lines, variables, printouts, error count, is_valid, scan/match counts, headers) when run FIRST in a FRESH PROCESS by a
        bare CsvPath = the baseline of that job.
 scope  (H) every ordered pair of jobs + 80 (thorough 1500) random histories of 3..4 (3..6) jobs in one process, each job run by a bare CsvPath or through
            a per-history CsvPaths (chosen at random), each compared with its baseline;
        (C) per job: CsvPaths with a cold cache == new CsvPaths instance on the populated cache directory (warm) == baseline;
        (R) per job: the same CsvPaths runs the job twice: identical results;
        (M) the line monitor / header list a FileCacher hands out can be changed by the caller without changing what the next caller gets.
"""
import itertools, json, os, subprocess, sys
HERE = os.path.dirname(os.path.abspath(__file__))
sys.path.insert(0, HERE)

FILES = {
    "f1": ("a,b,c\n1,x,\n\n2,y,3\n3,x,4\n", ","),
    "f2": ('"""id""" , zip code,"say ""hi""",plain\n1,02139,a,p\n2,10001,b,q\n', ","),
    "f3": ("first;last;age\nann;lee;41\nbob;kim;29\n", ";"),
    "f4": ('"first\nname",b\n1,2\n', ","),
    "f5": ('""\n1\n2\n', ","),
}
JOBS = [
    ("f1", '[*][ yes() ]'),
    ("f1", '[1*][ @n = count_headers() print("$.csvpath.headers") ]'),
    ("f1", '[*][ append("origin", "x") @n = count_headers() ]'),
    ("f1", '[*][ #b == "x" tally(#a) ]'),
    ("f1", '[*][ @i = int(#b) ]'),
    ("f1", '[2*][ last() -> @l = line_number() push("seen", #a) ]'),
    ("f2", '[*][ @n = count_headers() print("h: $.csvpath.headers") ]'),
    ("f2", '[1*][ push("ids", #0) @p = #plain ]'),
    ("f3", '[*][ @age = #age print("$.headers.age") ]'),
    ("f3", '[1*][ gt(#age, 30) ]'),
    ("f4", '[*][ @n = count_headers() ]'),
    ("f5", '[*][ @n = count_headers() yes() ]'),
]


def write_files():
    for k, (txt, _d) in FILES.items():
        with open(f"{k}.csv", "w", encoding="utf-8", newline="") as f:
            f.write(txt)


def state(p, lines, printouts):
    return {"lines": [list(x) for x in lines] if lines is not None else None, "variables": json.loads(json.dumps(p.variables, default=str)),
            "printouts": list(printouts), "errors": len(p.errors or []), "is_valid": p.is_valid, "scan_count": p.scan_count, "match_count": p.match_count,
            "headers": list(p.headers or [])}


def run_direct(k):
    import contextlib, io
    from csvpath import CsvPath
    from csvpath.util.printer import TestPrinter
    fkey, body = JOBS[k]
    tp = TestPrinter()
    with contextlib.redirect_stdout(io.StringIO()), contextlib.redirect_stderr(io.StringIO()):
        p = CsvPath(print_default=False, delimiter=FILES[fkey][1])
        p.add_printer(tp)
        lines = p.parse(f"~ id: m ~ ${os.path.abspath(fkey + '.csv')}{body}").collect()
    return state(p, lines, tp.lines)


def run_in_paths(paths_by_delim, k, tag=""):
    import contextlib, io, csv
    from csvpath import CsvPaths
    fkey, body = JOBS[k]
    d = FILES[fkey][1]
    with contextlib.redirect_stdout(io.StringIO()), contextlib.redirect_stderr(io.StringIO()):
        ps = paths_by_delim.get(d)
        if ps is None:
            ps = paths_by_delim[d] = CsvPaths(delimiter=d)
        name = f"j{k}{tag}"
        ps.file_manager.add_named_file(name=fkey, path=os.path.abspath(fkey + ".csv"))
        ps.paths_manager.add_named_paths(name=name, paths=[f"~ id: m ~ ${body}"])
        ps.collect_paths(filename=fkey, pathsname=name)
        r = ps.results_manager.get_named_results(name)[0]
        dp = os.path.join(r.run_dir, r.identity_or_index, "data.csv")
        lines = []
        if os.path.exists(dp):
            with open(dp, "r", newline="", encoding="utf-8") as f:
                lines = [row for row in csv.reader(f)]
        st = state(r.csvpath, lines, r.get_printout_by_name("default"))
    return st


if len(sys.argv) > 2 and sys.argv[1] == "--baseline":
    # fresh process, fresh directory (cwd given by the parent), one job, bare CsvPath
    sys.path.insert(0, sys.argv[3])
    write_files()
    print("\n" + json.dumps(run_direct(int(sys.argv[2]))))
    sys.exit(0)

from blib import Bounded, run_guarded


def main():
    b = Bounded()
    rnd = b.rnd
    # ---- baselines: each job first in its own fresh process
    base = {}
    procs = []
    for k in range(len(JOBS)):
        d = os.path.join(b.work, f"base{k}")
        os.makedirs(d)
        env = dict(os.environ, PYTHONPATH=b.repo)
        procs.append((k, subprocess.Popen([sys.executable, os.path.abspath(__file__), "--baseline", str(k), b.repo], cwd=d, env=env,
                                          stdout=subprocess.PIPE, stderr=subprocess.PIPE, text=True)))
    for k, pr in procs:
        out, err = pr.communicate(timeout=600)
        if pr.returncode != 0:
            raise RuntimeError(f"baseline of job {k} failed: {err[-600:]}")
        base[k] = json.loads(out.strip().split("\n")[-1])
    # a run through CsvPaths reads the lines back from data.csv (strings); the bare run returns them as read: compare on the same footing
    histories = [("H", list(p_)) for p_ in itertools.product(range(len(JOBS)), repeat=2)]
    nlong = 80 if not b.thorough() else 1500
    for _ in range(nlong):
        histories.append(("H", [rnd.randrange(len(JOBS)) for _j in range(rnd.randint(3, 4 if not b.thorough() else 6))]))
    items = [(kind, seq, rnd.randrange(1 << 30)) for kind, seq in histories]
    items += [("C", [k], 0) for k in range(len(JOBS))] + [("R", [k], 0) for k in range(len(JOBS))] + [("M", [k], 0) for k in range(len(JOBS))]
    b.exhaustive = False

    def diff(got, want):
        return {f: (got[f], want[f]) for f in want if got.get(f) != want[f]}

    def work(b, item):
        with b.fresh_dir():
            write_files()
            work1(b, item)

    def work1(b, item):
        import random as _r
        kind, seq, seed = item
        lr = _r.Random(seed)
        key = f"{kind}:" + ",".join(f"{k}" for k in seq)
        if kind == "H":
            modes = [lr.choice(["direct", "paths"]) for _ in seq]
            key += " modes=" + ",".join(m[0] for m in modes)
            b.case(key, randomised=len(seq) > 2)
            pbd = {}
            for pos, (k, mode) in enumerate(zip(seq, modes)):
                try:
                    st = run_direct(k) if mode == "direct" else run_in_paths(pbd, k, tag=f"_{pos}")
                except Exception as e:
                    b.fail("job_runs", {"history": key, "position": pos, "job": JOBS[k]}, f"{type(e).__name__}: {str(e)[:200]}")
                    return
                dd = diff(st, base[k])
                if dd:
                    b.fail("same_as_first_in_a_fresh_process", {"history": key, "position": pos, "job": list(JOBS[k]), "mode": mode,
                                                                "earlier_jobs": [list(JOBS[j]) for j in seq[:pos]]},
                           "fields that differ (observed, fresh-process baseline)", dd)
                    return
            return
        k = seq[0]
        b.case(key)
        if kind == "C":
            try:
                cold = run_in_paths({}, k, tag="_cold")
                warm = run_in_paths({}, k, tag="_warm")       # a new CsvPaths instance, same working directory: the cache directory is populated
            except Exception as e:
                b.fail("job_runs", {"history": key, "job": JOBS[k]}, f"{type(e).__name__}: {str(e)[:200]}")
                return
            for nm, st in (("cold", cold), ("warm", warm)):
                dd = diff(st, base[k])
                if dd:
                    b.fail("cold_and_warm_cache_give_the_baseline", {"job": list(JOBS[k]), "cache": nm}, "fields that differ (observed, fresh-process baseline)", dd)
        elif kind == "R":
            pbd = {}
            try:
                one = run_in_paths(pbd, k, tag="_r1")
                two = run_in_paths(pbd, k, tag="_r2")
            except Exception as e:
                b.fail("job_runs", {"history": key, "job": JOBS[k]}, f"{type(e).__name__}: {str(e)[:200]}")
                return
            dd = diff(two, one)
            if dd:
                b.fail("repeating_a_run_gives_identical_results", {"job": list(JOBS[k])}, "fields that differ (second, first)", dd)
        else:
            import contextlib, io
            from csvpath import CsvPaths
            fkey = JOBS[k][0]
            with contextlib.redirect_stdout(io.StringIO()), contextlib.redirect_stderr(io.StringIO()):
                ps = CsvPaths(delimiter=FILES[fkey][1])
                fn = os.path.abspath(fkey + ".csv")
                c = ps.file_manager.cacher
                h1 = c.get_original_headers(fn)
                lm1 = c.get_new_line_monitor(fn)
                keep_h, keep_lm = list(h1), lm1.dump()
                h1.append("intruder")
                if h1:
                    h1[0] = "changed"
                lm1.next_line(last_line=[], data=["x"])
                lm1.next_line(last_line=["x"], data=["y"])
                h2 = c.get_original_headers(fn)
                lm2 = c.get_new_line_monitor(fn)
            if h2 != keep_h:
                b.fail("callers_get_private_copies", {"file": fkey, "what": "headers"}, "headers handed out after an earlier caller changed its copy", h2, keep_h)
            if lm2.dump() != keep_lm:
                b.fail("callers_get_private_copies", {"file": fkey, "what": "line monitor"}, "line monitor handed out after an earlier caller advanced its copy", lm2.dump(), keep_lm)

    b.fan_out(work, items)
    b.sample({"example": "history 2,1 (append() job then count_headers() on the same file), both through one CsvPaths: each equals its fresh-process baseline"})
    b.finish()


run_guarded(main)
