"""helpers for bounded scripts that drive the real CsvPaths (named files, named paths, archive)"""
import csv, hashlib, json, os

METHODS = ["collect_paths", "fast_forward_paths", "next_paths", "collect_by_line", "fast_forward_by_line", "next_by_line"]
SERIAL = METHODS[:3]
BY_LINE = METHODS[3:]


def new_paths(**kw):
    from csvpath import CsvPaths
    return CsvPaths(**kw)


def write_rows(name, rows, **fmt):
    with open(name, "w", newline="", encoding="utf-8") as f:
        csv.writer(f, **fmt).writerows(rows)
    return name


def run(paths, method, pathsname, filename, **kw):
    """runs one of the six run methods; returns (lines returned to the caller or None, exception or None)"""
    out, exc = None, None
    try:
        if method in ("next_paths", "next_by_line"):
            out = [ln for ln in getattr(paths, method)(pathsname=pathsname, filename=filename, **kw)]
        else:
            out = getattr(paths, method)(pathsname=pathsname, filename=filename, **kw)
    except Exception as e:
        exc = e
    return out, exc


def jload(p):
    with open(p, "r", encoding="utf-8") as f:
        return json.load(f)


def sha256(p):
    with open(p, "rb") as f:
        return hashlib.sha256(f.read()).hexdigest()


def read_csv(p):
    with open(p, "r", newline="", encoding="utf-8") as f:
        return [r for r in csv.reader(f)]


def parse_printouts(p):
    """printouts.txt -> {stream: [lines]} using the '---- PRINTOUT: <name>' headers"""
    out, cur = {}, None
    with open(p, "r", encoding="utf-8") as f:
        for ln in f.read().split("\n"):
            if ln.startswith("---- PRINTOUT: "):
                cur = ln[len("---- PRINTOUT: "):]
                out[cur] = []
            elif cur is not None:
                out[cur].append(ln)
    for k in out:
        if out[k] and out[k][-1] == "":
            out[k].pop()
    return out


def jsonable(v):
    return json.loads(json.dumps(v))
