#!/venv/bin/python
"""Bounded check for C16: print() emits its text verbatim with references replaced by current values (oracle = the property statement:
   render(template) = concatenation of the items, each reference replaced by str(current value), '..' after a reference is a literal dot).

 scope  templates of 1..3 items (thorough 1..4) over 17 item kinds: text chunks, one-char punctuation, a space, the '..' escape, and references
        $.variables.x / .t.k (tracked) / .s.0 / .s.length, $.headers.a / .1, $.metadata.id, $.csvpath.count_lines -- every arrangement;
        plus print.onmatch / print.once gating on a 4-line file.
"""
import itertools, os, sys
sys.path.insert(0, os.path.dirname(os.path.abspath(__file__)))
from blib import Bounded, run_guarded

TEXT = {"T1": "ab", "T2": "x1", "P1": ",", "P2": ";", "P3": ":", "S": " ", "D": ".."}
REFS = {"Rx": ("$.variables.x", lambda e: e["x"]), "Rt": ("$.variables.t.k", lambda e: e["t"]["k"]), "Rs0": ("$.variables.s.0", lambda e: e["s"][0]),
        "Rlen": ("$.variables.s.length", lambda e: len(e["s"])), "Rha": ("$.headers.a", lambda e: e["line"][0]), "Rh1": ("$.headers.1", lambda e: e["line"][1]),
        "Rm": ("$.metadata.id", lambda e: e["id"]), "Rc": ("$.csvpath.count_lines", lambda e: e["count_lines"]),
        "Ru": ("$.variables.u.k", lambda e: 0), "Rn": ("$.variables.n.0", lambda e: 0)}


def main():
    b = Bounded()
    from csvpath import CsvPath
    from csvpath.util.printer import TestPrinter
    kinds = list(TEXT) + list(REFS)
    L = 3 if not b.thorough() else 4
    templates = []
    for n in range(1, L + 1):
        for combo in itertools.product(kinds, repeat=n):
            # '..' only makes sense directly after a reference; two text chunks in a row are one chunk; leading/trailing space is trimmed by print
            ok = True
            for i, k in enumerate(combo):
                if k == "D" and (i == 0 or combo[i - 1] not in REFS):
                    ok = False
                if k in ("T1", "T2") and i > 0 and combo[i - 1] in ("T1", "T2"):
                    ok = False
                if k in ("T1", "T2") and i > 0 and combo[i - 1] in REFS:
                    ok = False          # a name character right after a reference would extend the name
            if combo[0] == "S" or combo[-1] == "S":
                ok = False
            if ok:
                templates.append(combo)
    fn_rows = ["a,b", "p,q", "r,s"]

    def work(b, combo):
        with b.fresh_dir():
            work1(b, combo)

    def work1(b, combo):
        src = "".join(TEXT[k] if k in TEXT else REFS[k][0] for k in combo)
        shape = ",".join("R" if k in REFS else k[0] for k in combo)
        # two references with nothing, one character or the '..' escape between them
        adjacent = any(combo[i] in REFS and (combo[i + 1] in REFS or (i + 2 < len(combo) and combo[i + 1] in ("P1", "P2", "P3", "S", "D") and combo[i + 2] in REFS))
                       for i in range(len(combo) - 1))
        inp = {"template": src, "shape": shape, "adjacent_refs": adjacent}
        b.case(src)
        fn = b.write_lines("f.csv", fn_rows)
        tp = TestPrinter()
        try:
            with b.quiet():
                p = CsvPath(print_default=False)
                p.add_printer(tp)
                p.parse(f'~ id: demo ~ ${fn}[1][ @x = "vx" push("s", "s0") tally(#a) @t.k = "tk" @u.k = 0 push("n", 0) print("{src}") ]')
                p.fast_forward()
        except Exception as e:
            b.fail("print_runs", inp, f"{type(e).__name__}: {e}")
            return
        env = {"x": "vx", "t": {"k": "tk"}, "s": ["s0"], "line": ["p", "q"], "id": "demo", "count_lines": 2}
        want = "".join(("." if k == "D" else TEXT[k]) if k in TEXT else str(REFS[k][1](env)) for k in combo)
        got = list(tp.lines)
        if p.errors:
            b.fail("print_runs", inp, "print raised inside the csvpath", [f"{e.error}" for e in p.errors][:1], want)
            return
        if got != [want]:
            b.fail("text_verbatim_references_replaced", inp, "printed", got, [want], key=src)

    b.fan_out(work, templates)
    # ---- gating: onmatch / once
    with b.fresh_dir():
        fn = b.write_lines("g.csv", ["a,b", "1,x", "2,y", "3,x"])
        for qual, match, want in (("onmatch", '#b == "x"', ["l 1", "l 3"]), ("once", "yes()", ["l 0"]), ("", "yes()", ["l 0", "l 1", "l 2", "l 3"]),
                                  ("onmatch.once", '#b == "x"', ["l 1"])):
            b.case(f"gating print.{qual}")
            tp = TestPrinter()
            with b.quiet():
                p = CsvPath(print_default=False)
                p.add_printer(tp)
                p.parse(f'${fn}[*][ {match} print{"." + qual if qual else ""}("l $.csvpath.line_number") ]')
                p.fast_forward()
            if list(tp.lines) != want:
                b.fail("onmatch_once_gating", {"qualifier": qual, "match": match}, "printed lines", list(tp.lines), want)
        for qual, want_n in (("once", 1), ("onmatch.once", 1)):
            b.case(f"gating named printer print.{qual}")
            tp = TestPrinter()
            with b.quiet():
                p = CsvPath(print_default=False)
                p.add_printer(tp)
                p.parse(f'${fn}[*][ yes() print.{qual}("named", "audit") ]')
                p.fast_forward()
            if len(tp.lines) != want_n:
                b.fail("onmatch_once_gating", {"qualifier": qual, "printer": "audit"}, "entries sent", len(tp.lines), want_n)
    with b.fresh_dir():
        fn = b.write_lines("e.csv", ["a,b", "1,", "2,y"])
        b.case("renders empty")
        tp = TestPrinter()
        with b.quiet():
            p = CsvPath(print_default=False)
            p.add_printer(tp)
            p.parse(f'${fn}[1*][ print("$.headers.b") ]')
            p.fast_forward()
        if list(tp.lines) != ["", "y"] or p.errors:
            b.fail("text_verbatim_references_replaced", {"template": "$.headers.b", "shape": "R", "adjacent_refs": False, "renders_empty": True},
                   "a print whose whole output is empty", [list(tp.lines), [f"{e.error}" for e in (p.errors or [])][:1]], ["", "y"])
    b.sample({"template": "ab $.variables.x;$.headers.a..", "renders": "ab vx;p."})
    b.finish()


run_guarded(main)
