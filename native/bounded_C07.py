#!/venv/bin/python
"""Bounded complement for C07 (the property is a relation between three entry points of the real CsvPath; no model needed).

 scope  csvpaths: 14 match parts (incl. stop/skip/advance/last/print/fail/collect()/unmatched-mode keep) x scans {*, 1-3, 0+2+4}
        x files {5 records, ragged, blank interior, trailing blank} x skip_blank_lines {True, False};
        collect(nexts=n) for n in 1..matches+1
 clause same lines from collect() and next(); identical variables, counters, validity, stop state, error count, printouts after
        collect(), next() and fast_forward(); collect(nexts=n) == first n lines and leaves the state next() has after its n-th yield
"""
import copy, os, sys
sys.path.insert(0, os.path.dirname(os.path.abspath(__file__)))
from blib import Bounded, run_guarded


def state(p, tp):
    return {"variables": copy.deepcopy(p.variables), "scan_count": p.scan_count, "match_count": p.match_count, "is_valid": p.is_valid,
            "stopped": p.stopped, "errors": len(p.errors or []), "printed": list(tp.lines),
            "line": p.line_monitor.physical_line_number if p.line_monitor else None}


def main():
    b = Bounded()
    from csvpath import CsvPath
    from csvpath.util.printer import TestPrinter
    files = {
        "plain": ["a,b,c", "1,x,p", "2,y,q", "3,x,r", "4,z,s"],
        "ragged": ["a,b,c", "1,x", "2,y,q", "3", "4,z,s"],
        "blankmid": ["a,b,c", "1,x,p", "", "3,x,r", "4,z,s"],
        "blankend": ["a,b,c", "1,x,p", "2,y,q", ""],
    }
    matches = ['#b == "x"', 'yes() @n = count()', '#a == "2" -> stop()', 'line_number() == 2 -> skip() push("s", #a)', 'push("s", #a) #a == "3" -> stop() yes()',
               'line_number() == 1 -> advance(1) push("s", line_number())', 'last() -> print("done $.csvpath.count_lines")', 'print("l $.headers.a")',
               '#a == "3" -> fail() tally(#b)', 'collect("c") yes()', 'collect("a") #b == "x"', 'add("x", #a)', '@m = #b yes()', 'no()']
    comments = ["", "~ unmatched-mode: keep ~ "]
    scans = ["*", "1-3", "0+2+4"]
    if not b.thorough():
        scans = ["*", "1-3"]
    items = [(fname, sbl, sc, cm, m) for fname in files for sbl in (True, False) for sc in scans for cm in comments for m in matches
             if not (cm and "collect(" in m)]

    def work(b, item):
                        fname, sbl, sc, cm, m = item
                        lines = files[fname]
                        fn = b.write_lines(f"{fname}.csv", lines)
                        src = f"{cm}${fn}[{sc}][{m}]"
                        key = f"{fname} sbl={sbl} {cm}[{sc}][{m}]"
                        b.case(key)

                        def run(kind, nexts=None):
                            tp = TestPrinter()
                            p = CsvPath(skip_blank_lines=sbl, print_default=False)
                            p.add_printer(tp)
                            out, exc = None, None
                            try:
                                with b.quiet():
                                    p.parse(src)
                                    if kind == "collect":
                                        out = p.collect() if nexts is None else p.collect(nexts=nexts)
                                    elif kind == "next":
                                        out = []
                                        for ln in p.next():
                                            out.append(ln[:])
                                            if nexts is not None and len(out) >= nexts:
                                                break
                                    else:
                                        p.fast_forward()
                            except Exception as e:
                                exc = type(e).__name__
                            return out, exc, state(p, tp)
                        c_out, c_exc, c_st = run("collect")
                        n_out, n_exc, n_st = run("next")
                        f_out, f_exc, f_st = run("ff")
                        if c_exc != n_exc or c_exc != f_exc:
                            b.fail("same_outcome", key, "the three methods do not raise alike", [c_exc, n_exc, f_exc])
                            return
                        if c_exc is None and c_out != n_out:
                            b.fail("collect_returns_what_next_yields", key, "collect() vs next()", c_out, n_out)
                        if c_st != n_st:
                            b.fail("same_state_collect_next", key, "state after collect() differs from next()", c_st, n_st)
                        if f_st != n_st:
                            b.fail("same_state_fast_forward_next", key, "state after fast_forward() differs from next()", f_st, n_st)
                        if c_exc is None and "collect(" not in m:
                            total = len(n_out or [])
                            for n in range(1, total + 2):
                                cn_out, cn_exc, cn_st = run("collect", n)
                                nn_out, nn_exc, nn_st = run("next", n)
                                if cn_out != (n_out or [])[:n]:
                                    b.fail("collect_n_is_a_prefix", key + f" n={n}", "collect(nexts=n) is not the first n lines", cn_out, (n_out or [])[:n])
                                if cn_st != nn_st:
                                    b.fail("collect_n_no_later_side_effect", key + f" n={n}", "state after collect(nexts=n) differs from next() stopped after n yields", cn_st, nn_st)
    b.fan_out(work, items)
    b.sample({"example": "plain.csv [1-3][#a == \"2\" -> stop()] run by collect(), next(), fast_forward(), collect(nexts=1..)"})
    b.finish()


run_guarded(main)
