#!/venv/bin/python
"""Native side (runs under /venv/bin/python, imports the REAL csvpath from the tree under test).

Reads one JSON job on stdin, writes one JSON answer on stdout.

job = {"repo": "/repo", "target": "csvpath/scanning/scanner.py::Scanner.includes",
       "types": {...}, "macros": {...}, "class_modules": {"Scanner": "csvpath.scanning.scanner"},
       "clauses": {"name": "expr"}, "requires": [...], "raises": {...},
       "cases": [{"values": {access path: json value}, "alias": [[a, b]], "id": ...}], "int_window": 12}
answer = {"cases": [{"id":…, "pre_ok": bool, "outcome": "normal"|"raised:<Cls>", "result": repr,
                     "clauses": {name: true|false|"error: …"}, "post": {path: repr}}]}

The same spec text that was translated to SMT is evaluated here concretely (DESIGN §1 (ii)/(iii)):
old(e) is evaluated on a deep copy of the pre-state; forall_int/exists_int range over a finite
window (so a native "True" under a quantifier is bounded evidence only, a native "False" is a witness).
"""
import ast, copy, importlib, io, json, logging, os, sys, tempfile, types, contextlib, traceback

NULL_LOGGER = logging.getLogger("verif-null")
NULL_LOGGER.addHandler(logging.NullHandler())
NULL_LOGGER.propagate = False
NULL_LOGGER.setLevel(logging.CRITICAL + 1)


class NS:
    """abstract collaborator: only declared attributes exist (an undeclared read fails loudly)"""
    logger = NULL_LOGGER

    def __repr__(self):
        return "NS(" + ", ".join(f"{k}={v!r}" for k, v in self.__dict__.items()) + ")"


class Rec(list):
    """synthetic record: behaves like a CSV line (a list) and carries ghost attributes"""
    def __hash__(self):
        return id(self)

    def __eq__(self, o):
        return self is o


class Opaque:
    def __init__(self, n):
        self.n = n

    def __repr__(self):
        return f"<opaque {self.n}>"

    def __eq__(self, o):
        return isinstance(o, Opaque) and o.n == self.n

    def __hash__(self):
        return hash(("opaque", self.n))


def split_top(s):
    out, depth, cur = [], 0, ""
    for ch in s:
        depth += ch == "["
        depth -= ch == "]"
        if ch == "," and depth == 0:
            out.append(cur.strip())
            cur = ""
        else:
            cur += ch
    if cur.strip():
        out.append(cur.strip())
    return out


def decode(v):
    if isinstance(v, dict):
        if "real" in v:
            s = v["real"]
            if "/" in s:
                a, b = s.split("/")
                return float(a) / float(b)
            return float(s.rstrip("?"))
        if "opaque" in v:
            return Opaque(v["opaque"])
        if "new" in v:
            # an object of a named class of the tree under test, built by its own (argument-free) constructor
            # (a subclass whose instances survive the harness's pre-state deepcopy by identity, so old(xs) and xs can be compared element by element)
            base = SPEC_NAMES[v["new"]]
            return type(base.__name__, (base,), {"__deepcopy__": lambda self, memo: self})()
        if "?" in v:
            return None
    if isinstance(v, list):
        return [decode(x) for x in v]
    return v


SPEC_NAMES = {}
DEFAULTS = {"int": 0, "nat": 0, "bool": False, "str": "", "real": 0.0, "none": None}
_OPQ = [0]


class Builder:
    def __init__(self, job):
        self.job = job
        self.types = job["types"]
        self.class_modules = job.get("class_modules", {})
        self.objlists = []

    def cls(self, name):
        mod = self.class_modules.get(name)
        if mod is None:
            raise RuntimeError(f"no module for class {name}")
        return getattr(importlib.import_module(mod), name)

    def make(self, typ, name, values, depth=0):
        typ = typ.strip()
        if typ in DEFAULTS:
            return decode(values.get(name, DEFAULTS[typ]))
        if typ.startswith("const:"):
            return typ[6:]
        if typ.startswith("list["):
            return list(decode(values.get(name, [])))
        if typ.startswith("alist["):
            n_ = int(values.get(name + "!len", 0) or 0)
            vs_ = values.get(name + "[*].v", [])
            return [decode(x) for x in vs_[:n_]]
        if typ.startswith("fixed[") or typ.startswith("tuple["):
            inner = split_top(typ[typ.index("[") + 1:-1])
            items = [self.make(t, f"{name}.{i}", values) for i, t in enumerate(inner)]
            return tuple(items) if typ.startswith("tuple[") else items
        if typ.startswith("objlist[") or typ.startswith("pairlist["):
            cn = typ[typ.index("[") + 1:-1]
            n = values.get(name + "!len", 0) or 0
            n = max(0, min(int(n), 8))
            out = []
            for i in range(n):
                if cn in self.class_modules:
                    o = self.make(f"obj:{cn}", f"{name}.{i}", {}, depth + 1)
                else:
                    o = Rec()
                memo = None
                for k, lst in values.items():
                    if k.startswith(name + "[*]."):
                        f = k[len(name) + 4:]
                        v = decode(lst[i]) if isinstance(lst, list) and i < len(lst) else None
                        if f == "__memo__":
                            memo = v
                        elif "." in f:
                            tgt = o
                            parts = f.split(".")
                            try:
                                for a in parts[:-1]:
                                    tgt = tgt.__dict__[a] if a in getattr(tgt, "__dict__", {}) else getattr(tgt, a)
                                self.setattr_raw(tgt, parts[-1], v)
                            except Exception:
                                pass
                        else:
                            self.setattr_raw(o, f, v)
                if isinstance(o, Rec):
                    gl = int(getattr(o, "g_len", 0) or 0)
                    o.extend(([f"rec{i}"] + ["x"] * (gl - 1)) if gl > 0 else [])
                    o.g_idx = i
                out.append([o, memo] if typ.startswith("pairlist[") else o)
            self.objlists.append((cn, out, typ.startswith("pairlist[")))
            return out
        if typ.startswith("rec["):
            d = {}
            for part in split_top(typ[4:-1]):
                k, t = part.split(":", 1)
                d[k.strip()] = self.make(t.strip(), f"{name}.{k.strip()}", values)
            return d
        if typ == "obj":
            return NS()
        if typ.startswith("obj:"):
            c = self.cls(typ[4:])
            if c.__name__ in self.job.get("construct", []):
                o = c()            # classes whose no-argument constructor is part of the object's meaning (Error)
            else:
                o = c.__new__(c)
            if isinstance(getattr(c, "logger", None), property):
                o.__dict__["_logger"] = NULL_LOGGER
            for k in c.__mro__:
                for attr, dv in self.job.get("native_defaults", {}).get(k.__name__, {}).items():
                    o.__dict__.setdefault(attr, copy.deepcopy(dv))
            try:
                if not isinstance(getattr(c, "logger", None), property):
                    o.logger = NULL_LOGGER
            except Exception:
                pass
            # object-typed fields declared per class (collaborators that only dropped calls touch, e.g. matcher.csvpath.logger)
            if depth < 3:
                for k in c.__mro__:
                    for attr, t in self.job.get("class_fields", {}).get(k.__name__, {}).items():
                        if attr in o.__dict__ and not (c.__name__ in self.job.get("construct", []) and f"{name}.{attr}" in values):
                            continue
                        if True:
                            try:
                                self.setattr_raw(o, attr, self.make(t, f"{name}.{attr}", values, depth + 1))
                            except Exception:
                                pass
            return o
        if typ.startswith("dict["):
            return dict(decode(values.get(name, {})) or {})
        if typ == "exception":
            _OPQ[0] += 1
            return Exception(f"boom{_OPQ[0]}")
        if typ == "opaque" and name not in values:
            _OPQ[0] += 1
            return Opaque(1000 + _OPQ[0])
        # optint, val, ... : whatever the model says, None by default
        return decode(values.get(name))

    def build(self, params, values, alias):
        env = {}
        self.objlists = []
        for p in params:
            typ = self.types.get(p)
            if typ is None:
                continue
            env[p] = self.make(typ, p, values)
        # nested access paths, shortest first
        for path in sorted((p for p in self.types if "." in p and "[" not in p), key=lambda s: s.count(".")):
            root, *rest = path.split(".")
            if root not in env:
                continue
            if rest[-1].isdigit():
                continue      # elements of fixed[...] are built with their container
            o = env[root]
            ok = True
            for a in rest[:-1]:
                try:
                    if a.isdigit():
                        o = o[int(a)]
                    elif isinstance(o, dict):
                        o = o[a]
                    else:
                        o = o.__dict__[a] if a in getattr(o, "__dict__", {}) else getattr(o, a)
                except (AttributeError, KeyError, IndexError, TypeError):
                    ok = False
                    break
            if not ok:
                continue
            v = self.make(self.types[path], path, values)
            if isinstance(o, dict):
                o[rest[-1]] = v
            else:
                self.setattr_raw(o, rest[-1], v)
        # back references of list elements (e.g. every expression's .matcher is the matcher under test)
        for key, tgt in self.job.get("backrefs", {}).items():
            cn, attr = key.split(".")
            for lcn, items, pair in self.objlists:
                try:
                    target = eval(tgt, {}, env)
                except Exception:
                    continue
                for it in items:
                    o = it[0] if pair else it
                    if any(k.__name__ == cn for k in type(o).__mro__):
                        self.setattr_raw(o, attr, target)
        for a, b in alias or []:
            vb = eval(b, {}, env)
            tgt = ast.parse(a, mode="eval").body
            if isinstance(tgt, ast.Subscript):
                base = eval(compile(ast.Expression(tgt.value), "<a>", "eval"), {}, env)
                idx = eval(compile(ast.Expression(tgt.slice), "<a>", "eval"), {}, env)
                base[idx] = vb
            elif isinstance(tgt, ast.Attribute):
                base = eval(compile(ast.Expression(tgt.value), "<a>", "eval"), {}, env)
                self.setattr_raw(base, tgt.attr, vb)
            else:
                env[tgt.id] = vb
        return env

    @staticmethod
    def setattr_raw(o, name, v):
        """set the attribute, going around read-only / validating properties by writing the backing field"""
        c = type(o)
        if isinstance(o, Rec):
            object.__setattr__(o, name, v)
            return
        prop = getattr(c, name, None)
        if isinstance(prop, property):
            try:
                setattr(o, name, v)
                return
            except Exception:
                o.__dict__["_" + name] = v
                return
        o.__dict__[name] = v


# ---------------------------------------------------------------------------- spec evaluation
class MacroExpander(ast.NodeTransformer):
    def __init__(self, macros):
        self.macros = macros

    def visit_Call(self, node):
        self.generic_visit(node)
        if isinstance(node.func, ast.Name) and node.func.id in self.macros:
            params, body = self.macros[node.func.id]
            tree = ast.parse(body, mode="eval").body
            tree = self.visit(tree)
            sub = dict(zip(params, node.args))

            class Sub(ast.NodeTransformer):
                def visit_Name(s, n):
                    if n.id in sub:
                        return copy.deepcopy(sub[n.id])
                    return n
            return Sub().visit(tree)
        return node


class ImpliesRewriter(ast.NodeTransformer):
    """implies(a, b) -> (not a) or b   so that b is only evaluated when a holds (as the SMT reading intends)"""
    def visit_Call(self, node):
        self.generic_visit(node)
        if isinstance(node.func, ast.Name) and node.func.id == "implies" and len(node.args) == 2:
            return ast.BoolOp(op=ast.Or(), values=[ast.UnaryOp(op=ast.Not(), operand=node.args[0]),
                                                   ast.Call(func=ast.Name(id="bool", ctx=ast.Load()), args=[node.args[1]], keywords=[])])
        return node


class OldRewriter(ast.NodeTransformer):
    """old(e)  ->  e with every free root name N renamed to __pre_N (bound lambda params excepted)"""
    def __init__(self, roots):
        self.roots = roots
        self.in_old = 0
        self.bound = []

    def visit_Lambda(self, node):
        self.bound.append({a.arg for a in node.args.args})
        node.body = self.visit(node.body)
        self.bound.pop()
        return node

    def visit_Call(self, node):
        if isinstance(node.func, ast.Name) and node.func.id == "old":
            self.in_old += 1
            inner = self.visit(node.args[0])
            self.in_old -= 1
            return inner
        if isinstance(node.func, ast.Name) and node.func.id == "unchanged":
            # unchanged(a, b) -> (a == old(a)) and ...
            parts = []
            for a in node.args:
                self.in_old += 1
                o = self.visit(copy.deepcopy(a))
                self.in_old -= 1
                parts.append(ast.Compare(left=self.visit(a), ops=[ast.Eq()], comparators=[o]))
            return ast.BoolOp(op=ast.And(), values=parts + [ast.Constant(True)])
        return self.generic_visit(node)

    def visit_Name(self, node):
        if self.in_old and node.id in self.roots and not any(node.id in b for b in self.bound):
            return ast.copy_location(ast.Name(id="__pre_" + node.id, ctx=ast.Load()), node)
        return node


SPEC_FUNS = {}


def _deep_get(o, dotted):
    for a in dotted.split("."):
        o = getattr(o, a)
    return o


def spec_env(window):
    lo, hi = window

    def ufun(name, *args):
        return SPEC_FUNS[name](*args)

    def forall_int(*a):
        f = a[-1]
        rng = range(int(a[0]), int(a[1])) if len(a) == 3 else range(lo, hi)
        n = f.__code__.co_argcount
        if n == 1:
            return all(f(x) for x in rng)
        return all(f(x, y) for x in rng for y in rng)

    def exists_int(*a):
        f = a[-1]
        rng = range(int(a[0]), int(a[1])) if len(a) == 3 else range(lo, hi)
        return any(f(x) for x in rng)

    def tag(v, t):
        return {"none": v is None, "bool": isinstance(v, bool), "int": isinstance(v, int) and not isinstance(v, bool),
                "real": isinstance(v, float), "str": isinstance(v, str), "opaque": isinstance(v, Opaque)}[t]
    return {"forall_int": forall_int, "exists_int": exists_int, "implies": lambda a, b: (not a) or bool(b),
            "iff": lambda a, b: bool(a) == bool(b), "tag": tag, "truthy": bool, "str_of": lambda v: f"{v}",
            "strip": lambda s: s.strip(), "seq_contains": lambda c, x: x in c, "same": lambda a, b: a is b or a == b,
            "is_fresh": lambda v: True, "strictly_increasing": lambda xs: all(a < b for a, b in zip(xs, xs[1:])),
            "iota": lambda k: list(range(max(0, k))), "split_dot": lambda s_: s_.split("."), "int_of": lambda s_: int(s_), "float_of": lambda s_: float(s_),
            "fs_exists": os.path.exists, "fs_isfile": os.path.isfile, "fs_isdir": os.path.isdir, "path_join": os.path.join,
            "path_basename": os.path.basename, "path_dirname": os.path.dirname,
            "prefix_sum": lambda xs, f, k: sum(_deep_get(x, f) for x in xs[:max(0, k)]), "ufun_bool": ufun, "ufun_val": ufun, "ufun_int": ufun, "ufun_str": ufun}


def compile_clause(text, macros, roots):
    tree = ast.parse(text.strip(), mode="eval")
    tree.body = MacroExpander(macros).visit(tree.body)
    tree.body = ImpliesRewriter().visit(tree.body)
    tree.body = OldRewriter(roots).visit(tree.body)
    ast.fix_missing_locations(tree)
    return compile(tree, "<clause>", "eval")


# ---------------------------------------------------------------------------- running
def run_case(job, case, builder, unit_cls, fn_name, params, kwonly):
    values = case.get("values", {})
    env = builder.build(params + kwonly, values, case.get("alias"))
    macros = {k: tuple(v) for k, v in job.get("macros", {}).items()}
    roots = set(env.keys())
    senv = spec_env(tuple(case.get("window", job.get("int_window", [-2, 14]))))
    senv.update(SPEC_NAMES)
    out = {"id": case.get("id"), "clauses": {}}
    # precondition
    try:
        pre_ok = all(bool(eval(compile_clause(r, macros, roots), {**senv, **env})) for r in job.get("requires", []))
    except Exception as e:
        out.update(pre_ok=False, pre_error=f"{type(e).__name__}: {e}")
        return out
    out["pre_ok"] = pre_ok
    if not pre_ok:
        return out
    pre = copy.deepcopy(env)
    args = [env[p] for p in params if p != "self" and p in env]
    kwargs = {k: env[k] for k in kwonly if k in env}
    result, raised = None, None
    try:
        with contextlib.redirect_stdout(io.StringIO()):
            if "self" in env and isinstance(getattr(type(env["self"]), fn_name, None), property):
                result = getattr(env["self"], fn_name)
            elif "self" in env:
                result = getattr(env["self"], fn_name)(*args, **kwargs)
            else:
                f = getattr(unit_cls, fn_name)
                result = f(*args, **kwargs)
    except Exception as e:   # the function under test raised
        raised = e
    import inspect
    if raised is None and inspect.isgenerator(result):
        items = []
        try:
            with contextlib.redirect_stdout(io.StringIO()):
                for it in result:
                    items.append(it)
        except Exception as e:
            raised = e
        result = items

    def to_indices(lst):
        rl = job.get("record_list")
        recs = eval(rl, {}, env) if rl else []
        outl = []
        for it in lst or []:
            k = next((j for j, r in enumerate(recs) if r is it), None)
            if k is None and isinstance(it, list) and it and isinstance(it[0], str) and it[0].startswith("rec"):
                # an equal copy of a record (collect() copies lines): recognised by its first cell
                k = next((j for j, r in enumerate(recs) if list(r) == list(it)), None)
            outl.append(k if k is not None else -1)
        return outl
    if job.get("result_records") and isinstance(result, list):
        result = to_indices(result)
    if job.get("yield_to"):
        tgt = ast.parse(job["yield_to"], mode="eval").body
        base = eval(compile(ast.Expression(tgt.value), "<y>", "eval"), {}, env)
        builder.setattr_raw(base, tgt.attr, to_indices(result if isinstance(result, list) else []))
    for pth in job.get("record_lists", []):
        try:
            tgt = ast.parse(pth, mode="eval").body
            base = eval(compile(ast.Expression(tgt.value), "<y>", "eval"), {}, env)
            cur = eval(pth, {}, env)
            if cur is not None:
                builder.setattr_raw(base, tgt.attr, to_indices(cur))
        except Exception:
            pass
    out["outcome"] = "normal" if raised is None else f"raised:{type(raised).__name__}"
    if raised is not None:
        out["exception"] = f"{type(raised).__name__}: {raised}"[:300]
        out["mro"] = [c.__name__ for c in type(raised).__mro__]
    out["result"] = repr(result)[:300]
    loc = dict(env)
    loc["result"] = result
    loc["raised"] = type(raised).__name__ if raised is not None else None
    for k, v in pre.items():
        loc["__pre_" + k] = v
    clauses = job.get("clauses", {}) if raised is None else job.get("clauses_exc", {})
    for name, text in clauses.items():
        try:
            out["clauses"][name] = bool(eval(compile_clause(text, macros, roots), {**senv, **loc}))
        except Exception as e:
            out["clauses"][name] = f"error: {type(e).__name__}: {e}"[:300]
    # raises clauses: evaluated over the pre-state
    rz = {}
    for exc, spec in job.get("raises", {}).items():
        when = spec["when"] if isinstance(spec, dict) else spec
        try:
            ploc = dict(pre)
            for k, v in pre.items():
                ploc["__pre_" + k] = v
            rz[exc] = bool(eval(compile_clause(when, macros, roots), {**senv, **ploc}))
        except Exception as e:
            rz[exc] = f"error: {type(e).__name__}: {e}"[:200]
    out["raises_when"] = rz
    post = {}
    for path in job.get("observe", []):
        try:
            post[path] = repr(eval(path, {}, env))[:200]
        except Exception as e:
            post[path] = f"<{type(e).__name__}>"
    out["post"] = post
    return out


def main():
    job = json.load(sys.stdin)
    repo = job.get("repo", "/repo")
    sys.path.insert(0, repo)
    workdir = tempfile.mkdtemp(prefix="verif-native-")
    os.chdir(workdir)
    answer = {"cases": []}
    try:
        file, qual = job["target"].split("::")
        modname = file[:-3].replace("/", ".")
        mod = importlib.import_module(modname)
        assert os.path.realpath(mod.__file__).startswith(os.path.realpath(repo)), f"imported {mod.__file__}, not the tree under test"
        if "." in qual:
            cn, fn = qual.split(".", 1)
            unit_cls = getattr(mod, cn)
        else:
            cn, fn, unit_cls = None, qual, mod
        for dotted, src in job.get("patches", {}).items():
            pm, pc, pa = dotted.rsplit(".", 2)
            ns = {}
            exec(src, ns)
            setattr(getattr(importlib.import_module(pm), pc), pa, ns["patch"])
        for nm, src in job.get("spec_funs", {}).items():
            ns = {"importlib": importlib}
            exec(src, ns)
            SPEC_FUNS[nm] = ns["fun"]
        for nm, dotted in job.get("spec_names", {}).items():
            pm, pc = dotted.rsplit(".", 1)
            SPEC_NAMES[nm] = getattr(importlib.import_module(pm), pc)
        builder = Builder(job)
        if cn:
            builder.class_modules.setdefault(cn, modname)
        params = job["params"]
        kwonly = job.get("kwonly", [])
        for case in job["cases"]:
            try:
                answer["cases"].append(run_case(job, case, builder, unit_cls, fn, params, kwonly))
            except Exception as e:
                answer["cases"].append({"id": case.get("id"), "harness_error": f"{type(e).__name__}: {e}", "trace": traceback.format_exc()[-800:]})
    except Exception as e:
        answer["error"] = f"{type(e).__name__}: {e}"
        answer["trace"] = traceback.format_exc()[-1500:]
    finally:
        os.chdir("/")
        import shutil
        shutil.rmtree(workdir, ignore_errors=True)
    json.dump(answer, sys.stdout)


if __name__ == "__main__":
    main()
