#!/venv/bin/python
"""Bounded complement for C14 over the property's own finite space: every qualifier subset of an assignment '@x.<qualifiers> = #y' run as a real
csvpath over a 3-line file (oracle = the determinate part of docs/assignment.md / qualifiers.md, clauses D1..D7 of contracts/C14.py, with the same
don't-cares: the vote when latch is present and another qualifier blocks; increase/decrease with a falsy non-None value; a write of the value the
variable already holds).

 scope  256 qualifier subsets of {onmatch, latch, onchange, increase, decrease, notnone, asbool, nocontrib} x sequences of 3 values of y drawn from
        {absent, 1, 2, 3} (plus 'true'/'false' when neither increase nor decrease is set) x {rest of line matches, does not match}
        (quick: every subset with a seeded 1-in-12 slice of the value sequences; thorough: all)
 clause per line: the variable is written with y exactly when the documents say so and keeps its value otherwise; the line is returned iff the
        documented vote is positive (checked where the documents determine it and the rest of the line matches)
"""
import itertools, os, sys
sys.path.insert(0, os.path.dirname(os.path.abspath(__file__)))
from blib import Bounded, run_guarded

QUALS = ["onmatch", "latch", "onchange", "increase", "decrease", "notnone", "asbool", "nocontrib"]
DC = "dont-care"


def asbool(v):
    if v is None:
        return False
    s = f"{v}".strip().lower()
    if s == "false":
        return False
    if s == "true":
        return True
    return bool(v)


def step(q, cur, y, rest):
    """-> (write: value | None (no write), vote: bool | DC, in_scope)"""
    OM, LATCH, ONCH, INC, DEC, NN, AB, NC = (x in q for x in QUALS)
    if OM and not rest:
        return None, NC, True
    dc_value = (INC or DEC) and y is not None and not y
    if dc_value:
        return None, DC, False
    blocked = (NN and y is None) or (INC and (y is None or (cur is not None and cur >= y))) or (DEC and (y is None or (cur is not None and cur <= y))) or (ONCH and cur == y)
    if blocked:
        return None, (DC if LATCH else (True if NC else False)), True
    positive = True if NC else (asbool(y) if AB else True)
    if LATCH and cur is not None:
        return None, positive, True
    return ("WRITE", y), positive, True


def main():
    b = Bounded()
    from csvpath import CsvPath
    rnd = b.rnd
    subsets = [tuple(c) for k in range(len(QUALS) + 1) for c in itertools.combinations(QUALS, k)]
    items = []
    for q in subsets:
        vals = [None, "1", "2", "3"] + ([] if ("increase" in q or "decrease" in q) else ["true", "false"])
        seqs = list(itertools.product(vals, repeat=3))
        if not b.thorough():
            off = rnd.randrange(12)
            seqs = seqs[off::12]
        for ys in seqs:
            for rest in (True, False):
                items.append((q, ys, rest))
    b.exhaustive = b.thorough()

    def work(b, item):
        with b.fresh_dir():
            work1(b, item)

    def work1(b, item):
        q, ys, rest = item
        key = {"qualifiers": list(q), "values": list(ys), "rest_matches": rest}
        b.case(key)
        r = "1" if rest else "0"
        rows = [[r] if y is None else [r, y] for y in ys]
        fn = b.write_csv("f.csv", rows)
        name = ".".join(["x"] + list(q))
        try:
            with b.quiet():
                p = CsvPath()
                p.parse(f'${fn}[*][ push("before", @x) @{name} = #1 #0 == "1" ]')
                got = [list(x) for x in p.collect()]
        except Exception as e:
            b.fail("program_runs", key, f"{type(e).__name__}: {str(e)[:160]}")
            return
        if p.errors:
            return      # comparison errors between incomparable values are outside the documented table (C05's subject)
        before = list(p.variables.get("before", []) or [])
        after = before[1:] + [p.variables.get("x")]
        cur = None
        returned = [row for row in got]
        want_returned, determinate = [], True
        for i, y in enumerate(ys):
            w, vote, scope = step(q, cur, y, rest)
            if not scope:
                return
            observed = after[i] if i < len(after) else None
            if w is None:
                if observed != cur:
                    b.fail("no_write_when_the_documents_say_blocked", {**key, "line": i, "current": cur, "y": y}, "variable after the line", observed, cur)
                    return
            else:
                if observed != y:
                    b.fail("writes_y_when_nothing_blocks", {**key, "line": i, "current": cur, "y": y}, "variable after the line", observed, y)
                    return
                cur = y
            if vote == DC:
                determinate = False
            elif vote and rest:
                want_returned.append(rows[i])
        if determinate and returned != want_returned:
            b.fail("vote_follows_the_documented_table", key, "returned lines", returned, want_returned)

    b.fan_out(work, items)
    b.sample({"example": {"qualifiers": ["latch", "notnone"], "values": [None, "2", "3"], "rest_matches": True}})
    b.finish()


run_guarded(main)
