#!/venv/bin/python
"""Bounded check for C08: a csvpath gives the same results alone, in a serial run and breadth-first (the property is a relation between
three schedules of the real code; no model).

 scope  groups of 1..3 csvpaths drawn from 9 member csvpaths without cross-path signals, references or line-rewriting functions
        (quick: all groups of size 1-2 and every ordering of 6 fixed triples; thorough: all ordered groups of size <=3),
        x 2 files x serial {collect_paths, fast_forward_paths, next_paths} x breadth-first {collect_by_line, fast_forward_by_line, next_by_line};
        breadth-first caller lines: union, and intersection with if_all_agree.
"""
import copy, itertools, os, sys
sys.path.insert(0, os.path.dirname(os.path.abspath(__file__)))
from blib import Bounded, run_guarded
import mlib

MEMBERS = {
    "evens": '~ id: evens ~ $[*][ mod(line_number(), 2) == 0 @e = count() ]',
    "xs": '~ id: xs ~ $[1*][ #b == "x" push("seen", #a) ]',
    "window": '~ id: window ~ $[1-3][ yes() @last_seen = #a ]',
    "stopper": '~ id: stopper ~ $[*][ #a == "3" -> stop() tally(#b) ]',
    "skipper": '~ id: skipper ~ $[*][ #a == "2" -> skip() @n = count_lines() ]',
    "failer": '~ id: failer ~ $[*][ #a == "4" -> fail() print("saw $.headers.a") ]',
    "all": '~ id: all ~ $[*][ yes() ]',
    "none": '~ id: none ~ $[*][ no() ]',
    "inverse": '~ id: inverse return-mode: no-matches ~ $[*][ #b == "x" ]',
}
FILES = {"f1": [["a", "b"], ["1", "x"], ["2", "y"], ["3", "x"], ["4", "z"], ["5", "x"]],
         "f2": [["a", "b"], ["1", "x"], [], ["3", "y"], ["4", "x"]]}


def member_state(p, printouts):
    return {"variables": mlib.jsonable(p.variables), "is_valid": p.is_valid, "scan_count": p.scan_count, "match_count": p.match_count,
            "stopped": p.stopped, "printouts": list(printouts)}


def main():
    b = Bounded()
    from csvpath import CsvPath
    from csvpath.util.printer import TestPrinter
    names = list(MEMBERS)
    groups = [(n,) for n in names] + list(itertools.permutations(names, 2))
    triples = [("evens", "xs", "stopper"), ("window", "all", "failer"), ("skipper", "none", "xs"), ("stopper", "window", "evens"),
               ("all", "stopper", "skipper"), ("failer", "xs", "window"), ("inverse", "stopper", "all")]
    if b.thorough():
        groups += list(itertools.permutations(names, 3))
    else:
        for t in triples:
            groups += list(itertools.permutations(t, 3))
        b.exhaustive = False
    items = [(g, f) for g in groups for f in FILES]

    def work(b, item):
        with b.fresh_dir():
            work1(b, item)

    def work1(b, item):
        group, fkey = item
        key = f"group={'+'.join(group)} file={fkey}"
        b.case(key)
        fn = os.path.abspath(mlib.write_rows(f"{fkey}.csv", FILES[fkey]))
        # ---- alone
        alone, alone_lines = {}, {}
        for m in group:
            src = MEMBERS[m]
            k = src.index("$")
            tp = TestPrinter()
            with b.quiet():
                p = CsvPath(print_default=False)
                p.add_printer(tp)
                lines = p.parse(src[:k] + "$" + fn + src[k + 1:]).collect()
            alone[m] = member_state(p, tp.lines)
            alone_lines[m] = [list(x) for x in lines]
        # ---- the six run methods
        for method in mlib.METHODS:
            for agree in ([False, True] if method in ("collect_by_line", "next_by_line") else [False]):
                with b.quiet():
                    paths = mlib.new_paths()
                    paths.file_manager.add_named_file(name=fkey, path=fn)
                    paths.paths_manager.add_named_paths(name="grp", paths=[MEMBERS[m] for m in group])
                    kw = {"if_all_agree": True} if agree else {}
                    out, exc = mlib.run(paths, method, "grp", fkey, **kw)
                mk = f"{key} method={method}{' if_all_agree' if agree else ''}"
                if exc is not None:
                    b.fail("run_completes", mk, f"{type(exc).__name__}: {exc}")
                    continue
                results = paths.results_manager.get_named_results("grp")
                for m, r in zip(group, results):
                    st = member_state(r.csvpath, r.get_printout_by_name("default"))
                    if st != alone[m]:
                        diff = {k: (st[k], alone[m][k]) for k in st if st[k] != alone[m][k]}
                        b.fail("member_same_as_alone", f"{mk} member={m}", "state differs from the standalone run (observed, alone)", diff)
                    if method.startswith("collect"):
                        dp = os.path.join(r.run_dir, r.identity_or_index, "data.csv")
                        got = mlib.read_csv(dp) if os.path.exists(dp) else []
                        if got != alone_lines[m]:
                            b.fail("member_lines_same_as_alone", f"{mk} member={m}", "collected lines differ from the standalone run", got, alone_lines[m])
                if method in ("collect_by_line", "next_by_line") and out is not None:
                    # per line: union (or with if_all_agree the intersection) of the members' decisions
                    recs = [r for r in FILES[fkey]]
                    want = []
                    for rec in recs:
                        votes = [rec in alone_lines[m] for m in group]
                        keep = all(votes) if agree else any(votes)
                        if keep and rec:
                            want.append(rec)
                    got = [list(x) for x in out]
                    stops = any(m in ("stopper", "window") for m in group)
                    if agree and stops:
                        continue     # a member that has stopped casts no vote on later lines: the statement does not say how that counts
                    if got != want:
                        b.fail("caller_lines_are_union_or_intersection", mk, "lines returned to the caller", got, want)

    b.fan_out(work, items)
    b.sample({"example": "group=evens+xs+stopper file=f1: alone vs collect_paths ... next_by_line (union; intersection with if_all_agree)"})
    b.finish()


run_guarded(main)
