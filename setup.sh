#!/bin/bash
# Offline setup: directories and tool presence only. Nothing is fetched or built.
set -e
cd "$(dirname "$0")"
mkdir -p evidence replays
python3-vt -c "import z3; assert z3.get_version_string().startswith('4.') or z3.get_version_string().startswith('5.'), z3.get_version_string()"
/venv/bin/python -c "import sys; assert sys.version_info[:2] >= (3, 10)"
test -x /usr/bin/z3 || echo "note: /usr/bin/z3 missing (portfolio reduced)"
test -x /usr/bin/cvc5 || echo "note: /usr/bin/cvc5 missing (portfolio reduced)"
echo "setup ok"
