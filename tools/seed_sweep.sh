#!/bin/bash
# developer tool: applies every kept seeded change to /repo in turn (git apply ... / git checkout -- .), runs the property's quick check,
# and records exit code and the failed obligations in /verif/seeded/<ID>-<x>/check_result.json.  Never commits anything to /repo.
cd /verif
for d in /verif/seeded/C*-[a-z]; do
  n=$(basename $d); ID=${n%-*}
  if [ -n "$1" ] && [ "$1" != "$ID" ] && [ "$1" != "$n" ]; then continue; fi
  git -C /repo diff --quiet || { echo "/repo working tree is not clean"; exit 2; }
  git -C /repo apply $d/patch.diff || { echo "$n: patch does not apply"; continue; }
  out=$(./check $ID 2>&1 | grep -v "^WARNING"); rc=$(echo "$out" | grep -o "exit=[0-9]*" | tail -1 | cut -d= -f2)
  git -C /repo checkout -- .
  python3 - "$d" "$rc" <<PY
import json, sys, re
d, rc = sys.argv[1], sys.argv[2]
out = """$(echo "$out" | sed 's/\\/\\\\/g; s/"""/"/g')"""
viol = re.findall(r"VIOLATION property=\S+ replay=\S*/([^/\s]+)\.json( no-failing-input-found)?", out)
notes = re.findall(r"NOTE property=\S+ (\S+) is (outside-subset|missing)", out)
res = {"check_exit": int(rc) if rc.isdigit() else None, "failed_obligations": [v[0] for v in viol],
       "with_failing_input_replayed": [v[0] for v in viol if not v[1]], "functions_no_longer_proved": [n[0] for n in notes]}
json.dump(res, open(d + "/check_result.json", "w"), indent=1)
print(d.split("/")[-1], "exit", rc, len(viol), "violations", [v[0] for v in viol][:4])
PY
done
