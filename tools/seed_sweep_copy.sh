#!/bin/bash
# developer tool: like seed_sweep.sh but on scratch exports of /repo HEAD (outside /repo and /verif), so several properties can be swept in parallel
# and /repo stays untouched:  seed_sweep_copy.sh C04-c C04-d   (seeds of one property run one after the other; start one process per property)
mkdir -p /tmp/wt
cd /verif
for n in "$@"; do
  d=/verif/seeded/$n; ID=${n%-*}
  W=$(mktemp -d /tmp/wt/sw_${n}_XXXX)
  git -C /repo archive HEAD | tar -x -C $W
  if ! (cd $W && patch -p1 -s < $d/patch.diff); then echo "$n: patch does not apply"; rm -rf $W; continue; fi
  out=$(VERIF_REPO=$W ./check $ID 2>&1 | grep -v "^WARNING"); rc=$(echo "$out" | grep -o "exit=[0-9]*" | tail -1 | cut -d= -f2)
  rm -rf $W
  echo "$out" > /tmp/wt/sw_$n.out
  python3 - "$d" "$rc" /tmp/wt/sw_$n.out <<'PY'
import json, sys, re
d, rc, f = sys.argv[1], sys.argv[2], sys.argv[3]
out = open(f).read()
viol = re.findall(r"VIOLATION property=\S+ replay=\S*/([^/\s]+)\.json( no-failing-input-found)?", out)
notes = re.findall(r"NOTE property=\S+ (\S+) is (outside-subset|missing)", out)
res = {"check_exit": int(rc) if rc.isdigit() else None, "failed_obligations": [v[0] for v in viol],
       "with_failing_input_replayed": [v[0] for v in viol if not v[1]], "functions_no_longer_proved": [n[0] for n in notes]}
json.dump(res, open(d + "/check_result.json", "w"), indent=1)
print(d.split("/")[-1], "exit", rc, len(viol), "violations", [v[0] for v in viol][:5], "notes", notes[:3])
PY
done
