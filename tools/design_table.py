#!/usr/bin/env python3
"""developer tool: prints the 'as built' markdown tables of DESIGN.md from evidence/*.json, seeded/*/check_result.json and known_findings.json"""
import glob, json, os
ROOT = os.path.dirname(os.path.dirname(os.path.abspath(__file__)))


def main():
    print("| id | functions under contract ([P], proved on every run) | obligations discharged | solver s | interface contracts assumed [A] | bounded stand-in (never counted as proved) |")
    print("|----|------|------|------|------|------|")
    for f in sorted(glob.glob(os.path.join(ROOT, "evidence", "C*.json"))):
        d = json.load(open(f))
        c = d["coverage"]
        fns = [x["function"] for x in c.get("functions_under_contract", []) if x.get("status") == "under contract"]
        short = ", ".join(f"`{x}`" for x in fns[:60])
        ia = [a for a in d.get("assumptions", []) if a.startswith("[A] interface contract")]
        b = c.get("bounded", [])
        bs = "; ".join(f"{x['clause']}: {x.get('enumerated', 0)}+{x.get('random', 0)} cases, {x.get('seconds', 0)} s" for x in b) or "none"
        print(f"| {d['property_id']} | {short} | {c.get('discharged')}/{c.get('obligations')} | {round(c.get('solver_seconds', {}).get('total', 0) if isinstance(c.get('solver_seconds'), dict) else (c.get('solver_seconds') or 0), 1)} | {len(ia)} | {bs} |")
    print()
    print("| seeded change | what it changes | exit | failed obligations (those in **bold** were replayed with a failing input on the real code) |")
    print("|----|------|------|------|")
    for dname in sorted(glob.glob(os.path.join(ROOT, "seeded", "C*-[a-z]"))):
        n = os.path.basename(dname)
        meta = json.load(open(os.path.join(dname, "meta.json")))
        rp = os.path.join(dname, "check_result.json")
        res = json.load(open(rp)) if os.path.exists(rp) else {}
        rep = set(res.get("with_failing_input_replayed", []))
        obs = ", ".join((f"**{o}**" if o in rep else o) for o in res.get("failed_obligations", [])[:6])
        more = len(res.get("failed_obligations", [])) - 6
        if more > 0:
            obs += f", … (+{more})"
        fc = ", ".join(meta.get("functions_changed") or [])[:110]
        print(f"| {n} | {fc} | {res.get('check_exit')} | {obs or '—'} |")


main()
