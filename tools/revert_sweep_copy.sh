#!/bin/bash
# developer tool: like revert_sweep.sh, but reverts each fix in a scratch worktree outside /repo and /verif and points the check at it (VERIF_REPO),
# so /repo stays untouched.  usage: revert_sweep_copy.sh [PROPERTY COMMIT]...   (default: every fixed: entry of known_findings.json)
mkdir -p /tmp/wt
cd /verif
if [ $# -gt 0 ]; then printf "%s %s\n" "$@" > /tmp/wt/revert_list.txt; else
python3 - <<'PY' > /tmp/wt/revert_list.txt
import json, re
d = json.load(open('/verif/known_findings.json'))
for e in d['fixed']:
    m = re.match(r"fixed: property=(C\d+) ([0-9a-f]{7})", e)
    if m: print(m.group(1), m.group(2))
PY
fi
while read pid c; do
  W=/tmp/wt/rv_$c
  git -C /repo worktree remove --force $W >/dev/null 2>&1
  git -C /repo worktree add --detach $W HEAD >/dev/null 2>&1
  if ! git -C $W revert --no-commit $c >/dev/null 2>&1; then echo "$pid $c: revert does not apply cleanly"; git -C /repo worktree remove --force $W; continue; fi
  out=$(VERIF_REPO=$W ./check $pid 2>&1 | grep -v "^WARNING")
  rc=$(echo "$out" | grep -o "exit=[0-9]*" | tail -1 | cut -d= -f2)
  first=$(echo "$out" | grep "^VIOLATION" | head -3 | sed 's#.*/replays/##' | tr '\n' ' ')
  git -C /repo worktree remove --force $W >/dev/null 2>&1
  echo "$pid $c reverted -> exit $rc  $first"
done < /tmp/wt/revert_list.txt
rm -f /tmp/wt/revert_list.txt
