#!/usr/bin/env python3
"""copies independently confirmed seeded changes from /tmp/wt/out/<ID>/<x>/ to /verif/seeded/<ID>-<x>/ (developer tool)"""
import glob, json, os, shutil
ROOT = os.path.dirname(os.path.dirname(os.path.abspath(__file__)))
for f in sorted(glob.glob("/tmp/wt/confirm/*.json")):
    d = json.load(open(f))
    if "error" in d:
        print("skip", f, d); continue
    ok = d["demo_clean_rc"] == 0 and d["demo_patched_rc"] == 1 and d["suite_rc"] == 0
    src = d.get("src") or f"/tmp/wt/out/{d['id']}/{d['x']}"
    dst = os.path.join(ROOT, "seeded", f"{d['id']}-{d['x']}")
    if not ok:
        print("NOT confirmed", d); continue
    os.makedirs(dst, exist_ok=True)
    shutil.copy(os.path.join(src, "patch.diff"), dst)
    shutil.copy(os.path.join(src, "demo.py"), dst)
    meta = json.load(open(os.path.join(src, "meta.json")))
    keep = {"property": d["id"], "files_changed": meta.get("files_changed"), "functions_changed": meta.get("functions_changed"),
            "what_it_breaks": meta.get("what_it_breaks"), "needs_to_manifest": meta.get("needs_to_manifest"),
            "produced_by": "independent sub-agent given only the property text and a scratch worktree",
            "confirmed_by_me": {"at_repo_head": d["head"],
                                "ran": ["scratch worktree outside /repo and /verif: demo.py on clean tree -> exit %d" % d["demo_clean_rc"],
                                        "git apply patch.diff; demo.py -> exit %d (FAIL)" % d["demo_patched_rc"],
                                        "pinned suite with the patch: all 538 stable-pass names still pass (exit %d)" % d["suite_rc"]]}}
    old = {}
    mp = os.path.join(dst, "meta.json")
    if os.path.exists(mp):
        old = json.load(open(mp))
    for k in ("caught_by", "check_result"):
        if k in old:
            keep[k] = old[k]
    json.dump(keep, open(mp, "w"), indent=1)
    print("imported", dst)
