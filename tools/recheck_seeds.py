#!/usr/bin/env python3
"""developer tool: re-checks every kept seeded change against /repo's current HEAD on a scratch export (outside /repo and /verif): the patch applies,
the demo passes on the clean tree and fails with the patch; records it, and what the last sweep found, in seeded/<n>/meta.json"""
import glob, json, os, shutil, subprocess, sys, tempfile
from concurrent.futures import ThreadPoolExecutor
ROOT = os.path.dirname(os.path.dirname(os.path.abspath(__file__)))
HEAD = subprocess.run(["git", "-C", "/repo", "rev-parse", "--short", "HEAD"], capture_output=True, text=True).stdout.strip()


def demo(tree, demo_py):
    d = tempfile.mkdtemp(prefix="seed-demo-")
    try:
        p = subprocess.run(["/venv/bin/python", demo_py], cwd=d, env={**os.environ, "PYTHONPATH": tree}, capture_output=True, text=True, timeout=900)
        return p.returncode
    except subprocess.TimeoutExpired:
        return 124
    finally:
        shutil.rmtree(d, ignore_errors=True)


def one(sd):
    n = os.path.basename(sd)
    w = tempfile.mkdtemp(prefix=f"seed-{n}-")
    try:
        subprocess.run(f"git -C /repo archive HEAD | tar -x -C {w}", shell=True, check=True)
        clean = demo(w, os.path.join(sd, "demo.py"))
        ap = subprocess.run(["patch", "-p1", "-s", "-i", os.path.join(sd, "patch.diff")], cwd=w, capture_output=True, text=True)
        patched = demo(w, os.path.join(sd, "demo.py")) if ap.returncode == 0 else None
    finally:
        shutil.rmtree(w, ignore_errors=True)
    mp = os.path.join(sd, "meta.json")
    m = json.load(open(mp))
    m["rechecked_at_final_head"] = {"head": HEAD, "patch_applies": ap.returncode == 0, "demo_clean_exit": clean, "demo_patched_exit": patched}
    cr = os.path.join(sd, "check_result.json")
    if os.path.exists(cr):
        r = json.load(open(cr))
        m["caught_by"] = {"check": f"./check {m['property']} --tier quick", "exit": r.get("check_exit"), "failed_obligations": r.get("failed_obligations"),
                          "with_failing_input_replayed": r.get("with_failing_input_replayed")}
    json.dump(m, open(mp, "w"), indent=1)
    return n, ap.returncode == 0, clean, patched


if __name__ == "__main__":
    sds = sorted(glob.glob(os.path.join(ROOT, "seeded", "C*-[a-z]")))
    with ThreadPoolExecutor(max_workers=4) as ex:
        for n, a, c, p in ex.map(one, sds):
            flag = "" if (a and c == 0 and p == 1) else "   <-- CHECK"
            print(n, "applies" if a else "DOES NOT APPLY", "clean", c, "patched", p, flag, flush=True)
