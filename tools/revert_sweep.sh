#!/bin/bash
# developer tool: for every fix: commit recorded in known_findings.json, reverts it in /repo's working tree (no commit), runs the property's quick
# check (must exit 1), restores the tree.  Prints one line per fix.
cd /verif
git -C /repo diff --quiet || { echo "/repo working tree is not clean"; exit 2; }
python3 - <<'PY' > /tmp/revert_list.txt
import json, re
d = json.load(open('/verif/known_findings.json'))
for e in d['fixed']:
    m = re.match(r"fixed: property=(C\d+) ([0-9a-f]{7})", e)
    if m: print(m.group(1), m.group(2))
PY
while read pid c; do
  git -C /repo revert --no-commit $c >/dev/null 2>&1 || { echo "$pid $c: revert does not apply cleanly"; git -C /repo revert --abort 2>/dev/null; git -C /repo reset -q --hard HEAD; continue; }
  out=$(./check $pid 2>&1 | grep -v "^WARNING")
  rc=$(echo "$out" | grep -o "exit=[0-9]*" | tail -1 | cut -d= -f2)
  first=$(echo "$out" | grep "^VIOLATION" | head -2 | sed 's#.*/replays/##' | tr '\n' ' ')
  git -C /repo revert --abort >/dev/null 2>&1; git -C /repo reset -q --hard HEAD
  echo "$pid $c reverted -> exit $rc  $first"
done < /tmp/revert_list.txt
rm -f /tmp/revert_list.txt
