#!/venv/bin/python
"""usage: baseline_check.py <worktree>  -- runs the pinned suite in <worktree>, compares with the 538 stable-pass names"""
import json, subprocess, sys, os, xml.etree.ElementTree as ET, tempfile
wt = os.path.abspath(sys.argv[1])
b = json.load(open('/root/.vp/BASELINE.json'))
out = tempfile.mktemp(suffix='.xml', dir=wt)
env = dict(os.environ, PYTHONPATH=wt)
extra = sys.argv[2:]
cmd = ['/venv/bin/python','-m','pytest','-q','-p','no:cacheprovider','--timeout=900','--continue-on-collection-errors','--junitxml='+out] + extra
r = subprocess.run(cmd, cwd=wt, env=env, stdout=subprocess.PIPE, stderr=subprocess.STDOUT, text=True)
print(r.stdout[-1500:])
passed=set()
for tc in ET.parse(out).getroot().iter('testcase'):
    if not any(ch.tag in ('failure','error','skipped') for ch in tc):
        passed.add(f"{tc.get('classname')}::{tc.get('name')}")
os.remove(out)
want=set(b['stable_pass'])
if extra:
    print("partial run; passed", len(passed)); sys.exit(0)
missing=sorted(want-passed)
print("stable_pass expected:",len(want),"passed of those:",len(want&passed))
for m in missing: print("NOW FAILING:",m)
sys.exit(1 if missing else 0)
