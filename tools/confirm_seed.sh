#!/bin/bash
# usage: confirm_seed.sh <ID> <a|b>  -- independently confirms a seeded change delivered under /tmp/wt/out/<ID>/<x>/
# (applies in a scratch worktree outside /repo and /verif, demo must FAIL with it and PASS without, pinned suite must stay 538/538)
mkdir -p /tmp/wt
ID=$1; X=$2
SRC=${SEED_SRC:-/tmp/wt/out}/$ID/$X
WT=/tmp/wt/cf_${ID}_$X
OUT=/tmp/wt/confirm; mkdir -p $OUT
RES=$OUT/${ID}_$X.json
git -C /repo worktree remove --force $WT >/dev/null 2>&1
git -C /repo worktree add --detach $WT HEAD >/dev/null 2>&1 || { echo "{\"error\":\"worktree\"}" > $RES; exit 1; }
cd $WT
rundemo() { d=$(mktemp -d); (cd $d && PYTHONPATH=$WT timeout 600 /venv/bin/python $SRC/demo.py > $d/out.txt 2>&1; echo $? > $d/rc); rc=$(cat $d/rc); tail -c 600 $d/out.txt > $OUT/${ID}_$X.demo_$1.txt; rm -rf $d; echo $rc; }
CLEAN_RC=$(rundemo clean)
if ! git apply --check $SRC/patch.diff 2>/dev/null; then echo "{\"id\":\"$ID\",\"x\":\"$X\",\"error\":\"patch does not apply\"}" > $RES; cd /; git -C /repo worktree remove --force $WT; exit 1; fi
git apply $SRC/patch.diff
PATCH_RC=$(rundemo patched)
/verif/tools/baseline_check.py $WT > $OUT/${ID}_$X.suite.txt 2>&1; SUITE_RC=$?
git checkout -q -- . ; git clean -fdq
cd /
git -C /repo worktree remove --force $WT >/dev/null 2>&1
echo "{\"id\":\"$ID\",\"x\":\"$X\",\"demo_clean_rc\":$CLEAN_RC,\"demo_patched_rc\":$PATCH_RC,\"suite_rc\":$SUITE_RC,\"src\":\"$SRC\",\"head\":\"$(git -C /repo rev-parse --short HEAD)\"}" > $RES
cat $RES
