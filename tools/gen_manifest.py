#!/usr/bin/env python3
"""Regenerates MANIFEST.json from the table below (developer tool; not used by checks)."""
import json, os
ROOT = os.path.dirname(os.path.dirname(os.path.abspath(__file__)))
props = [json.loads(l) for l in open(os.path.join(ROOT, "properties.jsonl"))]
base = json.load(open("/root/.vp/BASELINE.json"))
TECH = "contract-based deductive verification: VCs generated from the real Python source (pyvc, ast->SMT), discharged by z3/cvc5"
CLAIMED = {
 "C02": {"text": "Every Scanner function the property is anchored in (includes, is_last, the yacc production helpers) is proved against a contract written from the property statement, for all inputs and iterations, by VCs generated from the real source; a change that breaks the denotation fails a named clause and is replayed on the real function.",
         "note": "Assumes: PLY reduces productions bottom-up/left-to-right and the lexer yields int NUMBER tokens (closed only by the bounded native complement); collaborator line_monitor abstracted; encoding assumptions of DESIGN §8.",
         "tech": TECH + " + bounded native complement through real PLY"},
 "C14": {"cat": "proof", "text": "The documented assignment table (D1-D7) is a set of postconditions on the real Equality._do_assignment/_do_assignment_new_impl, proved for all 256 qualifier subsets and all values symbolically, modularly from exact contracts on _set_variable_if/_latch_and_onchange. Bounded complement over the property's own finite space: every qualifier subset x value sequences x rest-matches as a real csvpath over a 3-line file (thorough: all 52224 runs).",
         "note": "Assumes [A] interface contracts: child to_value memoised per line, Matcher.get/set_variable as abstract store view, Qualified.line_matches as the onmatch look-ahead, asbool a function of its argument; AND mode; listed don't-cares unchecked.",
         "tech": TECH},
}
CLAIMED.update({
 "C04": {"cat": "proof", "text": "Every function that writes or reports the verdict is under contract and proved: Fail/FailAll/Stopper._stop_me invalidate exactly when fired, ErrorHandler._handle_if exactly under 'fail' (symbolic policy and overrides), Matcher.matches/_consider_line are monotone, Failed reports the current verdict, ResultsManager.is_valid / ResultsRegistrar.all_valid / register_complete are the conjunction of the members (unbounded loops with invariants); a frame scan over the whole package proves no writer can set the verdict back to True. Bounded complement: conditional fail()/fail_and_stop() at every line with a per-line valid()/failed() observer, errors under 17 policies, and groups of 2-3 members (results_manager.is_valid, manifest all_valid) on the real CsvPath/CsvPaths.",
         "note": "Assumes [A]: match components as interface objects (vote / fires stop / fails), Result.is_valid as the member verdict, manifest bytes on disk (json.dump) not modelled; explain-mode off.",
         "tech": TECH + " + syntactic frame scan"},
 "C05": {"cat": "proof", "text": "The five observable effects of error handling are postconditions on normal AND exceptional exits of the real ErrorHandler._handle_if for a symbolic policy list and symbolic validation-mode overrides (the 2^6 x 3^4 split is done by the solver); do_i_* and ValidationMode.set_* are proved against override-else-policy; attribute safety turns a missing attribute into a failed no_unexpected_exception obligation; Expression.matches traps everything; Matcher.matches hands trapped errors over on every exit and Matcher.clear_errors asks every expression whatever the state of the run (loop invariant); ErrorHandler.build records the physical line, line 0 included. Bounded complement: all 63 policy subsets x 5 error kinds (one followed by a stop() on the same line) x offending-line positions incl. line 0 x 7 validation-mode overrides on the real CsvPath.",
         "note": "The chain Matcher.matches -> clear_errors -> Expression.handle_errors_if -> ErrorHandler()/handle_error -> build/_handle_if is under contract link by link (the policy _handle_if acts on is proved to be the csvpath's configured policy at its call site). Assumes [A]: CsvPath.print as abstract printer log, collector is a CsvPath (Result collector not yet under contract), a csvpath has a config object, logging dropped.",
         "tech": TECH},
 "C13": {"cat": "proof", "text": "Matcher.matches is proved against control clauses taken from the property (no component after a halt, skip means no match and does not outlive the line, stop mid-line means no match, stop as final component keeps the fold), CsvPath.next (generator, ghost yield list) against 'no record after the stopping one', _consider_line against the advance and blank-last clauses, Stop/Skip/Advance/Last._decide_match against fires-iff clauses; all loops by invariants, unbounded. Bounded complement: every position of a stop/skip/advance/last component among 1-3 side-effecting components, every firing line, 3 scan windows (advance also over two windows with a gap), files with interior/trailing blank records, plus stop/skip programs whose first marker is onmatch-qualified, on the real CsvPath.",
         "note": "Assumes [A]: match components / records as interface objects with ghost fields, none of which evaluates its siblings (false for an onmatch-qualified component placed before the stop/skip: recorded KNOWN-FINDING, exercised by the bounded script); generator protocol; scanner well-formedness from C02; explain-mode off.",
         "tech": TECH},
})
CLAIMED.update({
 "C15": {"text": "Inversion ('return-mode no-matches returns exactly the scanned lines the default mode does not') is a postcondition of the real _consider_line, the collected/unmatched partition and 'no-run reads nothing' are postconditions of the real CsvPath.next (ghost yield list, loop invariant, unbounded); return/run/unmatched/source mode getters are proved against the documented strings; PrintMode.update_printers is proved to remove exactly the first standard-out printer under no-default and leave every other printer in place (two loops with invariants over a symbolic printer list). The comment scanner is a character state machine checked natively over a stated finite scope.",
         "note": "Bounded (not proved): MetadataParser over comments of <=2 fields (values with leading punctuation, free text with doubled colons included), end-to-end mode runs over 4 files x 7 match parts. Assumes [A]: ModeController.get reads metadata; records/match verdicts as interface objects; isinstance is a fixed predicate of a printer's identity.",
         "tech": TECH + " + bounded native complement for the comment scanner"},
})
CLAIMED.update({
 "C07": {"text": "collect() and fast_forward() are proved to be drivers of next(): collect returns next()'s lines in order (iota spec function, loop invariant), all of them or the first n, and advances the generator exactly as many times as lines it returns (ghost pull counter, so no side effect of a later line can have run); fast_forward drains next() and writes nothing else (frame); next() itself is under contract (stops, finalizes). A bounded differential run of the three real entry points closes the [A] generator glue.",
         "note": "Assumes [A] Python's generator protocol and next() as the only producer; bounded: 416 (csvpath, file, mode) cases compared across collect/next/fast_forward and collect(nexts=n).",
         "tech": TECH + " + bounded differential complement"},
})
BT = "bounded differential/oracle runs of the real CsvPaths over a stated finite scope (labelled bounded) + " + TECH
CLAIMED.update({
 "C08": {"cat": "other", "text": "Schedule equivalence is a relation between three schedules of the real code; it is checked by running them (alone / serial / breadth-first) on a stated finite set of groups and comparing lines, variables, printouts, validity and counters, plus union/intersection of the caller lines. Proved pieces: the per-line step both schedules call (_consider_line) and clear_run_coordination.",
         "note": "BOUNDED, not proved: 246 (group, file) cases x six run methods. next_by_line's nested generator loop is not under contract. Assumes members share no mutable state.",
         "tech": BT},
 "C09": {"cat": "other", "text": "Proved: the run manifest's status / all_valid / all_completed / error_count written by ResultsRegistrar.register_complete are the conjunction / conjunction / sum over the members (unbounded loops, prefix_sum spec function). Bounded: every archived file of 48 real runs (4 groups x 2 files x six methods) is read back and compared with the in-memory results and its fingerprint.",
         "note": "Proved too: ResultSerializer._save writes meta/errors/vars.json with exactly the given content into the member's directory, ResultsManager.save serialises then registers each member exactly once (files before fingerprints), and ResultRegistrar.register_complete / metadata_update write a member manifest whose valid / completed / error_count / actual_data_file / identity are the csvpath's (ghost effect log). data.csv, unmatched.csv, printouts.txt, fingerprints are BOUNDED only; json/csv/hashlib external.",
         "tech": BT},
 "C10": {"cat": "other", "text": "Proved: get_run_dir returns a path for which os.path.exists is False under base/<named-paths name>/ (while loop + invariant, file system as uninterpreted predicate); clear_run_coordination forgets the run directory; the strftime format read from the source is strictly monotone in the timestamp and equals the format the :last/:first reader parses (VCs over directive fields). Bounded: run sequences with a scripted clock.",
         "note": "Assumes strftime/strptime directive semantics; bounded: all sequences of length <=2, all length-3 of one group, stride sample of the rest.",
         "tech": BT},
 "C18": {"cat": "other", "text": "Proved: collect_paths, fast_forward_paths and next_paths save the member being run before an exception leaves them, do not complete the run and clear the run coordination (exceptional-exit postconditions; loop invariant over the members; all policies); a finished run saves every member and completes once. ErrorHandler._handle_if has collected/printed/failed/stopped before it raises. Bounded: every (member, line) abort point of the stated grid is run on the real CsvPaths for the six run methods, the archive is read back, and a further run on the same instance must archive normally without touching the aborted record.",
         "note": "next_by_line (the three breadth-first methods) is BOUNDED only. One known finding (abort on the last line -> completed true).",
         "tech": BT},
 "C20": {"cat": "other", "text": "Proved: Reference._variable_value returns the stored final value whatever it is (0, False, '' included) and raises exactly when the variable is unknown; get_last_named_result returns the last added result; SourceMode.value reads 'preceding'. Bounded: source-mode preceding chains (every suffix) and variable/tracked/results references on the real CsvPaths.",
         "note": "Proved too: _load_csvpath parses '$' + the predecessor's data.csv + match part in source-mode preceding, the named file otherwise, the referenced data.csv for a results reference, and reads a data.csv in the dialect it is written in; ResultsManager._find_instance returns an exact run directory name as it is and resolves :last/:first in the given directory at the time of the call; data_file_for_reference maps $group.results.<run directory>.<member> to <archive>/<group>/<run directory>/<member>/data.csv and raises exactly when one of those four does not exist. Header references, results references by :last/:first/exact name, a semicolon-delimited chain and the tracked-variable variant of _variable_value are BOUNDED only.",
         "tech": BT},
})
CLAIMED.update({
 "C11": {"cat": "other", "text": "Proved: FileManager.add_named_file copies the given file into the name's home once and registers it once, under the given name, with the fingerprint and path _fingerprint returned for the copied bytes; FileRegistrar.register_complete distributes exactly one manifest entry per change of the CURRENT version (bytes or source file name) and none for a repeat, comparing with the last entry only. Bounded: operation sequences {add, mutate source, remove, new instance} on the real FileManager against the abstract view name -> versions the property gives (content addressing, immutability of every registered version, fresh-instance agreement).",
         "note": "_copy_in[local_file] is proved to make exactly one shutil.copy of the source into the name's home (effect log); _fingerprint (hashlib, os.rename) is covered only by the bounded sequences (one of the two source files has no extension); no '#mark' / s3 paths.",
         "tech": BT},
 "C12": {"cat": "other", "text": "Proved (unbounded member lists, loop invariants over array-encoded lists): _find_one / _get_from / _get_to select exactly the member, the suffix and the prefix at the first matching identity; get_identified_paths_in pairs every member in stored order with the identity of its own comment (fresh holder per member); CsvPath.identity's precedence id>Id>ID>name>Name>NAME; PathsRegistrar.metadata_update writes one manifest entry carrying the fingerprint per change of the last fingerprint and none for an identical re-add (effect log for json.dump). Bounded: add / re-add / replace / remove / new-instance sequences and round trips on the real PathsManager.",
         "note": "The split/join round trip of the stored group file (_str_from_list/_get_named_paths) and the comment scanner are covered by the bounded runs only.",
         "tech": BT},
})
CLAIMED.update({
 "C06": {"cat": "other", "text": "Proved: CsvPath._next_line hands on exactly the records the reader gives, in order, each tracked by the line monitor first (track_line: one step of the 0-based record number per record) and finalizes once at the end; Header.to_value reads the cell under the header by name or by index and reads as absent (None) on a short row or unknown header; CsvPath.header_index is the first position (loop invariant, array-encoded list); limit_collection is the identity without collect(). Bounded: files written by csv.writer (4 delimiters x 2 quote chars, quotes/delimiters/newlines/unicode/BOM in cells, ragged and blank records) are read back through the real CsvPath and compared with csv.reader's own parse; headers against the documented cleaning.",
         "note": "Two advisory call-site scans name what CsvDataReader.next hands to open() (utf-8 text) and csv.reader() (its own delimiter and quotechar); alone they only note 'undecided'. csv dialect parsing itself is external ([A] csv.reader); CsvDataReader.next / LineCounter loops are covered by the bounded files only; xlsx/s3/pandas readers not covered.",
         "tech": BT},
})
CLAIMED.update({
 "C16": {"cat": "other", "text": "Proved: Print._decide_match (default and named printer) sends exactly one entry per execution iff the onchange/once gates are open, records it (so print.once holds for every printer) and leaves earlier printouts untouched; PrintParser._handle_local reads $.variables / $.headers / $.metadata from this csvpath's live stores; PrintParser._ref_from_dict returns the tracked value / stack item / length whatever it is (0 and '' included). Bounded: every template of 1..3 items over 17 item kinds is rendered through the real Lark grammar/transformer and compared with the statement's render function; onmatch/once gating; empty output.",
         "note": "Text fidelity through Lark's Earley tokenisation is BOUNDED only. One known finding: references closer than two characters lose/reorder the characters between them.",
         "tech": BT},
})
CLAIMED.update({
 "C17": {"cat": "other", "text": "Proved for all inputs: ExpressionUtility._next_qual / get_name_and_qualifiers return every dot-separated part of a name in order (recursive spec function, induction through the function's own contract); the Qualified, Matchable, Variable, Header, Term, Equality, Expression constructors keep name, qualifiers and literal value; LarkTransformer.STRING / SIGNED_NUMBER / HEADER / VARIABLE / equality / assignment / expression build the component with the written literal, name, qualifiers, operator and operand order. Bounded: the Earley grammar (no _ambig node, tree == generated AST, layout-insensitive tree and run results) over 500 (thorough 6000) generated programs.",
         "note": "Unambiguity and layout-insensitivity for ALL programs is a property of the grammar as interpreted by Lark, not of Python functions within reach of contracts: BOUNDED only. LarkTransformer.args / function and FunctionFactory.get_function are covered by the bounded tree comparison only.",
         "tech": BT},
})
CLAIMED.update({
 "C19": {"cat": "other", "text": "Proved: LineMonitor.copy returns a different object equal on all eight counters; CsvPath.get_total_lines_and_headers asks the cacher for exactly the file being scanned, once. Frame scan over the whole package: the only writers of process-global state (class-level registries, warnings filter, os.environ, sys.path, chdir, random.seed, globals) are the four known idempotent ones. Bounded: 12 jobs over 5 files, each compared with the same job run first in a fresh process, across every ordered pair and 80 (thorough 1500) longer histories, cold vs warm cache, repeat runs, and mutation of the copies a cacher hands out.",
         "note": "Equality with the fresh-process twin for ALL histories is a relation between two process histories: BOUNDED only. FileCacher.get_new_line_monitor/get_original_headers keep a dict of (object, list) tuples, outside the verifier's value model: bounded (clause callers_get_private_copies). An advisory call-site scan names the dialect of the header cache (csv defaults on the writing and the reading side).",
         "tech": BT},
})
CLAIMED.update({
 "C03": {"cat": "other", "text": "Proved for all inputs: CsvPath.set_variable / get_variable write and read exactly the addressed variable or tracking value and leave every other entry of the store untouched (frame quantified over the whole store; a frozen run changes nothing; 0 and None are values); raise_match_count_if / _consider_line / LineMonitor.next_line keep match_count, scan_count and the 0-based/1-based line counters; first, tally, count, counter, every, sum, subtotal, push, pop, count_lines, line_number, count_scans perform exactly the documented read-modify-write against the abstract store, which Matcher.get_variable / set_variable hand to CsvPath's store functions unchanged. Bounded: the end-to-end fold over 5 program families x 4 scans x 120 (thorough 2500) generated files.",
         "note": "The variable store is a nested dict: plain variables are proved over dict[str -> value], tracking dicts over one named entry holding dict[str -> value] (string tracking keys) -- other shapes, list-valued variables at end of run, string-to-number conversion of cells are BOUNDED only.",
         "tech": BT},
})
CLAIMED.update({
 "C01": {"cat": "other", "text": "Proved for all inputs along the chain CsvPath.next -> _consider_line -> Matcher.matches -> Expression.matches -> Equality.matches -> Function.matches: lines are yielded once, in file order, exactly when the verdict holds; the verdict is the AND/OR of the component votes taken left to right; Equality dispatches by operator once per line; '==' compares as written or as values; '->' runs its right side iff the left side matched, once per line; a function decides exactly once per line and errors go to the expression; a variable is an existence test (0 and '' exist); not/and/or/yes/no/length/exists/empty/add/subtract/multiply/concat/substring/starts_with/strip/lower/upper, equals() (numbers; texts up to float parsing), between()/inside()/range()/from_to()/beyond()/outside() on numbers and stripped texts (bounds in either order, strict vs inclusive, a missing argument does not match), min_length()/max_length(), firstline()/firstscan()/firstmatch() and the strict / non-strict AboveBelow comparisons are the documented operators. Bounded: reference evaluation of 150 (thorough 3000) generated (csvpath, file) pairs in AND and OR mode.",
         "note": "Known findings (genuine, recorded, not repaired): lt()/below()/before() answer <= (numbers and strings); ordinal comparisons treat CSV cells as strings. The other leaf functions of the documented set (in, equals, subtract, divide, mod, substring, ...) and argument lists longer than two are covered by the bounded evaluator only; regex, dates, stats are not covered.",
         "tech": BT},
})
NA_REASON = {}
m = {
 "version": 1, "setup_cmd": "./setup.sh",
 "hooks": {"guard": "CSVPATH_VERIF", "enable": "none needed: contracts are sidecar files under /verif/contracts and the native harness builds objects itself; no hook exists in /repo",
           "baseline_off_cmd": base["cmd"].replace("--junitxml=<file>", "--junitxml=/tmp/csvpath-baseline.xml"), "source_commits": [], "add_only": True},
 "engines": [
  {"name": "pyvc", "path": "pyvc/", "serves_properties": sorted(CLAIMED), "kind_free_text": "ast->SMT verification-condition generator over /repo's real source (re-read every run), sidecar contracts, z3 5.1 / z3 4.8.12 / cvc5 portfolio"},
  {"name": "native", "path": "native/", "serves_properties": sorted(CLAIMED), "kind_free_text": "replay of solver counterexamples, sampled contract cross-check and bounded stand-ins on the real functions under /venv/bin/python"}],
 "checks": [], "not_applicable": [],
 "notes": "Contract-based deductive verification; see DESIGN.md. Exit 0 held / 1 VIOLATION / 3 checker error. known_findings.json lists recorded defects and the fix: commits."}
for p in props:
    pid = p["id"]
    if pid in CLAIMED:
        c = CLAIMED[pid]
        m["checks"].append({"property_id": pid, "quick_cmd": f"./check {pid} --tier quick", "thorough_cmd": f"./check {pid} --tier thorough",
                            "evidence_file": f"evidence/{pid}.json", "replay_cmd_template": f"./check {pid} --replay {{path}}", "engine": "pyvc",
                            "level_claimed": {"category": c.get("cat", "other"), "text": c["text"], "design_ref": "DESIGN.md §0 (as built) and §6 " + pid},
                            "level_note": c["note"], "technique": c["tech"]})
    else:
        m["not_applicable"].append({"property_id": pid, "reason": NA_REASON.get(pid, "not built yet in the time used so far (contracts planned in DESIGN.md §6); not a statement that the technique cannot apply")})
json.dump(m, open(os.path.join(ROOT, "MANIFEST.json"), "w"), indent=1)
print("claimed:", sorted(CLAIMED))
